"""Selftest of harness.dexasm.

    PYTHONPATH=/repo:/verif /venv/bin/python -m harness.dexasm_selftest [seed] [count]

1. unit checks of the primitives against independent decoders written here
   (LEB128, MUTF-8, encoded_value, every instruction format, payloads, assembler),
2. random DEX files checked with an independent mini reader (header, checksum, signature,
   map, sorted pools, every structure the writer emits) against the builder's model,
3. the same files parsed by androguard (DEX(...)): classes, members, access flags, code
   bytes, registers, tries/handlers, strings, static values must agree with the model,
4. androguard Analysis + create_xref() must run on them.

Known androguard disagreements are listed in KNOWN (they are reported, not fatal);
everything else is fatal (exit 1).
"""

from __future__ import annotations

import hashlib
import random
import struct
import sys
import time
import zlib

from harness.dexasm import *  # noqa: F401,F403
from harness import dexasm

FAILS = []
KNOWN = {}      # key -> [count, example]


def fail(what, detail=''):
    FAILS.append((what, detail))
    if len(FAILS) <= 20:
        print('FAIL %s: %s' % (what, str(detail)[:600]))


def known(key, example):
    e = KNOWN.setdefault(key, [0, example])
    e[0] += 1


def check(cond, what, detail=''):
    if not cond:
        fail(what, detail() if callable(detail) else detail)
    return cond


# ==========================================================================================
# independent decoders
# ==========================================================================================

def rd_uleb(b, p):
    r = 0
    s = 0
    while True:
        x = b[p]
        p += 1
        r |= (x & 0x7F) << s
        s += 7
        if not x & 0x80:
            return r, p


def rd_sleb(b, p):
    r = 0
    s = 0
    while True:
        x = b[p]
        p += 1
        r |= (x & 0x7F) << s
        s += 7
        if not x & 0x80:
            if x & 0x40:
                r -= 1 << s
            return r, p


def rd_mutf8(b, p):
    """-> (utf16 units, position after the terminating NUL)"""
    units = []
    while True:
        a = b[p]
        if a == 0:
            return units, p + 1
        if a < 0x80:
            units.append(a)
            p += 1
        elif a & 0xE0 == 0xC0:
            units.append((a & 0x1F) << 6 | (b[p + 1] & 0x3F))
            assert b[p + 1] & 0xC0 == 0x80
            p += 2
        elif a & 0xF0 == 0xE0:
            assert b[p + 1] & 0xC0 == 0x80 and b[p + 2] & 0xC0 == 0x80
            units.append((a & 0x0F) << 12 | (b[p + 1] & 0x3F) << 6 | (b[p + 2] & 0x3F))
            p += 3
        else:
            raise AssertionError('bad MUTF-8 lead byte %02x' % a)


def units_to_str(units):
    return b''.join(struct.pack('<H', u) for u in units).decode('utf-16-le', 'surrogatepass')


def rd_value(b, p):
    """independent encoded_value decoder -> ((vt, value, width), p).  Floats as bit patterns."""
    h = b[p]
    p += 1
    vt, arg = h & 0x1F, h >> 5
    if vt in (0x00, 0x02, 0x04, 0x06):
        n = arg + 1
        v = int.from_bytes(b[p:p + n], 'little', signed=True)
        return (vt, v, n), p + n
    if vt in (0x03, 0x15, 0x16, 0x17, 0x18, 0x19, 0x1A, 0x1B):
        n = arg + 1
        return (vt, int.from_bytes(b[p:p + n], 'little'), n), p + n
    if vt in (0x10, 0x11):
        n = arg + 1
        full = 4 if vt == 0x10 else 8
        v = int.from_bytes(b[p:p + n], 'little') << (8 * (full - n))
        return (vt, v, n), p + n
    if vt == 0x1C:
        assert arg == 0
        vals, p = rd_array(b, p)
        return (vt, vals, None), p
    if vt == 0x1D:
        assert arg == 0
        an, p = rd_annotation(b, p)
        return (vt, an, None), p
    if vt == 0x1E:
        assert arg == 0
        return (vt, None, None), p
    if vt == 0x1F:
        assert arg in (0, 1)
        return (vt, bool(arg), None), p
    raise AssertionError('bad value type %x' % vt)


def rd_array(b, p):
    n, p = rd_uleb(b, p)
    out = []
    for _ in range(n):
        v, p = rd_value(b, p)
        out.append(v)
    return out, p


def rd_annotation(b, p):
    t, p = rd_uleb(b, p)
    n, p = rd_uleb(b, p)
    el = []
    for _ in range(n):
        k, p = rd_uleb(b, p)
        v, p = rd_value(b, p)
        el.append((k, v))
    return (t, el), p


# instruction field decoder, per format, returning fields in spec letter order
def sx(v, bits):
    return v - (1 << bits) if v & (1 << (bits - 1)) else v


def decode_fields(fmt, u):
    op = u[0] & 0xFF
    hi = u[0] >> 8
    if fmt == '10x':
        return op, []
    if fmt == '12x':
        return op, [hi & 0xF, hi >> 4]
    if fmt == '11n':
        return op, [hi & 0xF, sx(hi >> 4, 4)]
    if fmt == '11x':
        return op, [hi]
    if fmt == '10t':
        return op, [sx(hi, 8)]
    if fmt == '20t':
        return op, [sx(u[1], 16)]
    if fmt in ('20bc', '22x', '21c'):
        return op, [hi, u[1]]
    if fmt in ('21t', '21s', '21h'):
        return op, [hi, sx(u[1], 16)]
    if fmt == '23x':
        return op, [hi, u[1] & 0xFF, u[1] >> 8]
    if fmt == '22b':
        return op, [hi, u[1] & 0xFF, sx(u[1] >> 8, 8)]
    if fmt in ('22t', '22s'):
        return op, [hi & 0xF, hi >> 4, sx(u[1], 16)]
    if fmt in ('22c', '22cs'):
        return op, [hi & 0xF, hi >> 4, u[1]]
    if fmt == '30t':
        return op, [sx(u[1] | u[2] << 16, 32)]
    if fmt == '32x':
        return op, [u[1], u[2]]
    if fmt in ('31i', '31t'):
        return op, [hi, sx(u[1] | u[2] << 16, 32)]
    if fmt == '31c':
        return op, [hi, u[1] | u[2] << 16]
    if fmt in ('35c', '35ms', '35mi', '45cc'):
        f = [hi >> 4, u[1], u[2] & 0xF, (u[2] >> 4) & 0xF, (u[2] >> 8) & 0xF, u[2] >> 12, hi & 0xF]
        if fmt == '45cc':
            f.append(u[3])
        return op, f
    if fmt in ('3rc', '3rms', '3rmi', '4rcc'):
        f = [hi, u[1], u[2]]
        if fmt == '4rcc':
            f.append(u[3])
        return op, f
    if fmt == '51l':
        return op, [hi, sx(u[1] | u[2] << 16 | u[3] << 32 | u[4] << 48, 64)]
    raise AssertionError(fmt)


FIELD_SPEC = {   # format -> list of (bits, signed)
    '10x': [], '12x': [(4, 0), (4, 0)], '11n': [(4, 0), (4, 1)], '11x': [(8, 0)], '10t': [(8, 1)],
    '20t': [(16, 1)], '20bc': [(8, 0), (16, 0)], '22x': [(8, 0), (16, 0)], '21t': [(8, 0), (16, 1)],
    '21s': [(8, 0), (16, 1)], '21h': [(8, 0), (16, 1)], '21c': [(8, 0), (16, 0)],
    '23x': [(8, 0)] * 3, '22b': [(8, 0), (8, 0), (8, 1)], '22t': [(4, 0), (4, 0), (16, 1)],
    '22s': [(4, 0), (4, 0), (16, 1)], '22c': [(4, 0), (4, 0), (16, 0)], '22cs': [(4, 0), (4, 0), (16, 0)],
    '30t': [(32, 1)], '32x': [(16, 0), (16, 0)], '31i': [(8, 0), (32, 1)], '31t': [(8, 0), (32, 1)],
    '31c': [(8, 0), (32, 0)],
    '35c': [(4, 0), (16, 0)] + [(4, 0)] * 5, '35ms': [(4, 0), (16, 0)] + [(4, 0)] * 5,
    '35mi': [(4, 0), (16, 0)] + [(4, 0)] * 5,
    '3rc': [(8, 0), (16, 0), (16, 0)], '3rms': [(8, 0), (16, 0), (16, 0)], '3rmi': [(8, 0), (16, 0), (16, 0)],
    '45cc': [(4, 0), (16, 0)] + [(4, 0)] * 5 + [(16, 0)], '4rcc': [(8, 0), (16, 0), (16, 0), (16, 0)],
    '51l': [(8, 0), (64, 1)],
}


def rnd_field(rng, bits, signed):
    edge = rng.random() < 0.3
    if signed:
        lo, hi = -(1 << (bits - 1)), (1 << (bits - 1)) - 1
    else:
        lo, hi = 0, (1 << bits) - 1
    if edge:
        return rng.choice([lo, hi, 0, min(hi, 1), max(lo, -1) if signed else hi >> 1])
    return rng.randint(lo, hi)


# ==========================================================================================
# 1. unit checks
# ==========================================================================================

def unit_checks(rng):
    n = 0
    # --- LEB128
    known_u = {0: '00', 1: '01', 127: '7f', 128: '8001', 16256: '807f', 0xFFFFFFFF: 'ffffffff0f'}
    for v, h in known_u.items():
        check(uleb128(v).hex() == h, 'uleb128 vector', (v, uleb128(v).hex()))
    known_s = {0: '00', 1: '01', -1: '7f', -128: '807f', 63: '3f', 64: 'c000', -64: '40', -65: 'bf7f',
               -(1 << 31): '8080808078', (1 << 31) - 1: 'ffffffff07'}
    for v, h in known_s.items():
        check(sleb128(v).hex() == h, 'sleb128 vector', (v, sleb128(v).hex()))
    check(uleb128p1(-1) == b'\x00' and uleb128p1(0) == b'\x01', 'uleb128p1 vector')
    for _ in range(4000):
        bits = rng.randint(0, 32)
        v = rng.getrandbits(bits) if bits else 0
        pad = rng.choice([None, None, 1, 2, 3, 4, 5])
        e = uleb128(v, pad)
        d, p = rd_uleb(e, 0)
        check(d == v and p == len(e), 'uleb128 roundtrip', (v, pad, e.hex()))
        check(len(e) == max(len(uleb128(v)), pad or 0), 'uleb128 padded length', (v, pad, e.hex()))
        check(all(x & 0x80 for x in e[:-1]) and not e[-1] & 0x80, 'uleb128 continuation bits', e.hex())
        if pad is None and len(e) > 1:
            check(e[-1] != 0, 'uleb128 canonical', e.hex())
        sv = v - (1 << 31) if bits == 32 else (v if rng.random() < .5 else -v - 1) >> 1
        e = sleb128(sv, pad)
        d, p = rd_sleb(e, 0)
        check(d == sv and p == len(e), 'sleb128 roundtrip', (sv, pad, e.hex()))
        check(len(e) == max(len(sleb128(sv)), pad or 0), 'sleb128 padded length', (sv, pad, e.hex()))
        if v < 0xFFFFFFFF:
            e = uleb128p1(v - 1, pad)
            d, p = rd_uleb(e, 0)
            check(d - 1 == v - 1, 'uleb128p1 roundtrip', (v, e.hex()))
        n += 3
    # --- MUTF-8
    check(mutf8_encode('\x00') == b'\xc0\x80', 'mutf8 NUL')
    check(mutf8_encode('\U00010400') == b'\xed\xa0\x81\xed\xb0\x80', 'mutf8 astral', mutf8_encode('\U00010400').hex())
    check(mutf8_encode('\ud800') == b'\xed\xa0\x80', 'mutf8 lone surrogate')
    check(mutf8_encode([0x41, 0xDC00, 0xD800]) == b'A\xed\xb0\x80\xed\xa0\x80', 'mutf8 unit list')
    check(mutf8_encode('\x7f\x80߿ࠀ￿').hex() == '7fc280dfbfe0a080efbfbf', 'mutf8 boundaries')
    for _ in range(1500):
        units = [rng.choice([0, 1, 0x7F, 0x80, 0x7FF, 0x800, 0xD7FF, 0xD800, 0xDBFF, 0xDC00, 0xDFFF, 0xE000,
                             0xFFFF, rng.randint(0, 0xFFFF), rng.randint(0x20, 0x7E)])
                 for _ in range(rng.randint(0, 12))]
        e = mutf8_encode(units)
        check(0 not in e, 'mutf8 has no NUL byte', e.hex())
        d, p = rd_mutf8(e + b'\x00', 0)
        check(d == units, 'mutf8 roundtrip', (units, e.hex()))
        s = units_to_str(units)
        check(mutf8_encode(s) == e, 'mutf8 str vs units', (units,))
        check(utf16_units(norm_str(s)) == units, 'norm_str keeps units', (units,))
        if not any(0xD800 <= u <= 0xDFFF or u == 0 for u in units):
            check(e == s.encode('utf-8'), 'mutf8 == utf-8 on BMP without NUL', (units,))
        n += 1
    # --- encoded_value
    vec = [((VALUE_BYTE, -1), '00ff'), ((VALUE_BYTE, 0x80), '0080'), ((VALUE_SHORT, -129), '227fff'),
           ((VALUE_SHORT, 5), '0205'), ((VALUE_CHAR, 0xFFFF), '23ffff'), ((VALUE_CHAR, 'A'), '0341'),
           ((VALUE_INT, 0x7FFFFFFF), '64ffffff7f'), ((VALUE_INT, -0x800000), '44000080'),
           ((VALUE_LONG, 1 << 40), 'a6000000000001'), ((VALUE_FLOAT, 1.0), '30803f'),
           ((VALUE_FLOAT, 0.0), '1000'), ((VALUE_DOUBLE, 1.0), '31f03f'),
           ((VALUE_DOUBLE, -2.5), '3104c0'), ((VALUE_STRING, 0x1234), '373412'),
           ((VALUE_TYPE, 0), '1800'), ((VALUE_FIELD, 0x10000), '59000001'), ((VALUE_METHOD, 255), '1aff'),
           ((VALUE_ENUM, 256), '3b0001'), ((VALUE_METHOD_TYPE, 1), '1501'), ((VALUE_METHOD_HANDLE, 2), '1602'),
           ((VALUE_NULL, None), '1e'), ((VALUE_BOOLEAN, True), '3f'), ((VALUE_BOOLEAN, False), '1f'),
           ((VALUE_ARRAY, [(VALUE_INT, 1), (VALUE_NULL, None)]), '1c0204011e'),
           ((VALUE_ANNOTATION, (3, [(7, (VALUE_BYTE, 1)), (2, (VALUE_BOOLEAN, True))])), '1d0302023f070001'),
           ((VALUE_INT, 1, 4), '6401000000'), ((VALUE_INT, -1, 3), '44ffffff'), ((VALUE_FLOAT, 1.0, 4), '700000803f'),
           ((VALUE_DOUBLE, 1.0, 3), '510000f03f'.replace('0000f03f', '00f03f'))]
    for args, h in vec:
        e = encoded_value(*args)
        check(e.hex() == h, 'encoded_value vector', (args, e.hex(), h))
    for _ in range(3000):
        vt = rng.choice([VALUE_BYTE, VALUE_SHORT, VALUE_CHAR, VALUE_INT, VALUE_LONG, VALUE_FLOAT, VALUE_DOUBLE,
                         VALUE_STRING, VALUE_TYPE, VALUE_FIELD, VALUE_METHOD, VALUE_ENUM, VALUE_METHOD_TYPE,
                         VALUE_METHOD_HANDLE])
        mx = {VALUE_BYTE: 1, VALUE_SHORT: 2, VALUE_CHAR: 2, VALUE_LONG: 8, VALUE_DOUBLE: 8}.get(vt, 4)
        nb = rng.randint(1, mx)
        signed = vt in (VALUE_BYTE, VALUE_SHORT, VALUE_INT, VALUE_LONG)
        isf = vt in (VALUE_FLOAT, VALUE_DOUBLE)
        raw = rng.getrandbits(8 * nb)
        if isf:
            v = raw << (8 * (mx - nb))   # bit pattern with low-order zero bytes
        elif signed:
            v = sx(raw, 8 * nb)
        else:
            v = raw
        e = encoded_value(vt, v)
        (dvt, dv, dw), p = rd_value(e, 0)
        check(p == len(e) and dvt == vt and dv == v, 'encoded_value roundtrip', (vt, v, e.hex()))
        # minimality: one byte less would not round-trip
        if dw > 1:
            if isf:
                check(e[1] != 0, 'float minimal', e.hex())
            elif signed:
                check(sx(int.from_bytes(e[1:dw], 'little'), 8 * (dw - 1)) != v, 'signed minimal', e.hex())
            else:
                check(e[-1] != 0, 'unsigned minimal', e.hex())
        w = rng.randint(dw, mx)
        e2 = encoded_value(vt, v, w)
        (dvt, dv2, dw2), p = rd_value(e2, 0)
        check(p == len(e2) and dw2 == w and dv2 == v and len(e2) == 1 + w, 'encoded_value forced width',
              (vt, v, w, e2.hex()))
        if isf:
            f = struct.unpack('<f' if vt == VALUE_FLOAT else '<d', v.to_bytes(mx, 'little'))[0]
            if f == f:
                check(encoded_value(vt, f) == e or vt == VALUE_FLOAT and False, 'float from python float', (v, f))
        n += 1
    # --- instruction formats
    for fmt, spec in FIELD_SPEC.items():
        for _ in range(200):
            op = rng.randint(0, 255)
            f = [rnd_field(rng, b, s) for b, s in spec]
            e = encode_format(fmt, op, *f)
            check(len(e) == 2 * FORMAT_UNITS[fmt], 'format length', (fmt, e.hex()))
            u = struct.unpack('<%dH' % (len(e) // 2), e)
            dop, df = decode_fields(fmt, u)
            check(dop == op and df == f, 'format roundtrip', (fmt, op, f, df, e.hex()))
            n += 1
    check(set(FIELD_SPEC) == set(FORMAT_UNITS), 'all formats covered', set(FORMAT_UNITS) ^ set(FIELD_SPEC))
    # spec examples / known encodings
    vec = [(('nop',), '0000'), (('move', 1, 2), '0121'), (('const/4', 3, -1), '12f3'),
           (('return-void',), '0e00'), (('goto', -2), '28fe'), (('goto/16', -2), '2900feff'),
           (('goto/32', 0x12345), '2a0045230100'), (('move/from16', 0xAB, 0x1234), '02ab3412'),
           (('if-eqz', 5, 3), '38050300'), (('const/16', 1, -2), '1301feff'),
           (('const/high16', 1, 0x7FC0), '1501c07f'), (('const-string', 2, 0x10), '1a021000'),
           (('add-int', 1, 2, 3), '90010203'), (('add-int/lit8', 1, 2, -3), 'd80102fd'),
           (('if-lt', 1, 2, -4), '3421fcff'), (('add-int/lit16', 1, 2, 0x100), 'd0210001'),
           (('iget', 1, 2, 0x33), '52213300'), (('move/16', 0x1111, 0x2222), '030011112222'),
           (('const', 7, -1), '1407ffffffff'), (('packed-switch', 1, 0x10), '2b0110000000'),
           (('const-string/jumbo', 1, 0x12345), '1b0145230100'),
           (('invoke-virtual', (1, 2, 3, 4, 5), 0x1234), '6e5534122143'),
           (('invoke-static', (), 7), '710007000000'),
           (('invoke-direct/range', range(10, 13), 9), '760309000a00'),
           (('invoke-polymorphic', (1, 2), 3, 4), 'fa20030021000400'),
           (('invoke-polymorphic/range', range(5, 8), 3, 4), 'fb03030005000400'),
           (('invoke-custom', (1,), 2), 'fc1002000100'), (('const-method-handle', 1, 2), 'fe010200'),
           (('const-method-type', 1, 2), 'ff010200'),
           (('const-wide', 1, 0x0102030405060708), '18010807060504030201'),
           (('filled-new-array/range', ('range', 3, 2), 6), '250206000300')]
    for args, h in vec:
        check(ins(*args).hex() == h, 'ins vector', (args, ins(*args).hex(), h))
    check(len(OPCODES) == 256 and sorted(OPCODES) == list(range(256)), 'opcode table complete')
    check(len(set(nm for nm, _ in OPCODES.values())) == 256, 'mnemonics unique')
    spot = {0x00: 'nop', 0x0e: 'return-void', 0x12: 'const/4', 0x1a: 'const-string', 0x22: 'new-instance',
            0x27: 'throw', 0x2b: 'packed-switch', 0x31: 'cmp-long', 0x3d: 'if-lez', 0x44: 'aget',
            0x51: 'aput-short', 0x52: 'iget', 0x5f: 'iput-short', 0x60: 'sget', 0x6d: 'sput-short',
            0x6e: 'invoke-virtual', 0x72: 'invoke-interface', 0x74: 'invoke-virtual/range',
            0x78: 'invoke-interface/range', 0x7b: 'neg-int', 0x8f: 'int-to-short', 0x90: 'add-int',
            0x9a: 'ushr-int', 0x9b: 'add-long', 0xa5: 'ushr-long', 0xa6: 'add-float', 0xaf: 'rem-double',
            0xb0: 'add-int/2addr', 0xcf: 'rem-double/2addr', 0xd0: 'add-int/lit16', 0xd1: 'rsub-int',
            0xd7: 'xor-int/lit16', 0xd8: 'add-int/lit8', 0xe2: 'ushr-int/lit8', 0xfa: 'invoke-polymorphic',
            0xff: 'const-method-type'}
    for op, nm in spot.items():
        check(OPCODES[op][0] == nm, 'opcode spot check', (hex(op), OPCODES[op]))
    # --- payloads
    check(packed_switch_payload(-1, [3, -4]).hex() == '00010200ffffffff03000000fcffffff', 'packed payload')
    check(sparse_switch_payload([1, 100], [5, 6]).hex() == '0002020001000000640000000500000006000000', 'sparse payload')
    check(fill_array_data_payload(1, b'\x01\x02\x03').hex() == '00030100030000000102' + '0300', 'fill payload odd')
    check(fill_array_data_payload(2, [1, -1]).hex() == '00030200020000000100ffff', 'fill payload ints')
    check(fill_array_data_payload(8, [1]).hex() == '0003080001000000' + '0100000000000000', 'fill payload wide')
    # --- assembler
    code, off = assemble([
        'top:', ('const/4', 0, 1), ('sparse-switch', 0, 'tab'), ('if-eqz', 0, 'top'), 'x:', ('goto', 'end'),
        'y:', ('nop',), 'end:', ('return-void',), 'tab:', ('sparse-switch-payload', [1, 9], ['x', 'y']),
        'arr:', ('fill-array-data-payload', 4, [7])])
    check(off == {'top': 0, 'x': 6, 'y': 7, 'end': 8, 'tab': 10, 'arr': 20}, 'assemble labels', dict(off))
    check(off.padding == [9] and off.size_units == 26, 'assemble padding', (off.padding, off.size_units))
    exp = (ins('const/4', 0, 1) + ins('sparse-switch', 0, 9) + ins('if-eqz', 0, -4) + ins('goto', 2) + ins('nop')
           + ins('return-void') + ins('nop') + sparse_switch_payload([1, 9], [5, 6]) + fill_array_data_payload(4, [7]))
    check(code == exp, 'assemble bytes', (code.hex(), exp.hex()))
    return n


# ==========================================================================================
# 2. random files
# ==========================================================================================

ID_CHARS = 'abcXYZ09_$' + 'é' + 'Ω' + '中' + 'ß' + '\U0001F600' + '\U00010400' + 'ж'
STR_CHARS = ID_CHARS + ' \n\x00\x01\x7f\x80' + '\ud800' + '\udc00' + '\udfff' + '￿' + '߿ࠀ'
PRIMS = 'ZBSCIJFD'
EXT_CLASSES = ['Ljava/lang/Object;', 'Ljava/lang/String;', 'Ljava/lang/Throwable;', 'Ljava/lang/Exception;',
               'Ljava/lang/Runnable;', 'Ljava/lang/Enum;']


def rnd_ident(rng):
    return ''.join(rng.choice(ID_CHARS) for _ in range(rng.randint(1, 6)))


def rnd_string(rng):
    return ''.join(rng.choice(STR_CHARS) for _ in range(rng.randint(0, 10)))


def width_of(t):
    return 2 if t in ('J', 'D') else 1


class FileSpec:
    pass


def rnd_value_for(rng, t, ctx, depth=0):
    """random EncodedValue-like for a static field of type t (symbolic references)"""
    w = None
    if t == 'Z':
        return (VALUE_BOOLEAN, rng.random() < .5)
    if t == 'B':
        return (VALUE_BYTE, rng.randint(-128, 127))
    if t == 'S':
        v = rng.choice([rng.randint(-32768, 32767), rng.randint(-128, 127)])
        return (VALUE_SHORT, v, rng.choice([None, 2]))
    if t == 'C':
        v = rng.choice([rng.randint(0, 0xFFFF), rng.randint(0, 255)])
        return (VALUE_CHAR, v, rng.choice([None, 2]))
    if t == 'I':
        v = rng.choice([rng.randint(-2 ** 31, 2 ** 31 - 1), rng.randint(-200, 200), rng.randint(-40000, 40000)])
        return (VALUE_INT, v, rng.choice([None, None, 4]))
    if t == 'J':
        v = rng.choice([rng.randint(-2 ** 63, 2 ** 63 - 1), rng.randint(-200, 200), rng.randint(-2 ** 40, 2 ** 40)])
        return (VALUE_LONG, v, rng.choice([None, None, 8]))
    if t == 'F':
        v = rng.choice([0.0, 1.0, -2.5, 3.1415927410125732, float('inf'), 1e-40, rng.getrandbits(32)])
        return (VALUE_FLOAT, v, rng.choice([None, None, 4]))
    if t == 'D':
        v = rng.choice([0.0, 1.0, -2.5, 3.141592653589793, float('-inf'), 5e-324, rng.getrandbits(64)])
        return (VALUE_DOUBLE, v, rng.choice([None, None, 8]))
    if t == 'Ljava/lang/String;':
        return rng.choice([(VALUE_STRING, rnd_string(rng)), (VALUE_NULL, None)])
    if t == 'Ljava/lang/Class;':
        return (VALUE_TYPE, rng.choice(ctx.all_types))
    if t == 'Ljava/lang/reflect/Field;' and ctx.field_refs:
        return (VALUE_FIELD, rng.choice(ctx.field_refs))
    if t == 'Ljava/lang/Enum;' and ctx.field_refs:
        return (VALUE_ENUM, rng.choice(ctx.field_refs))
    if t == 'Ljava/lang/reflect/Method;' and ctx.method_refs:
        return (VALUE_METHOD, rng.choice(ctx.method_refs))
    if t == 'Ljava/lang/invoke/MethodType;' and ctx.v039:
        return (VALUE_METHOD_TYPE, rng.choice(ctx.protos))
    if t == 'Ljava/lang/invoke/MethodHandle;' and ctx.v039 and ctx.n_handles:
        return (VALUE_METHOD_HANDLE, rng.randrange(ctx.n_handles))
    if t[0] == '[' and depth < 2:
        return (VALUE_ARRAY, [rnd_value_for(rng, t[1:], ctx, depth + 1) for _ in range(rng.randint(0, 3))])
    if t == 'Ljava/lang/annotation/Annotation;' and depth < 2:
        return (VALUE_ANNOTATION, (rng.choice(EXT_CLASSES),
                                   [(rnd_ident(rng), rnd_value_for(rng, rng.choice('IZJ'), ctx, depth + 1))
                                    for _ in range(rng.randint(0, 2))]))
    return (VALUE_NULL, None)


VALUE_FIELD_TYPES = list(PRIMS) + ['Ljava/lang/String;', 'Ljava/lang/Class;', 'Ljava/lang/reflect/Field;',
                                   'Ljava/lang/Enum;', 'Ljava/lang/reflect/Method;', 'Ljava/lang/invoke/MethodType;',
                                   'Ljava/lang/invoke/MethodHandle;', '[I', '[Ljava/lang/String;', '[[J',
                                   'Ljava/lang/annotation/Annotation;', 'Ljava/lang/Object;']

BRANCH_FMT = {'10t', '20t', '30t', '21t', '22t'}


def gen_body(b, seed, v039, n_handles, n_callsites):
    """random instruction list -> (insns bytes, tries, instruction start offsets)"""
    rng = random.Random(seed)
    n = rng.randint(1, 18)
    ops = []
    usable = [op for op, (nm, fmt) in OPCODES.items() if op not in dexasm.UNUSED_OPCODES]
    n_pool = {'string': len(b.strings), 'type': len(b.types), 'field': len(b.fields), 'method': len(b.methods),
              'proto': len(b.protos), 'method+proto': min(len(b.methods), len(b.protos)),
              'call_site': n_callsites if v039 else 0, 'method_handle': n_handles if v039 else 0}
    if not v039:
        n_pool['proto'] = 0
        n_pool['method+proto'] = 0
    items = []
    payloads = []
    cmt_nonzero = False
    labels = ['L%d' % i for i in range(n)]
    for i in range(n):
        items.append(labels[i] + ':')
        while True:
            op = rng.choice(usable)
            nm, fmt = OPCODES[op]
            kind = REF_KIND.get(op)
            if kind and not n_pool[kind]:
                continue
            break
        if fmt in BRANCH_FMT:
            tgt = rng.choice([l for l in labels if l != labels[i]] or [labels[i]])
            if len(labels) == 1:
                items.append(('nop',))
                continue
            spec = FIELD_SPEC[fmt][:-1]
            items.append((op,) + tuple(rnd_field(rng, bb, s) for bb, s in spec) + (tgt,))
        elif fmt == '31t':
            pl = 'P%d' % len(payloads)
            items.append((op, rng.randint(0, 255), pl))
            if nm == 'fill-array-data':
                w = rng.choice([1, 2, 4, 8])
                payloads.append((pl, ('fill-array-data-payload', w,
                                      [rng.getrandbits(8 * w) for _ in range(rng.randint(0, 5))])))
            elif nm == 'packed-switch':
                payloads.append((pl, ('packed-switch-payload', rng.randint(-2 ** 31, 2 ** 31 - 10),
                                      [rng.choice(labels) for _ in range(rng.randint(0, 4))])))
            else:
                k = sorted(rng.sample(range(-1000, 1000), rng.randint(0, 4)))
                payloads.append((pl, ('sparse-switch-payload', k, [rng.choice(labels) for _ in k])))
        elif fmt in ('35c', '45cc'):
            regs = tuple(rng.randint(0, 15) for _ in range(rng.randint(0, 5)))
            if kind == 'method+proto':
                items.append((op, regs, rng.randrange(len(b.methods)), rng.randrange(len(b.protos))))
            else:
                items.append((op, regs, rng.randrange(n_pool[kind])))
        elif fmt in ('3rc', '4rcc'):
            first = rng.randint(0, 0xFF00)
            regs = ('range', first, rng.randint(0, 255))
            if kind == 'method+proto':
                items.append((op, regs, rng.randrange(len(b.methods)), rng.randrange(len(b.protos))))
            else:
                items.append((op, regs, rng.randrange(n_pool[kind])))
        elif kind:
            spec = FIELD_SPEC[fmt][:-1]
            regs = tuple(rnd_field(rng, bb, s) for bb, s in spec)
            if op == 0xFF:
                # androguard rejects `const-method-type vAA` with AA != 0 (it takes 0xAAff for an
                # extended opcode); keep most files free of it so that the rest is still compared
                regs = (0,) if rng.random() < .8 else regs
                cmt_nonzero = cmt_nonzero or regs[0] != 0
            items.append((op,) + regs + (rng.randrange(n_pool[kind]),))
        else:
            items.append((op,) + tuple(rnd_field(rng, bb, s) for bb, s in FIELD_SPEC[fmt]))
    items.append('END:')
    items.append((rng.choice(['return-void', 'return-void', 'nop']),))
    for pl, p in payloads:
        items.append(pl + ':')
        items.append(p)
    code, off = assemble(items)
    starts = [off[l] for l in labels] + [off['END']]
    # tries on instruction boundaries, sorted, non-overlapping
    tries = []
    if rng.random() < 0.6:
        cuts = sorted(set(rng.choice(starts) for _ in range(rng.randint(2, 6))))
        cls_types = [i for i, t in enumerate(b.types) if t[0] == 'L']
        protos = []
        for _ in range(rng.randint(1, 2)):
            hs = [(rng.choice(cls_types), rng.choice(starts)) for _ in range(rng.randint(0, 3))] if cls_types else []
            ca = rng.choice(starts) if (not hs or rng.random() < .4) else None
            protos.append((hs, ca))
        for a, z in zip(cuts, cuts[1:]):
            if rng.random() < .7:
                hs, ca = rng.choice(protos)
                tries.append(Try(a, z - a, list(hs), ca))
    return code, tries, starts, cmt_nonzero


class Memo:
    def __init__(self, fn):
        self.fn = fn
        self.v = None

    def get(self, b):
        if self.v is None:
            self.v = self.fn(b)
        return self.v


def gen_file(rng, idx):
    spec = FileSpec()
    v039 = rng.random() < 0.35
    spec.v039 = v039
    b = DexBuilder()
    ncls = rng.choice([0, 1, 1, 2, 3, 4, 5, 6])
    pkg = rng.choice(['', 'p/', 'a/b/', rnd_ident(rng) + '/'])
    names = []
    while len(names) < ncls:
        nm = 'L' + pkg + rnd_ident(rng) + ';'
        if nm not in names:
            names.append(nm)
    all_types = list(PRIMS) + EXT_CLASSES + names + ['[I', '[[J', '[Ljava/lang/String;'] + ['[' + n for n in names[:2]]
    spec.all_types = all_types
    spec.n_handles = 0
    spec.protos = []
    spec.field_refs = []
    spec.method_refs = []
    # plan the members first (so that values can reference them)
    plan = []
    for ci, nm in enumerate(names):
        # inheritance: may refer to classes defined LATER in insertion order -> reordering needed
        others = [x for x in names if x != nm]
        sup = rng.choice(['Ljava/lang/Object;', 'Ljava/lang/Object;', None if rng.random() < .1 else 'Ljava/lang/Exception;']
                         + [x for x in others if names.index(x) > ci][:1])
        itf = rng.sample([x for x in others if names.index(x) > ci] + ['Ljava/lang/Runnable;'],
                         rng.randint(0, min(2, len([x for x in others if names.index(x) > ci]) + 1)))
        seen = set()
        fl = []
        for _ in range(rng.choice([0, 0, 1, 2, 3, 6])):
            fn, ft = rnd_ident(rng), rng.choice(VALUE_FIELD_TYPES + all_types)
            if (fn, ft) in seen:
                continue
            seen.add((fn, ft))
            static = rng.random() < .6
            fl.append((fn, ft, static))
            spec.field_refs.append((nm, fn, ft))
        ml = []
        seen = set()
        for _ in range(rng.choice([0, 1, 2, 3, 5])):
            mn = rng.choice([rnd_ident(rng), '<init>', '<clinit>', 'run'])
            ret = rng.choice(['V', 'V'] + all_types)
            params = tuple(rng.choice(all_types) for _ in range(rng.choice([0, 0, 1, 2, 3, 7])))
            if mn == '<clinit>':
                ret, params = 'V', ()
            if mn == '<init>':
                ret = 'V'
            if (mn, ret, params) in seen:
                continue
            seen.add((mn, ret, params))
            ml.append((mn, ret, params))
            spec.method_refs.append((nm, mn, ret, params))
            spec.protos.append((ret, params))
        plan.append((nm, sup, itf, fl, ml))
    # extras: pool entries not defined in the file -> gaps in class_data index diffs
    for _ in range(rng.randint(0, 4)):
        b.extra_strings.append(rnd_string(rng))
    for _ in range(rng.randint(0, 3)):
        b.extra_types.append(rng.choice(all_types + ['Lzz/' + rnd_ident(rng) + ';']))
    for _ in range(rng.randint(0, 4)):
        r = (rng.choice(names + EXT_CLASSES), rnd_ident(rng), rng.choice(all_types))
        b.extra_fields.append(r)
        spec.field_refs.append(r)
    for _ in range(rng.randint(0, 4)):
        r = (rng.choice(names + EXT_CLASSES), rnd_ident(rng), rng.choice(['V'] + all_types),
             tuple(rng.choice(all_types) for _ in range(rng.randint(0, 3))))
        b.extra_methods.append(r)
        spec.method_refs.append(r)
        spec.protos.append((r[2], r[3]))
    if rng.random() < .5:
        p = ('V', tuple(rng.choice(all_types) for _ in range(rng.randint(0, 2))))
        b.extra_protos.append(p)
        spec.protos.append(p)
    if not spec.protos:
        b.extra_protos.append(('V', ()))
        spec.protos.append(('V', ()))
    n_cs = 0
    if v039:
        for _ in range(rng.randint(0, 3)):
            if rng.random() < .5 and spec.field_refs:
                b.extra_method_handles.append((rng.randint(0, 3), rng.choice(spec.field_refs)))
            elif spec.method_refs:
                b.extra_method_handles.append((rng.randint(4, 8), rng.choice(spec.method_refs)))
        spec.n_handles = len(b.extra_method_handles)
        if spec.n_handles:
            for _ in range(rng.randint(0, 2)):
                b.extra_call_sites.append([(VALUE_METHOD_HANDLE, rng.randrange(spec.n_handles)),
                                           (VALUE_STRING, rnd_ident(rng)),
                                           (VALUE_METHOD_TYPE, rng.choice(spec.protos)), (VALUE_INT, rng.randint(-5, 5))])
        n_cs = len(b.extra_call_sites)
    spec.bodies = {}
    for nm, sup, itf, fl, ml in plan:
        sfields, ifields = [], []
        for fn, ft, static in fl:
            acc = rng.choice([0x1, 0x2, 0x4, 0x10, 0x40, 0x80, 0x1000, 0x4000]) | (0x8 if static else 0)
            if static:
                init = rnd_value_for(rng, ft, spec) if rng.random() < .7 else None
                sfields.append(Field(fn, ft, acc, init))
            else:
                ifields.append(Field(fn, ft, acc))
        dm, vm = [], []
        for mn, ret, params in ml:
            direct = mn in ('<init>', '<clinit>') or rng.random() < .4
            acc = rng.choice([0x1, 0x2, 0x4, 0x0])
            static = mn == '<clinit>' or (direct and mn != '<init>' and rng.random() < .5)
            if static:
                acc |= 0x8
            if mn in ('<init>', '<clinit>'):
                acc |= 0x10000
            if direct and not static and mn != '<init>':
                acc = (acc & ~0x5) | 0x2
            code = None
            r = rng.random()
            if not direct and r < .2:
                acc |= 0x400   # abstract
            elif r < .3 and mn not in ('<init>', '<clinit>'):
                acc |= 0x100   # native
            else:
                insz = sum(width_of(p) for p in params) + (0 if static else 1)
                memo = Memo(lambda bb, seed=rng.getrandbits(48): gen_body(bb, seed, v039, spec.n_handles, n_cs))
                spec.bodies[(nm, mn, ret, params)] = memo
                dbg = None
                if rng.random() < .3:
                    dbg = (lambda bb, k=len(params), ln=rng.randint(0, 500):
                           debug_info_item(ln, [None] * k, b'\x01\x02\x0e\x00', bb))
                code = Code(insz + rng.randint(0, 4), insz, rng.randint(0, 5),
                            (lambda bb, m=memo: m.get(bb)[0]), (lambda bb, m=memo: m.get(bb)[1]), dbg)
            (dm if direct else vm).append(Method(mn, ret, params, acc, code))
        rng.shuffle(sfields)
        rng.shuffle(dm)
        rng.shuffle(vm)
        ann = None
        if rng.random() < .3:
            ann = {'class': [Annotation(rng.randint(0, 2), rng.choice(EXT_CLASSES),
                                        {rnd_ident(rng): rnd_value_for(rng, rng.choice(VALUE_FIELD_TYPES), spec)
                                         for _ in range(rng.randint(0, 3))})]}
            if fl and rng.random() < .6:
                fn, ft, _ = rng.choice(fl)
                ann['fields'] = {(fn, ft): [Annotation(1, 'Ljava/lang/Runnable;', {'v': (VALUE_INT, 3)})]}
            if ml and rng.random() < .6:
                m0 = rng.choice(ml)
                ann['methods'] = {m0: [Annotation(2, 'Ljava/lang/Enum;', []),
                                       Annotation(0, 'Ljava/lang/Object;', {'s': (VALUE_STRING, 'x')})]}
                if m0[2]:
                    ann['parameters'] = {m0: [[Annotation(1, 'Ljava/lang/String;', {})] if i % 2 == 0 else None
                                              for i in range(len(m0[2]))]}
        acc = rng.choice([0x1, 0x0, 0x11, 0x401, 0x601, 0x4011, 0x2601])
        explicit_sv = None
        if sfields and rng.random() < .1:
            explicit_sv = []       # present but empty encoded_array
        b.add_class(nm, sup, itf, acc, rng.choice([None, 'Foo.java', rnd_string(rng)]), sfields, ifields, dm, vm,
                    explicit_sv, ann)
    spec.builder = b
    spec.opts = dict(shared_handlers=rng.random() < .5, leb_pad=rng.choice([0, 0, 0, 1, 2]),
                     version=b'039' if v039 else rng.choice([b'035', b'035', b'037']))
    return spec


# ==========================================================================================
# independent mini reader
# ==========================================================================================

def u16(d, p):
    return struct.unpack_from('<H', d, p)[0]


def u32(d, p):
    return struct.unpack_from('<I', d, p)[0]


ITEM_ALIGN = {0x1000: 4, 0x1001: 4, 0x1002: 4, 0x1003: 4, 0x2001: 4, 0x2006: 4}


def mini_read(d):
    """Parse a DEX file with nothing but struct; returns a dict model.  Asserts structural
    constraints of the format on the way."""
    R = {}
    assert d[:4] == b'dex\n' and d[7] == 0 and d[4:7].isdigit(), 'magic'
    R['version'] = d[4:7]
    assert u32(d, 8) == zlib.adler32(d[12:]) & 0xFFFFFFFF, 'adler32'
    assert d[12:32] == hashlib.sha1(d[32:]).digest(), 'sha1'
    (file_size, header_size, endian, link_size, link_off, map_off, n_s, o_s, n_t, o_t, n_p, o_p, n_f, o_f,
     n_m, o_m, n_c, o_c, data_size, data_off) = struct.unpack_from('<20I', d, 32)
    assert file_size == len(d), 'file_size'
    assert header_size == 0x70 and endian == 0x12345678 and link_size == 0 and link_off == 0
    assert data_off + data_size == len(d) and data_off % 4 == 0 and data_size % 4 == 0, 'data section'
    assert data_off <= map_off < len(d) and map_off % 4 == 0
    for n, o in ((n_s, o_s), (n_t, o_t), (n_p, o_p), (n_f, o_f), (n_m, o_m), (n_c, o_c)):
        assert (o == 0) == (n == 0) and o % 4 == 0
    # index sections are contiguous after the header in the canonical order
    pos = 0x70
    for n, o, sz in ((n_s, o_s, 4), (n_t, o_t, 4), (n_p, o_p, 12), (n_f, o_f, 8), (n_m, o_m, 8), (n_c, o_c, 32)):
        if n:
            assert o == pos, 'index section position'
            pos += n * sz
    # map
    n_map = u32(d, map_off)
    assert map_off + 4 + 12 * n_map == len(d), 'map_list is the last item'
    mp = []
    for i in range(n_map):
        ty, unused, cnt, off = struct.unpack_from('<HHII', d, map_off + 4 + 12 * i)
        assert unused == 0 and cnt > 0
        mp.append((ty, cnt, off))
    R['map'] = mp
    bytype = {}
    for ty, cnt, off in mp:
        assert ty not in bytype, 'duplicate map type'
        assert ty in dexasm.MAP_TYPE_NAMES
        bytype[ty] = (cnt, off)
    assert bytype[0] == (1, 0) and bytype[0x1000] == (1, map_off)
    for ty, (n, o) in ((1, (n_s, o_s)), (2, (n_t, o_t)), (3, (n_p, o_p)), (4, (n_f, o_f)), (5, (n_m, o_m)),
                       (6, (n_c, o_c))):
        if n:
            assert bytype[ty] == (n, o), 'map vs header'
        else:
            assert ty not in bytype
    if 7 in bytype:
        assert bytype[7][1] == pos
        pos += 4 * bytype[7][0]
    if 8 in bytype:
        assert bytype[8][1] == pos
        pos += 8 * bytype[8][0]
    assert pos == data_off, 'data_off follows the index sections'
    for ty, (cnt, off) in bytype.items():
        if ty >= 0x1000:
            assert data_off <= off < len(d), 'data item inside data section'
            assert off % ITEM_ALIGN.get(ty, 1) == 0, 'alignment of section %x' % ty
    # strings
    strings = []
    sd_offs = []
    for i in range(n_s):
        p = u32(d, o_s + 4 * i)
        sd_offs.append(p)
        n16, p2 = rd_uleb(d, p)
        units, end = rd_mutf8(d, p2)
        assert len(units) == n16, 'utf16_size'
        strings.append(units)
    assert all(a < b for a, b in zip(strings, strings[1:])), 'string_ids sorted by UTF-16 code units, unique'
    if n_s:
        assert bytype[0x2002] == (n_s, min(sd_offs)), 'string_data map entry'
    R['strings'] = [units_to_str(u) for u in strings]
    S = R['strings']
    types_i = [u32(d, o_t + 4 * i) for i in range(n_t)]
    assert all(a < b for a, b in zip(types_i, types_i[1:])), 'type_ids sorted'
    T = R['types'] = [S[i] for i in types_i]

    def type_list(off):
        if off == 0:
            return ()
        assert off % 4 == 0
        n = u32(d, off)
        return tuple(T[u16(d, off + 4 + 2 * i)] for i in range(n))
    tl_offs = set()
    protos = []
    pkeys = []
    for i in range(n_p):
        sh, rt, po = struct.unpack_from('<III', d, o_p + 12 * i)
        if po:
            tl_offs.add(po)
            assert u32(d, po) > 0
        params = type_list(po)
        assert S[sh] == shorty(T[rt], params), 'shorty'
        protos.append((T[rt], params))
        pkeys.append((rt, [T.index(x) for x in params]))
    assert all(a < b for a, b in zip(pkeys, pkeys[1:])), 'proto_ids sorted'
    R['protos'] = protos
    fields, fkeys = [], []
    for i in range(n_f):
        c, t, n = struct.unpack_from('<HHI', d, o_f + 8 * i)
        fields.append((T[c], S[n], T[t]))
        fkeys.append((c, n, t))
    assert all(a < b for a, b in zip(fkeys, fkeys[1:])), 'field_ids sorted'
    R['fields'] = fields
    methods, mkeys = [], []
    for i in range(n_m):
        c, pr, n = struct.unpack_from('<HHI', d, o_m + 8 * i)
        methods.append((T[c], S[n]) + protos[pr])
        mkeys.append((c, n, pr))
    assert all(a < b for a, b in zip(mkeys, mkeys[1:])), 'method_ids sorted'
    R['methods'] = methods
    # method handles / call sites
    R['method_handles'] = []
    if 8 in bytype:
        cnt, off = bytype[8]
        for i in range(cnt):
            k, u1, idx, u2 = struct.unpack_from('<HHHH', d, off + 8 * i)
            assert u1 == 0 and u2 == 0
            R['method_handles'].append((k, idx))
    R['call_sites'] = []
    ea_offs = set()
    if 7 in bytype:
        cnt, off = bytype[7]
        prev = 0
        for i in range(cnt):
            o = u32(d, off + 4 * i)
            assert o > prev
            prev = o
            ea_offs.add(o)
            R['call_sites'].append(rd_array(d, o)[0])
    # classes
    classes = []
    code_offs = set()
    cd_offs = set()
    dbg_offs = set()
    ad_offs = set()
    seen_cls = set()
    for i in range(n_c):
        (ci, acc, sup, itf_off, src, ann_off, cd_off, sv_off) = struct.unpack_from('<8I', d, o_c + 32 * i)
        C = {'name': T[ci], 'access': acc, 'super': None if sup == NO_INDEX else T[sup],
             'source': None if src == NO_INDEX else S[src]}
        if itf_off:
            tl_offs.add(itf_off)
            assert u32(d, itf_off) > 0
        C['interfaces'] = type_list(itf_off)
        for dep in ([C['super']] if C['super'] else []) + list(C['interfaces']):
            R.setdefault('deps', []).append((C['name'], dep, set(seen_cls)))
        seen_cls.add(C['name'])
        C['sfields'], C['ifields'], C['dmethods'], C['vmethods'] = [], [], [], []
        if cd_off:
            cd_offs.add(cd_off)
            p = cd_off
            sizes = []
            for _ in range(4):
                v, p = rd_uleb(d, p)
                sizes.append(v)
            assert sum(sizes) > 0
            for key, cnt in zip(('sfields', 'ifields'), sizes[:2]):
                idx = 0
                for k in range(cnt):
                    diff, p = rd_uleb(d, p)
                    a, p = rd_uleb(d, p)
                    assert k == 0 or diff > 0, 'field idx strictly increasing'
                    idx += diff
                    assert fields[idx][0] == C['name'], 'field belongs to class'
                    C[key].append((fields[idx], a))
            for key, cnt in zip(('dmethods', 'vmethods'), sizes[2:]):
                idx = 0
                for k in range(cnt):
                    diff, p = rd_uleb(d, p)
                    a, p = rd_uleb(d, p)
                    co, p = rd_uleb(d, p)
                    assert k == 0 or diff > 0, 'method idx strictly increasing'
                    idx += diff
                    assert methods[idx][0] == C['name']
                    code = None
                    if co:
                        assert co % 4 == 0, 'code_item alignment'
                        code_offs.add(co)
                        regs, insz, outs, ntries, dbg, nins = struct.unpack_from('<HHHHII', d, co)
                        q = co + 16
                        insns = d[q:q + 2 * nins]
                        q += 2 * nins
                        tries = []
                        if ntries:
                            if nins & 1:
                                assert d[q:q + 2] == b'\0\0', 'padding'
                                q += 2
                            assert q % 4 == 0
                            hl = q + 8 * ntries
                            nh, hp = rd_uleb(d, hl)
                            handlers = {}
                            for _ in range(nh):
                                ho = hp - hl
                                sz, hp = rd_sleb(d, hp)
                                typed = []
                                for _ in range(abs(sz)):
                                    ti, hp = rd_uleb(d, hp)
                                    ad, hp = rd_uleb(d, hp)
                                    typed.append((T[ti], ad))
                                ca = None
                                if sz <= 0:
                                    ca, hp = rd_uleb(d, hp)
                                handlers[ho] = (typed, ca)
                            used = set()
                            for k2 in range(ntries):
                                st, cn, ho = struct.unpack_from('<IHH', d, q + 8 * k2)
                                assert ho in handlers, 'handler_off points at a handler'
                                used.add(ho)
                                tries.append((st, cn, handlers[ho][0], handlers[ho][1]))
                            assert used == set(handlers), 'no unused handlers'
                            code_end = hp
                            nhandlers = nh
                        else:
                            code_end = q
                            nhandlers = 0
                        if dbg:
                            dbg_offs.add(dbg)
                        code = {'regs': regs, 'ins': insz, 'outs': outs, 'insns': insns, 'tries': tries,
                                'nhandlers': nhandlers, 'debug': dbg, 'end': code_end, 'off': co}
                    C[key].append((methods[idx], a, code))
        C['static_values'] = None
        if sv_off:
            ea_offs.add(sv_off)
            C['static_values'] = rd_array(d, sv_off)[0]
        C['ann_off'] = ann_off
        if ann_off:
            assert ann_off % 4 == 0
            ad_offs.add(ann_off)
            C['annotations'] = read_ann_dir(d, ann_off, R)
        classes.append(C)
    R['classes'] = classes
    # map counts for data items
    def cnt(ty):
        return bytype.get(ty, (0, 0))[0]
    assert cnt(0x1001) == len(tl_offs), 'type_list count %d vs %d' % (cnt(0x1001), len(tl_offs))
    assert cnt(0x2000) == len(cd_offs), 'class_data count'
    assert cnt(0x2001) == len(code_offs), 'code_item count'
    assert cnt(0x2003) == len(dbg_offs), 'debug_info count'
    assert cnt(0x2005) == len(ea_offs), 'encoded_array count'
    assert cnt(0x2006) == len(ad_offs), 'annotations_directory count'
    for ty, offs in ((0x1001, tl_offs), (0x2000, cd_offs), (0x2001, code_offs), (0x2003, dbg_offs),
                     (0x2005, ea_offs), (0x2006, ad_offs)):
        if offs:
            assert bytype[ty][1] == min(offs), 'first item of section %x' % ty
    # code items are contiguous (each starts at the 4-aligned end of the previous one)
    if code_offs:
        ends = {}
        for C in classes:
            for key in ('dmethods', 'vmethods'):
                for _, _, code in C[key]:
                    if code:
                        ends[code['off']] = code['end']
        so = sorted(ends)
        for a, nxt in zip(so, so[1:]):
            assert (ends[a] + 3) & ~3 == nxt, 'code items contiguous'
    R['sizes'] = dict(file_size=file_size, map_off=map_off, data_off=data_off, data_size=data_size)
    return R


def read_ann_set(d, off, R):
    assert off % 4 == 0
    n = u32(d, off)
    out = []
    for i in range(n):
        io = u32(d, off + 4 + 4 * i)
        vis = d[io]
        an, _ = rd_annotation(d, io + 1)
        R.setdefault('ann_items', set()).add(io)
        out.append((vis, an))
    tis = [a[1][0] for a in out]
    assert tis == sorted(tis), 'annotation_set sorted by type_idx'
    R.setdefault('ann_sets', set()).add(off)
    return out


def read_ann_dir(d, off, R):
    cls_off, nf, nm, npar = struct.unpack_from('<IIII', d, off)
    A = {'class': read_ann_set(d, cls_off, R) if cls_off else None, 'fields': {}, 'methods': {}, 'parameters': {}}
    p = off + 16
    prev = -1
    for _ in range(nf):
        i, o = struct.unpack_from('<II', d, p)
        p += 8
        assert i > prev
        prev = i
        A['fields'][i] = read_ann_set(d, o, R)
    prev = -1
    for _ in range(nm):
        i, o = struct.unpack_from('<II', d, p)
        p += 8
        assert i > prev
        prev = i
        A['methods'][i] = read_ann_set(d, o, R)
    prev = -1
    for _ in range(npar):
        i, o = struct.unpack_from('<II', d, p)
        p += 8
        assert i > prev
        prev = i
        assert o % 4 == 0
        n = u32(d, o)
        A['parameters'][i] = [read_ann_set(d, u32(d, o + 4 + 4 * k), R) if u32(d, o + 4 + 4 * k) else None
                              for k in range(n)]
        R.setdefault('ann_reflists', set()).add(o)
    return A


# ==========================================================================================
# expected model from the builder
# ==========================================================================================

def float_bits(vt, v):
    if isinstance(v, float):
        return int.from_bytes(struct.pack('<f' if vt == VALUE_FLOAT else '<d', v), 'little')
    return v


def expect_value(b, item):
    """EncodedValue-like (symbolic) -> the (vt, numeric value) the mini reader must decode"""
    vt = item[0]
    v = item[1] if len(item) > 1 else None
    if vt in (VALUE_FLOAT, VALUE_DOUBLE):
        return (vt, float_bits(vt, v))
    if vt == VALUE_CHAR and isinstance(v, str):
        return (vt, ord(v))
    if vt == VALUE_STRING:
        return (vt, b.string_idx(v))
    if vt == VALUE_TYPE:
        return (vt, b.type_idx(v))
    if vt in (VALUE_FIELD, VALUE_ENUM):
        return (vt, b.field_idx(*v))
    if vt == VALUE_METHOD:
        return (vt, b.method_idx(*v))
    if vt == VALUE_METHOD_TYPE:
        return (vt, b.proto_idx(*v))
    if vt == VALUE_ARRAY:
        return (vt, [expect_value(b, x) for x in v])
    if vt == VALUE_ANNOTATION:
        return (vt, expect_annotation(b, v[0], v[1]))
    if vt == VALUE_NULL:
        return (vt, None)
    return (vt, v)


def expect_annotation(b, t, elems):
    if isinstance(elems, dict):
        elems = list(elems.items())
    return (b.type_idx(t), sorted((b.string_idx(k), expect_value(b, v)) for k, v in elems))


def strip_w(v):
    """drop widths from a mini-reader value"""
    vt, val, _w = v
    if vt == VALUE_ARRAY:
        return (vt, [strip_w(x) for x in val])
    if vt == VALUE_ANNOTATION:
        return (vt, (val[0], [(k, strip_w(x)) for k, x in val[1]]))
    return (vt, val)


def expected_model(b):
    E = {'strings': list(b.strings), 'types': list(b.types), 'protos': list(b.protos), 'fields': list(b.fields),
         'methods': list(b.methods), 'classes': []}
    for c in b.class_order:
        def fkey(f):
            return b.field_idx(c.name, f.name, f.type)

        def mkey(m):
            return b.method_idx(c.name, m.name, m.ret, m.params)

        def meth(m):
            ref = (c.name, m.name, m.ret, m.params)
            code = None
            if m.code is not None:
                tr = [(t.start_units, t.count_units,
                       [(b.types[ty] if isinstance(ty, int) else ty, ad) for ty, ad in t.handlers], t.catch_all)
                      for t in b.code_tries[ref]]
                code = {'regs': m.code.registers, 'ins': m.code.ins, 'outs': m.code.outs,
                        'insns': b.code_bytes[ref], 'tries': tr}
            return (ref, m.access, code)
        sv = b.static_values_for(c)
        E['classes'].append({
            'name': c.name, 'access': c.access, 'super': c.superclass, 'interfaces': tuple(c.interfaces),
            'source': None if c.source_file is None else norm_str(c.source_file),
            'sfields': [((c.name, f.name, f.type), f.access) for f in sorted(c.static_fields, key=fkey)],
            'ifields': [((c.name, f.name, f.type), f.access) for f in sorted(c.instance_fields, key=fkey)],
            'dmethods': [meth(m) for m in sorted(c.direct_methods, key=mkey)],
            'vmethods': [meth(m) for m in sorted(c.virtual_methods, key=mkey)],
            'static_values': None if sv is None else [expect_value(b, v) for v in sv],
        })
    return E


def compare_mini(spec, data, R):
    b = spec.builder
    E = expected_model(b)
    for k in ('strings', 'types', 'protos', 'fields', 'methods'):
        check(R[k] == E[k], 'mini: pool ' + k, lambda: (R[k], E[k]))
    check(R['version'] == spec.opts['version'], 'mini: version')
    check(len(R['classes']) == len(E['classes']), 'mini: class count')
    for rc, ec in zip(R['classes'], E['classes']):
        for k in ('name', 'access', 'super', 'interfaces', 'source', 'sfields', 'ifields'):
            check(rc[k] == ec[k], 'mini: class ' + k, lambda: (rc[k], ec[k]))
        for k in ('dmethods', 'vmethods'):
            check(len(rc[k]) == len(ec[k]), 'mini: method count')
            for (rr, ra, rcode), (er, ea, ecode) in zip(rc[k], ec[k]):
                check(rr == er and ra == ea, 'mini: method ref/access', (rr, er, ra, ea))
                check((rcode is None) == (ecode is None), 'mini: code presence', er)
                if rcode and ecode:
                    for kk in ('regs', 'ins', 'outs', 'insns', 'tries'):
                        check(rcode[kk] == ecode[kk], 'mini: code ' + kk, lambda: (er, rcode[kk], ecode[kk]))
                    # handler sharing
                    distinct = len(set((tuple(t[2]), t[3]) for t in ecode['tries']))
                    want = distinct if spec.opts['shared_handlers'] else len(ecode['tries'])
                    check(rcode['nhandlers'] == want, 'mini: handler list size', (rcode['nhandlers'], want))
                    check(b.layout['code'][er] == rcode['off'], 'mini: layout code off')
                    check(data[b.layout['insns'][er]:][:len(ecode['insns'])] == ecode['insns'], 'mini: layout insns')
                    body = spec.bodies[er].get(b)
                    sw = list(sweep(ecode['insns']))
                    check(b''.join(x[4] for x in sw) == ecode['insns'], 'sweep covers the code')
                    st = [x[0] for x in sw if x[2] != 'payload']
                    # generated instruction starts (labels + END) are exactly the non-payload
                    # instruction starts, apart from alignment nops in front of payloads
                    check(set(body[2]) <= set(st), 'sweep instruction starts', (body[2], st))
                    for a, nm, fmt, f, rw in sw:
                        if fmt != 'payload':
                            u = struct.unpack('<%dH' % (len(rw) // 2), rw)
                            check(decode_fields(fmt, u) == (rw[0], f), 'decode_format vs selftest decoder', (nm, rw.hex()))
                    check((rcode['debug'] != 0) == (b.code_debug[er] is not None), 'mini: debug presence')
                    if rcode['debug']:
                        check(data[rcode['debug']:].startswith(b.code_debug[er]), 'mini: debug bytes')
        got = None if rc['static_values'] is None else [strip_w(v) for v in rc['static_values']]
        check(got == ec['static_values'], 'mini: static values', lambda: (rc['name'], got, ec['static_values']))
    # superclass / interfaces defined in the file come first
    defined = set(c['name'] for c in R['classes'])
    for name, dep, before in R.get('deps', []):
        if dep in defined and dep != name:
            check(dep in before, 'mini: class_defs order', (name, dep))
    # annotations
    for c, rc in zip(b.class_order, R['classes']):
        check(bool(rc['ann_off']) == bool(c.annotations), 'mini: annotations presence')
        if c.annotations:
            A = rc['annotations']
            a = c.annotations

            def exp_set(lst):
                return sorted(((an.visibility, expect_annotation(b, an.type, an.elements)) for an in lst),
                              key=lambda x: x[1][0])

            def got_set(st):
                return [(vis, (t, [(k, strip_w(v)) for k, v in el])) for vis, (t, el) in st]
            check((A['class'] is not None) == bool(a.get('class')), 'mini: class annotations presence')
            if a.get('class'):
                check(got_set(A['class']) == exp_set(a['class']), 'mini: class annotations',
                      lambda: (got_set(A['class']), exp_set(a['class'])))
            ef = {b.field_idx(c.name, k[0], k[1]): exp_set(v) for k, v in a.get('fields', {}).items()}
            check({k: got_set(v) for k, v in A['fields'].items()} == ef, 'mini: field annotations')
            em = {b.method_idx(c.name, *k): exp_set(v) for k, v in a.get('methods', {}).items()}
            check({k: got_set(v) for k, v in A['methods'].items()} == em, 'mini: method annotations')
            ep = {b.method_idx(c.name, *k): [exp_set(x) if x else None for x in v]
                  for k, v in a.get('parameters', {}).items()}
            check({k: [got_set(x) if x is not None else None for x in v] for k, v in A['parameters'].items()} == ep,
                  'mini: parameter annotations')
    # method handles / call sites
    eh = []
    for kind, ref in b.extra_method_handles:
        eh.append((kind, b.field_idx(*ref) if len(ref) == 3 else b.method_idx(*ref)))
    check(R['method_handles'] == eh, 'mini: method handles', (R['method_handles'], eh))
    ecs = [[expect_value(b, v) for v in cs] for cs in b.extra_call_sites]
    check([[strip_w(v) for v in cs] for cs in R['call_sites']] == ecs, 'mini: call sites')
    # layout
    L = b.layout
    check(L['file_size'] == len(data) and L['map_list'] == R['sizes']['map_off']
          and L['data_off'] == R['sizes']['data_off'], 'mini: layout sizes')
    for i, o in enumerate(L['string_data']):
        n16, p = rd_uleb(data, o)
        check(units_to_str(rd_mutf8(data, p)[0]) == b.strings[i], 'mini: layout string_data')
    check(b.map_items == R['map'], 'mini: map_items')
    check([o for _, _, o in R['map']] == sorted(o for _, _, o in R['map']), 'mini: map sorted by offset')
    # leb_pad really pads
    if spec.opts['leb_pad'] and b.strings:
        o = L['string_data'][0]
        n16, p = rd_uleb(data, o)
        check(p - o == len(uleb128(n16)) + spec.opts['leb_pad'], 'mini: leb_pad applied', (p - o))


# ==========================================================================================
# androguard side
# ==========================================================================================

def ag_compare(spec, data):
    from androguard.core.dex import DEX
    from androguard.core.analysis.analysis import Analysis
    b = spec.builder
    E = expected_model(b)
    try:
        d = DEX(data)
    except Exception as e:   # noqa
        fail('androguard: DEX() raised', '%s: %s' % (type(e).__name__, e))
        return
    # strings
    ags = d.get_strings()
    check(len(ags) == len(E['strings']), 'androguard: string count', (len(ags), len(E['strings'])))
    for a, e in zip(ags, E['strings']):
        try:
            same = utf16_units(a) == utf16_units(e)
        except Exception:
            same = False
        if not same:
            u = utf16_units(e)
            lone = any(0xD800 <= x <= 0xDFFF for x in utf16_units(norm_str(e)) if True) and \
                any(0xD800 <= ord(ch) <= 0xDFFF for ch in norm_str(e))
            if lone:
                known('androguard-string-lone-surrogate', (e.encode('utf-16-le', 'surrogatepass').hex(), repr(a)))
            else:
                fail('androguard: string differs', (repr(a), repr(e), u))
    classes = d.get_classes()
    check(len(classes) == len(E['classes']), 'androguard: class count')
    for ac, ec in zip(classes, E['classes']):
        check(norm_str(ac.get_name()) == ec['name'], 'androguard: class name', (ac.get_name(), ec['name']))
        check(ac.get_access_flags() == ec['access'], 'androguard: class access')
        if ec['super'] is not None:
            check(norm_str(ac.get_superclassname()) == ec['super'], 'androguard: superclass',
                  (ac.get_superclassname(), ec['super']))
        check([norm_str(x) for x in ac.get_interfaces()] == list(ec['interfaces']), 'androguard: interfaces',
              (ac.get_interfaces(), ec['interfaces']))
        cdi = ac.class_data_item
        if cdi is None:
            check(not (ec['sfields'] or ec['ifields'] or ec['dmethods'] or ec['vmethods']),
                  'androguard: class data missing')
            continue
        for key, lst in (('sfields', cdi.static_fields), ('ifields', cdi.instance_fields)):
            got = [((norm_str(f.get_class_name()), norm_str(f.get_name()), norm_str(f.get_descriptor())),
                    f.get_access_flags()) for f in lst]
            check(got == ec[key], 'androguard: ' + key, lambda: (got, ec[key]))
        for key, lst in (('dmethods', cdi.direct_methods), ('vmethods', cdi.virtual_methods)):
            check(len(lst) == len(ec[key]), 'androguard: method count')
            for am, (er, ea, ecode) in zip(lst, ec[key]):
                desc = '(' + ''.join(er[3]) + ')' + er[2]
                got = (norm_str(am.get_class_name()), norm_str(am.get_name()),
                       norm_str(am.get_descriptor()).replace(' ', ''), am.get_access_flags())
                check(got == (er[0], er[1], desc, ea), 'androguard: method', (got, er, ea))
                code = am.get_code()
                check((code is None) == (ecode is None), 'androguard: code presence', er)
                if code is None or ecode is None:
                    continue
                check((code.get_registers_size(), code.get_ins_size(), code.get_outs_size())
                      == (ecode['regs'], ecode['ins'], ecode['outs']), 'androguard: code sizes')
                check(bytes(code.get_bc().get_insn()) == ecode['insns'], 'androguard: insns bytes', er)
                # linear sweep must reproduce the bytes
                try:
                    ag_ins = list(code.get_bc().get_instructions())
                    raw = b''.join(bytes(i.get_raw()) for i in ag_ins)
                    if raw != ecode['insns']:
                        fail('androguard: instructions re-encode differently', (er, raw.hex(), ecode['insns'].hex()))
                    mine = list(sweep(ecode['insns']))
                    got = [(i.get_name(), i.get_length()) for i in ag_ins]
                    want = [(nm, len(rw)) for _, nm, _, _, rw in mine]
                    check(got == want, 'androguard: mnemonics/lengths vs sweep', lambda: (er, got, want))
                except Exception as e:  # noqa
                    if spec.bodies[er].get(b)[3]:
                        known('androguard-const-method-type-nonzero-register', (er[1], ecode['insns'].hex()))
                    else:
                        fail('androguard: get_instructions raised', '%s %s: %s %s' % (
                            er, type(e).__name__, e, ecode['insns'].hex()))
                tries = code.get_tries()
                check(len(tries) == len(ecode['tries']), 'androguard: tries count')
                hl = code.get_handlers()
                if tries:
                    by_off = {}
                    for h in hl.get_list():
                        by_off[h.get_off() - hl.get_off()] = h
                    for t, (st, cn, typed, ca) in zip(tries, ecode['tries']):
                        check((t.get_start_addr(), t.get_insn_count()) == (st, cn), 'androguard: try range')
                        h = by_off.get(t.get_handler_off())
                        if not check(h is not None, 'androguard: handler_off resolves',
                                     (t.get_handler_off(), sorted(by_off))):
                            continue
                        got = [(b.types[p.get_type_idx()], p.get_addr()) for p in h.get_handlers()]
                        gca = h.get_catch_all_addr() if h.get_size() <= 0 else None
                        check(got == typed and gca == ca, 'androguard: handlers', (got, typed, gca, ca))
        # static values through the fields
        if ec['static_values'] is not None:
            for f, ev in zip(cdi.static_fields, ec['static_values']):
                iv = f.get_init_value()
                if not check(iv is not None, 'androguard: init value missing', (ec['name'], ev)):
                    continue
                ag_value_check(iv, ev, b)
    # Analysis
    try:
        dx = Analysis(d)
        dx.create_xref()
        nm = sum(1 for _ in dx.get_methods())
        ncode = sum(1 for c in E['classes'] for k in ('dmethods', 'vmethods') for m in c[k])
        check(nm >= ncode, 'androguard: analysis method count', (nm, ncode))
    except Exception as e:  # noqa
        import traceback
        if any(m.get(b)[3] for m in spec.bodies.values()):
            known('androguard-const-method-type-nonzero-register', 'Analysis: %s' % type(e).__name__)
        else:
            fail('androguard: Analysis/create_xref raised', traceback.format_exc()[-900:])


def ag_value_check(iv, ev, b):
    vt, v = ev
    check(iv.get_value_type() == vt, 'androguard: value type', (iv.get_value_type(), vt))
    got = iv.get_value()
    if vt in (VALUE_BYTE, VALUE_SHORT, VALUE_INT, VALUE_LONG, VALUE_CHAR, VALUE_BOOLEAN):
        n = iv.get_value_arg() + 1
        if got != v and vt != VALUE_BOOLEAN and v < 0 and got == v & ((1 << (8 * n)) - 1):
            # spec: BYTE/SHORT/INT/LONG are sign-extended; androguard zero-extends
            known('androguard-encoded-value-no-sign-extension', (VALUE_NAMES[vt], 'spec', v, 'androguard', got))
        else:
            check(got == v, 'androguard: value', (VALUE_NAMES[vt], got, v))
    elif vt in (VALUE_FLOAT, VALUE_DOUBLE):
        full = 4 if vt == VALUE_FLOAT else 8
        f = struct.unpack('<f' if vt == VALUE_FLOAT else '<d', v.to_bytes(full, 'little'))[0]
        ok = (got == f and type(got) is float) or (got != got and f != f)
        n = iv.get_value_arg() + 1
        if not ok and type(got) is int and got == v >> (8 * (full - n)):
            # spec: IEEE754 bit pattern zero-extended to the right; androguard returns the stored
            # bytes as a little-endian integer
            known('androguard-encoded-value-float-not-decoded', (VALUE_NAMES[vt], 'spec', f, 'androguard', got))
        else:
            check(ok, 'androguard: float value', (VALUE_NAMES[vt], got, f, hex(v)))
    elif vt == VALUE_NULL:
        check(got is None, 'androguard: null value', got)
    elif vt == VALUE_STRING:
        e = b.strings[v]
        if isinstance(got, str) and utf16_units(got) == utf16_units(e):
            return
        if any(0xD800 <= ord(ch) <= 0xDFFF for ch in e):
            known('androguard-string-lone-surrogate', (e.encode('utf-16-le', 'surrogatepass').hex(), repr(got)))
        else:
            check(False, 'androguard: string value', (got, e))


def handmade_checks():
    # empty file
    b = DexBuilder()
    data = b.build()
    R = mini_read(data)
    check(len(data) == 0x70 + 4 + 2 * 12 and R['classes'] == [] and R['strings'] == [], 'empty file', len(data))
    ag_compare_light(data)
    # symbolic item-list code with label tries
    b = DexBuilder()
    out = FieldRef('Ljava/lang/System;', 'out', 'Ljava/io/PrintStream;')
    println = MethodRef('Ljava/io/PrintStream;', 'println', 'V', ('Ljava/lang/String;',))
    b.add_class('LHello;', direct_methods=[Method('main', 'V', ('[Ljava/lang/String;',), 0x9, Code(3, 1, 2, [
        'try_start:',
        ('sget-object', 0, out),
        ('const-string', 1, StringRef('Hello, w\u00f6rld \U0001F600')),
        ('invoke-virtual', (0, 1), println),
        'try_end:',
        ('return-void',),
        'handler:',
        ('move-exception', 2),
        ('new-instance', 0, TypeRef('Ljava/lang/RuntimeException;')),
        ('throw', 2),
    ], tries=[Try('try_start', 'try_end', [('Ljava/lang/Exception;', 'handler')], 'handler')]))])
    data = b.build()
    ref = ('LHello;', 'main', 'V', ('[Ljava/lang/String;',))
    check(b.code_labels[ref] == {'try_start': 0, 'try_end': 7, 'handler': 8}, 'item-list labels', dict(b.code_labels[ref]))
    check(b.code_tries[ref] == [Try(0, 7, [('Ljava/lang/Exception;', 8)], 8)], 'label tries', b.code_tries[ref])
    exp = (ins('sget-object', 0, b.field_idx(*out.key)) + ins('const-string', 1, b.string_idx('Hello, w\u00f6rld \U0001F600'))
           + ins('invoke-virtual', (0, 1), b.method_idx(*println.key)) + ins('return-void') + ins('move-exception', 2)
           + ins('new-instance', 0, b.type_idx('Ljava/lang/RuntimeException;')) + ins('throw', 2))
    check(b.code_bytes[ref] == exp, 'item-list code bytes')
    R = mini_read(data)
    m = R['classes'][0]['dmethods'][0]
    check(m[2]['insns'] == exp and m[2]['tries'] == [(0, 7, [('Ljava/lang/Exception;', 8)], 8)], 'item-list via mini reader')
    from androguard.core.dex import DEX
    from androguard.core.analysis.analysis import Analysis
    d = DEX(data)
    dx = Analysis(d)
    dx.create_xref()
    em = list(d.get_classes()[0].get_methods())[0]
    txt = [(i.get_name(), i.get_output()) for i in em.get_instructions()]
    check(txt[1][0] == 'const-string' and 'Hello, w\u00f6rld \U0001F600' in txt[1][1], 'androguard shows the string', txt[1])
    check('Ljava/io/PrintStream;->println(Ljava/lang/String;)V' in txt[2][1], 'androguard shows the method', txt[2])
    ma = dx.get_method_analysis(em)
    check(any(str(m2.get_method().get_name()) == 'println' for _, m2, _ in ma.get_xref_to()), 'androguard xref_to println')
    # class_defs ordering: subclass added first
    b = DexBuilder()
    b.add_class('LB;', superclass='LA;', interfaces=('LI;',))
    b.add_class('LI;', access=0x601)
    b.add_class('LA;')
    b.build()
    check([c.name for c in b.class_order] == ['LI;', 'LA;', 'LB;'] or [c.name for c in b.class_order] == ['LA;', 'LI;', 'LB;'],
          'class_defs order', [c.name for c in b.class_order])
    # string sort order is by UTF-16 code units, not code points
    b = DexBuilder()
    b.extra_strings += ['\U00010000', '\uffff', '\ue000', 'a', '', '\x00', '\ud800']
    b.freeze()
    check(b.strings == ['', '\x00', 'a', '\ud800', '\U00010000', '\ue000', '\uffff'], 'UTF-16 sort order', b.strings)


# ==========================================================================================

def main(argv):
    t0 = time.time()
    seed = int(argv[1]) if len(argv) > 1 else 20260921
    count = int(argv[2]) if len(argv) > 2 else 40
    try:
        from loguru import logger
        logger.remove()
    except Exception:
        pass
    rng = random.Random(seed)
    n = unit_checks(rng)
    try:
        handmade_checks()
    except Exception:
        import traceback
        fail('handmade checks raised', traceback.format_exc()[-900:])
    print('unit checks: %d random cases, %d failures, %.1fs' % (n, len(FAILS), time.time() - t0))
    stats = {'files': 0, 'classes': 0, 'methods': 0, 'code': 0, 'tries': 0, 'bytes': 0, 'strings': 0,
             'static_values': 0, 'annotated': 0, 'v039': 0}
    for i in range(count):
        spec = gen_file(random.Random(rng.getrandbits(64)), i)
        b = spec.builder
        try:
            data = b.build(**spec.opts)
        except Exception:
            import traceback
            fail('build raised', traceback.format_exc()[-900:])
            continue
        h = parse_header(data)
        check(h['checksum_ok'] and h['signature_ok'] and h['file_size'] == len(data) and h['header_size'] == 0x70
              and h['map_off'] == b.layout['map_list'], 'parse_header', h)
        check(fix_checksum(data) == data, 'fix_checksum is idempotent on build output')
        broken = bytearray(data)
        broken[8:32] = bytes(24)
        check(fix_checksum(bytes(broken)) == data, 'fix_checksum restores checksum and signature')
        check(b.build(**spec.opts) == data, 'build is deterministic')
        try:
            R = mini_read(data)
        except AssertionError as e:
            import traceback
            fail('mini reader: structural assertion', traceback.format_exc()[-700:])
            continue
        compare_mini(spec, data, R)
        # non-default map order: same file apart from the map (and checksums)
        rev = b.build(map_order=lambda es: list(reversed(es)), **spec.opts)
        mo = b.layout['map_list']
        check(rev[32:mo + 4] == data[32:mo + 4] and len(rev) == len(data), 'map_order only permutes the map')
        check(sorted(b.map_items) == sorted(R['map']) and b.map_items == list(reversed(R['map'])), 'map_order reversed')
        ag_compare(spec, data)
        ag_compare_light(rev)
        stats['files'] += 1
        stats['classes'] += len(b.classes)
        stats['methods'] += sum(len(c.direct_methods) + len(c.virtual_methods) for c in b.classes)
        stats['code'] += len(b.code_bytes)
        stats['tries'] += sum(len(t) for t in b.code_tries.values())
        stats['bytes'] += len(data)
        stats['strings'] += len(b.strings)
        stats['static_values'] += sum(len(b.static_values_for(c) or ()) for c in b.classes)
        stats['annotated'] += sum(1 for c in b.classes if c.annotations)
        stats['v039'] += spec.v039
    print('files:', stats)
    for k, (cnt, ex) in sorted(KNOWN.items()):
        print('KNOWN androguard disagreement %s: %d occurrence(s), e.g. %r' % (k, cnt, ex))
    print('%d failure(s), %.1fs' % (len(FAILS), time.time() - t0))
    if FAILS:
        from collections import Counter
        for k, v in Counter(w for w, _ in FAILS).most_common():
            print('  %4d  %s' % (v, k))
    return 1 if FAILS else 0


def ag_compare_light(data):
    """androguard must also accept a file whose map is not sorted by offset (it sorts the map
    itself); only class names are compared."""
    from androguard.core.dex import DEX
    try:
        d = DEX(data)
        [c.get_name() for c in d.get_classes()]
    except Exception as e:  # noqa
        fail('androguard: DEX() raised on reversed map', '%s: %s' % (type(e).__name__, e))


if __name__ == '__main__':
    sys.exit(main(sys.argv))
