"""
Independent generator and verifier of v1 (JAR) signed APKs for C32.  Shares no code with androguard.

  make_keys()                       RSA-2048 / EC P-256 / DSA-2048 / Ed25519 key material (once per run: slow, NOT seeded)
  make_cert(...)                    X.509 certificate (cryptography's builder)
  p7_der / signer_der               PKCS#7 SignedData written with an own DER writer (asn1crypto only dumps INTEGER/OCTET STRING/OID values)
  build_apk(...)                    AndroidManifest.xml (harness/axmlwriter) + META-INF/* -> zip (harness/zipwriter)
  locate(p7)                        offsets of sid / signed attrs / signature inside the DER (own TLV walker)
  oracle_verify(apk, name)          independent v1 verification of one signature block straight from the archive bytes:
                                    zipfile + own TLV walker + cryptography (never asn1crypto, never androguard)
  canon_name(...)                   X.500 canonical comparison form of the names this generator emits

Abstract description (what the Lean model gets) is derived from the *spec* the file was built from, never by parsing it back.
"""
from __future__ import annotations

import hashlib
import io
import unicodedata
import zipfile

from asn1crypto import core
from cryptography import x509 as cx509
from cryptography.hazmat.primitives import hashes, serialization
from cryptography.hazmat.primitives.asymmetric import dsa, ec, ed25519, padding, rsa
from cryptography.x509.oid import NameOID
import datetime

from harness import axmlwriter as AX
from harness import zipwriter

HASHES = {"md5": hashes.MD5, "sha1": hashes.SHA1, "sha224": hashes.SHA224, "sha256": hashes.SHA256,
          "sha384": hashes.SHA384, "sha512": hashes.SHA512}
OID_CT = "1.2.840.113549.1.9.3"
OID_MD = "1.2.840.113549.1.9.4"
OID_ST = "1.2.840.113549.1.9.5"           # signingTime
NAME_OIDS = {"cn": ("2.5.4.3", NameOID.COMMON_NAME), "o": ("2.5.4.10", NameOID.ORGANIZATION_NAME),
             "ou": ("2.5.4.11", NameOID.ORGANIZATIONAL_UNIT_NAME), "c": ("2.5.4.6", NameOID.COUNTRY_NAME),
             "l": ("2.5.4.7", NameOID.LOCALITY_NAME)}
CONTENT_TYPES = {"data": "1.2.840.113549.1.7.1", "signed_data": "1.2.840.113549.1.7.2",
                 "enveloped_data": "1.2.840.113549.1.7.3"}


# ------------------------------------------------------------------------------------------------ keys
def make_keys():
    """key material, generated once per run and reused (the seed governs structure only)"""
    ks = {}
    for i in range(3):
        ks[f"rsa{i}"] = rsa.generate_private_key(65537, 2048)
        ks[f"ec{i}"] = ec.generate_private_key(ec.SECP256R1())
    params = dsa.generate_parameters(2048)
    for i in range(3):
        ks[f"dsa{i}"] = params.generate_private_key()
    ks["ed0"] = ed25519.Ed25519PrivateKey.generate()
    return ks


def dump_keys(ks):
    return {k: v.private_bytes(serialization.Encoding.DER, serialization.PrivateFormat.PKCS8,
                               serialization.NoEncryption()) for k, v in ks.items()}


def load_keys(d):
    return {k: serialization.load_der_private_key(v, None) for k, v in d.items()}


def key_kind(kid):
    return kid.rstrip("0123456789")


def spki(priv) -> bytes:
    return priv.public_key().public_bytes(serialization.Encoding.DER, serialization.PublicFormat.SubjectPublicKeyInfo)


def sign(priv, msg: bytes, alg: str) -> bytes:
    h = HASHES[alg]()
    if isinstance(priv, rsa.RSAPrivateKey):
        return priv.sign(msg, padding.PKCS1v15(), h)
    if isinstance(priv, dsa.DSAPrivateKey):
        return priv.sign(msg, h)
    if isinstance(priv, ec.EllipticCurvePrivateKey):
        return priv.sign(msg, ec.ECDSA(h))
    return priv.sign(msg)                                    # ed25519


def mro_of(e) -> list:
    return [c.__name__ for c in type(e).__mro__]


def verify_table_entry(pub_der: bytes, sig: bytes, msg: bytes, cls: str):
    """ground truth of `load_der_public_key` + `verify` computed directly with cryptography:
    'ok' or the MRO of the exception.  Android's v1 scheme knows RSA (PKCS#1 v1.5), DSA and ECDSA keys only."""
    try:
        pub = serialization.load_der_public_key(pub_der)
        h = getattr(hashes, cls)()
        if isinstance(pub, rsa.RSAPublicKey):
            pub.verify(sig, msg, padding.PKCS1v15(), h)
        elif isinstance(pub, dsa.DSAPublicKey):
            pub.verify(sig, msg, h)
        elif isinstance(pub, ec.EllipticCurvePublicKey):
            pub.verify(sig, msg, ec.ECDSA(h))
        else:
            return mro_of(ValueError("unsupported key algorithm"))
        return "ok"
    except Exception as e:  # noqa
        return mro_of(e)


# ------------------------------------------------------------------------------------------------ names
def canon_value(v: str) -> str:
    """caseIgnoreMatch with insignificant-space handling, as X500Principal.CANONICAL does for the strings
    this generator emits (letters, digits, blanks, a few symbols)"""
    v = "".join("\\" + c if c in ",+<>;\"\\" else c for c in v)
    if v.startswith("#"):
        v = "\\" + v
    out, prev = [], False
    for ch in v:
        if ch == " ":
            if not prev:
                out.append(ch)
            prev = True
        else:
            out.append(ch); prev = False
    v = "".join(out).strip("".join(chr(i) for i in range(33)))
    return unicodedata.normalize("NFKD", v.upper().lower())


def canon_name(rdns) -> tuple:
    """rdns: [(attr, value, strtype)] in encoding order"""
    return tuple((a, canon_value(v)) for a, v, _ in rdns)


def der_len(n: int) -> bytes:
    if n < 0x80:
        return bytes([n])
    b = n.to_bytes((n.bit_length() + 7) // 8, "big")
    return bytes([0x80 | len(b)]) + b


def tlv(tag: int, body: bytes) -> bytes:
    return bytes([tag]) + der_len(len(body)) + body


def der_oid(dotted: str) -> bytes:
    p = [int(x) for x in dotted.split(".")]
    body = bytearray([p[0] * 40 + p[1]])
    for v in p[2:]:
        chunk = [v & 0x7F]
        v >>= 7
        while v:
            chunk.append(0x80 | (v & 0x7F)); v >>= 7
        body += bytes(reversed(chunk))
    return tlv(0x06, bytes(body))


def name_der(rdns) -> bytes:
    """Name ::= SEQUENCE OF SET OF SEQUENCE { OID, DirectoryString }"""
    out = b""
    for a, v, t in rdns:
        s = tlv(0x0C if t == "utf8" else 0x13, v.encode("utf-8"))
        out += tlv(0x31, tlv(0x30, der_oid(NAME_OIDS[a][0]) + s))
    return tlv(0x30, out)


def cname(rdns):
    from cryptography.x509.name import _ASN1Type
    return cx509.Name([cx509.NameAttribute(NAME_OIDS[a][1], v,
                                           _ASN1Type.UTF8String if t == "utf8" else _ASN1Type.PrintableString,
                                           _validate=False) for a, v, t in rdns])


def make_cert(priv, issuer_rdns, serial: int, subject_rdns=None, signer=None) -> bytes:
    signer = signer or priv
    b = (cx509.CertificateBuilder().subject_name(cname(subject_rdns or issuer_rdns)).issuer_name(cname(issuer_rdns))
         .public_key(priv.public_key()).serial_number(serial)
         .not_valid_before(datetime.datetime(2020, 1, 1)).not_valid_after(datetime.datetime(2049, 1, 1)))
    alg = None if isinstance(signer, ed25519.Ed25519PrivateKey) else hashes.SHA256()
    return b.sign(signer, alg).public_bytes(serialization.Encoding.DER)


# ------------------------------------------------------------------------------------------------ TLV walker
class DerError(Exception):
    pass


def rd(b: bytes, off: int, end: int):
    """one TLV at off: (tag, content_offset, content_length); definite lengths only"""
    if off + 2 > end:
        raise DerError("short")
    tag = b[off]
    if tag & 0x1F == 0x1F:
        raise DerError("high tag")
    l0 = b[off + 1]
    p = off + 2
    if l0 < 0x80:
        n = l0
    else:
        k = l0 & 0x7F
        if k == 0 or k > 4 or p + k > end:
            raise DerError("length")
        n = int.from_bytes(b[p:p + k], "big")
        p += k
    if p + n > end:
        raise DerError("overrun")
    return tag, p, n


def children(b: bytes, off: int, n: int):
    out, p, end = [], off, off + n
    while p < end:
        tag, c, ln = rd(b, p, end)
        out.append((tag, p, c, ln))
        p = c + ln
    return out


def locate(p7: bytes) -> dict:
    """structure of a PKCS#7 SignedData: offsets of everything the checks corrupt or read"""
    tag, c, n = rd(p7, 0, len(p7))
    if tag != 0x30:
        raise DerError("ContentInfo")
    ci = children(p7, c, n)
    if len(ci) < 2 or ci[0][0] != 0x06 or ci[1][0] != 0xA0:
        raise DerError("ContentInfo fields")
    inner = children(p7, ci[1][2], ci[1][3])
    if len(inner) != 1 or inner[0][0] != 0x30:
        raise DerError("SignedData")
    sd = children(p7, inner[0][2], inner[0][3])
    if len(sd) < 4 or sd[0][0] != 0x02 or sd[1][0] != 0x31 or sd[2][0] != 0x30:
        raise DerError("SignedData fields")
    encap = children(p7, sd[2][2], sd[2][3])
    if not encap or encap[0][0] != 0x06:
        raise DerError("encap")
    out = {"encap_oid": p7[encap[0][2]:encap[0][2] + encap[0][3]], "certs": [], "signers": []}
    rest = sd[3:]
    if rest and rest[0][0] == 0xA0:
        for t, s, cc, ln in children(p7, rest[0][2], rest[0][3]):
            out["certs"].append({"tag": t, "start": s, "end": cc + ln})
        rest = rest[1:]
    if rest and rest[0][0] == 0xA1:
        rest = rest[1:]
    if len(rest) != 1 or rest[0][0] != 0x31:
        raise DerError("signerInfos")
    for t, s, cc, ln in children(p7, rest[0][2], rest[0][3]):
        if t != 0x30:
            raise DerError("SignerInfo")
        f = children(p7, cc, ln)
        if len(f) < 5 or f[0][0] != 0x02 or f[1][0] != 0x30 or f[2][0] != 0x30:
            raise DerError("SignerInfo fields")
        sid = children(p7, f[1][2], f[1][3])
        if len(sid) != 2 or sid[0][0] != 0x30 or sid[1][0] != 0x02:
            raise DerError("sid")
        da = children(p7, f[2][2], f[2][3])
        if not da or da[0][0] != 0x06:
            raise DerError("digestAlgorithm")
        d = {"start": s, "end": cc + ln,
             "issuer": (sid[0][1], sid[0][2] + sid[0][3]), "serial": (sid[1][2], sid[1][2] + sid[1][3]),
             "sid": (f[1][1], f[1][2] + f[1][3]),
             "digest_oid": p7[da[0][2]:da[0][2] + da[0][3]], "attrs": None}
        k = 3
        if f[k][0] == 0xA0:
            d["attrs"] = (f[k][1], f[k][2] + f[k][3])
            d["attrs_content"] = (f[k][2], f[k][2] + f[k][3])
            k += 1
        if len(f) < k + 2 or f[k][0] != 0x30 or f[k + 1][0] != 0x04:
            raise DerError("signature fields")
        d["sig"] = (f[k + 1][2], f[k + 1][2] + f[k + 1][3])
        out["signers"].append(d)
    return out


DIGEST_OIDS = {der_oid(o)[2:]: n for o, n in (("1.2.840.113549.2.5", "md5"), ("1.3.14.3.2.26", "sha1"),
                                               ("2.16.840.1.101.3.4.2.4", "sha224"), ("2.16.840.1.101.3.4.2.1", "sha256"),
                                               ("2.16.840.1.101.3.4.2.2", "sha384"), ("2.16.840.1.101.3.4.2.3", "sha512"))}


def parse_name(b: bytes, start: int, end: int):
    """Name at [start,end) -> canonical tuple as canon_name, from the bytes"""
    tag, c, n = rd(b, start, end)
    if tag != 0x30:
        raise DerError("Name")
    out = []
    for t, s, cc, ln in children(b, c, n):
        if t != 0x31:
            raise DerError("RDN")
        avas = children(b, cc, ln)
        if len(avas) != 1 or avas[0][0] != 0x30:
            raise DerError("AVA")
        f = children(b, avas[0][2], avas[0][3])
        if len(f) != 2 or f[0][0] != 0x06:
            raise DerError("AVA fields")
        oid = b[f[0][2]:f[0][2] + f[0][3]]
        attr = [k for k, (o, _) in NAME_OIDS.items() if der_oid(o)[2:] == oid]
        if not attr or f[1][0] not in (0x0C, 0x13):
            out.append((oid.hex(), "#" + b[f[1][1]:f[1][2] + f[1][3]].hex()))
        else:
            raw = b[f[1][2]:f[1][2] + f[1][3]]
            # UTF8String: strict UTF-8; PrintableString: one byte per character (NFKD in canon_value then folds e.g. U+00A0 to a blank,
            # as X500Principal.CANONICAL does)
            out.append((attr[0], canon_value(raw.decode("utf-8" if f[1][0] == 0x0C else "latin-1"))))
    return tuple(out)


def parse_attrs(b: bytes, start: int, end: int):
    """signed attributes [0] at [start,end) -> [(oid content bytes, [(tag, value bytes)])]"""
    tag, c, n = rd(b, start, end)
    out = []
    for t, s, cc, ln in children(b, c, n):
        if t != 0x30:
            raise DerError("Attribute")
        f = children(b, cc, ln)
        if len(f) != 2 or f[0][0] != 0x06 or f[1][0] != 0x31:
            raise DerError("Attribute fields")
        vals = [(vt, b[vc:vc + vl]) for vt, vs, vc, vl in children(b, f[1][2], f[1][3])]
        out.append((b[f[0][2]:f[0][2] + f[0][3]], vals))
    return out


# ------------------------------------------------------------------------------------------------ independent verifier
def oracle_verify(apk: bytes, name: str, sf_name: str | None = None):
    """Which certificates of the block `name` verify the matching .SF, by the rules of the v1 scheme:
    returns (list of sha256 of acceptable certificate DERs, info).  A SignerInfo contributes its certificate when
    the certificate's issuer (canonical form) and serial equal the sid, and its public key verifies the signature over
    the .SF (no signed attributes) or over the SET OF re-tagged signed attributes whose messageDigest equals H(.SF)."""
    z = zipfile.ZipFile(io.BytesIO(apk))
    p7 = z.read(name)
    sf = z.read(sf_name or name.rsplit(".", 1)[0] + ".SF")
    info = {"signers": []}
    try:
        loc = locate(p7)
    except DerError as e:
        return [], {"der_error": str(e)}
    good = []
    certs = []
    for c in loc["certs"]:
        der = p7[c["start"]:c["end"]]
        if c["tag"] != 0x30:
            continue
        try:
            xc = cx509.load_der_x509_certificate(der)
            tbs = children(der, *rd(der, 0, len(der))[1:])[0]
            tf = children(der, tbs[2], tbs[3])
            k = 1 if tf[0][0] == 0xA0 else 0          # [0] version, serial, sigalg, issuer
            issuer = parse_name(der, tf[k + 2][1], tf[k + 2][2] + tf[k + 2][3])
            pub = xc.public_key().public_bytes(serialization.Encoding.DER, serialization.PublicFormat.SubjectPublicKeyInfo)
            certs.append((der, issuer, xc.serial_number, pub))
        except Exception as e:  # noqa
            info.setdefault("bad_certs", []).append(type(e).__name__)
    for s in loc["signers"]:
        rec = {}
        info["signers"].append(rec)
        try:
            issuer = parse_name(p7, *s["issuer"])
            serial = int.from_bytes(p7[s["serial"][0]:s["serial"][1]], "big", signed=True)
            alg = DIGEST_OIDS.get(s["digest_oid"])
            if alg is None:
                rec["why"] = "digest algorithm"; continue
            sig = p7[s["sig"][0]:s["sig"][1]]
            if s["attrs"] is None or s["attrs_content"][0] == s["attrs_content"][1]:
                msg = sf
            else:
                attrs = parse_attrs(p7, *s["attrs"])
                oids = [a for a, _ in attrs]
                if len(set(oids)) != len(oids):
                    rec["why"] = "duplicate attribute"; continue
                md = [v for a, v in attrs if a == der_oid(OID_MD)[2:]]
                if not md or not md[0] or md[0][0][0] != 0x04:
                    rec["why"] = "no messageDigest"; continue
                if md[0][0][1] != hashlib.new(alg, sf).digest():
                    rec["why"] = "messageDigest mismatch"; continue
                ct = [v for a, v in attrs if a == der_oid(OID_CT)[2:]]
                rec["content_type_ok"] = bool(ct and ct[0] and ct[0][0][1] == loc["encap_oid"])
                raw = p7[s["attrs"][0]:s["attrs"][1]]
                msg = b"\x31" + raw[1:]
            for der, ci, cs, pub in certs:
                if ci == issuer and cs == serial:
                    r = verify_table_entry(pub, sig, msg, HASHES[alg].__name__)
                    rec.setdefault("tried", []).append(r if r == "ok" else r[0])
                    if r == "ok":
                        good.append(hashlib.sha256(der).hexdigest())
        except (DerError, UnicodeDecodeError, ValueError) as e:
            rec["why"] = f"{type(e).__name__}: {e}"
    return good, info


# ------------------------------------------------------------------------------------------------ PKCS#7 writer
def attr_asn1(oid: str, values):
    """values: list of ('oid', dotted) | ('oct', bytes) | ('time', str)"""
    vs = []
    for k, v in values:
        if k == "oid":
            vs.append(core.ObjectIdentifier(v))
        elif k == "oct":
            vs.append(core.OctetString(v))
        else:
            vs.append(core.UTCTime(datetime.datetime(2024, 1, 2, 3, 4, 5, tzinfo=datetime.timezone.utc)))
    body = b"".join(x.dump() for x in vs)
    return tlv(0x30, der_oid(oid) + tlv(0x31, body))


def signer_der(si: dict, sig: bytes) -> bytes:
    """SignerInfo written by hand (so that order and content of the signed attributes are exactly as requested)"""
    sid = tlv(0x30, name_der(si["issuer"]) + core.Integer(si["serial"]).dump())
    dalg = tlv(0x30, der_oid(si["digest_oid"]) + (b"\x05\x00" if si.get("digest_null", True) else b""))
    attrs = b""
    if si["attrs"] is not None:
        attrs = tlv(0xA0, b"".join(attr_asn1(o, vs) for o, vs in si["attrs"]))
    salg = tlv(0x30, der_oid(si["sigalg_oid"]) + b"\x05\x00")
    return tlv(0x30, b"\x02\x01\x01" + sid + dalg + attrs + salg + tlv(0x04, sig))


def attrs_bytes(si: dict) -> bytes:
    return tlv(0xA0, b"".join(attr_asn1(o, vs) for o, vs in si["attrs"])) if si["attrs"] is not None else b""


def p7_der(encap_oid: str, cert_elems: list, signers: list, digest_oids: list) -> bytes:
    das = tlv(0x31, b"".join(tlv(0x30, der_oid(o) + b"\x05\x00") for o in digest_oids))
    encap = tlv(0x30, der_oid(encap_oid))
    certs = tlv(0xA0, b"".join(cert_elems)) if cert_elems is not None else b""
    sis = tlv(0x31, b"".join(signers))
    sd = tlv(0x30, b"\x02\x01\x01" + das + encap + certs + sis)
    return tlv(0x30, der_oid("1.2.840.113549.1.7.2") + tlv(0xA0, sd))


# ------------------------------------------------------------------------------------------------ APK
ANDROID_NS = "http://schemas.android.com/apk/res/android"


def manifest_axml(min_sdk) -> bytes | None:
    """min_sdk: None (no uses-sdk), ('int', n), ('hex', n), ('str', s), 'nomanifest'"""
    if min_sdk == "nomanifest":
        return None
    kids = []
    if min_sdk is not None:
        kind, v = min_sdk
        val = AX.I(v) if kind == "int" else AX.Hex(v) if kind == "hex" else AX.S(v)
        kids.append(AX.Element("uses-sdk", attrs=[AX.Attr(ANDROID_NS, "minSdkVersion", val, res_id=0x0101020C)]))
    root = AX.Element("manifest", attrs=[AX.Attr(None, "package", AX.S("org.example.v1"))], children=kids,
                      nsdecls=[("android", ANDROID_NS)])
    return AX.encode_axml(root)


def build_apk(min_sdk, meta: list) -> bytes:
    """meta: [(name, bytes)] entries under any name; plus a manifest and a dummy payload"""
    entries = []
    m = manifest_axml(min_sdk)
    if m is not None:
        entries.append(("AndroidManifest.xml", m, True))
    entries.append(("res/raw/payload.txt", b"payload\n", False))
    for n, d in meta:
        entries.append((n, d, False))
    return zipwriter.write_zip(entries)


def manifest_mf(files: dict, alg="sha256") -> bytes:
    import base64
    out = "Manifest-Version: 1.0\r\nCreated-By: 1.0 (verif)\r\n\r\n"
    for n, d in files.items():
        out += f"Name: {n}\r\n{alg.upper().replace('SHA', 'SHA-')}-Digest: {base64.b64encode(hashlib.new(alg, d).digest()).decode()}\r\n\r\n"
    return out.encode()


def signature_sf(mf: bytes, alg="sha256", extra="") -> bytes:
    import base64
    tag = alg.upper().replace("SHA", "SHA-")
    return (f"Signature-Version: 1.0\r\nCreated-By: 1.0 (verif)\r\n{tag}-Digest-Manifest: "
            f"{base64.b64encode(hashlib.new(alg, mf).digest()).decode()}\r\n{extra}\r\n").encode()
