"""
Random resource models for the checks of C28/C29 (built on harness/arscwriter.py) and the
expectations that follow from a model by the meaning of the format alone (no androguard, no Lean):

    random_table(rng, ...)          -> ResTable
    random_layout(rng)              -> dict of layout options for encode_arsc
    expected_values(model)          -> {res_id: [(config_words, Entry), ...]}   (one slot per configuration,
                                       a later chunk with the same configuration replaces the value in place)
    fmt_literal(value)              -> the text Android's tools print for a non-reference Res_value
    select(options, wanted)         -> the entries a lookup with configuration `wanted` yields
    reach_values(values, rid, wanted) -> set of concrete value tokens reachable from rid
"""
from __future__ import annotations

from harness.arscwriter import (Config, Entry, Package, Raw, Ref, ResTable, ResType, Str, TypeChunk, res_id)

SIMPLE_TYPES = ["string", "integer", "bool", "color", "id", "drawable", "layout"]
COMPLEX_TYPES = ["style", "array", "plurals", "attr"]
LANGS = ["", "", "de", "fr", "en", "ja", "fil", "ast", "pt"]
REGIONS = ["", "", "", "US", "GB", "BR", "419", "DE"]
DENSITIES = [0, 0, 120, 160, 240, 320, 480, 0xFFFE, 0xFFFF]
WORDS = ["Hello", "Hallo", "", "a b", "x<y&z", "Grüße", "日本語", "ok", "app", "Name", "ünï", "p/q.png",
         "res/drawable/icon.png", "@", "0", "-1", "😀 smile", "L" * 130]
DEFAULT_WORDS = (0,) * 9


def random_config(rng, small=False) -> Config:
    if rng.random() < 0.25:
        return Config()
    kw = {}
    if rng.random() < 0.7:
        kw["language"] = rng.choice(LANGS)
        if kw["language"] and rng.random() < 0.5:
            kw["region"] = rng.choice(REGIONS)
    if rng.random() < 0.5:
        kw["density"] = rng.choice(DENSITIES)
    if rng.random() < 0.4:
        kw["sdk"] = rng.choice([0, 4, 13, 21, 26, 33])
    if not small:
        if rng.random() < 0.2:
            kw["orientation"] = rng.choice([1, 2])
        if rng.random() < 0.1:
            kw["mcc"] = rng.choice([310, 262]); kw["mnc"] = rng.choice([0, 4, 260])
        if rng.random() < 0.1:
            kw["ui_mode"] = rng.choice([0x10, 0x20, 0x06])
        if rng.random() < 0.1:
            kw["smallest_width_dp"] = rng.choice([600, 720])
        if rng.random() < 0.1:
            kw["screen_layout"] = rng.choice([0x40, 0x80, 0x03])
    return Config(**kw)


def random_literal(rng):
    k = rng.random()
    if k < 0.45:
        return Str(rng.choice(WORDS) + (str(rng.randrange(100)) if rng.random() < 0.5 else ""))
    t = rng.choice([0x10, 0x10, 0x11, 0x12, 0x1C, 0x1D, 0x1E, 0x1F, 0x02, 0x00, 0x07])
    d = rng.choice([0, 1, 5, 0x7FFFFFFF, 0x80000000, 0xFFFFFFFF, 0x01010001, 0x7F010002, rng.randrange(2 ** 32)])
    if t == 0x12:
        d = rng.choice([0, 0xFFFFFFFF, 1])
    return Raw(t, d)


def random_table(rng, npkg=None, refs=True, cycles=True, max_entries=6) -> ResTable:
    """several packages and types, many configurations, all entry kinds and layouts; references between
    entries form chains, diamonds and (when `cycles`) cycles of length 1..5, complex items refer back"""
    npkg = npkg or rng.choice([1, 1, 2, 3])
    pkg_ids = rng.sample([0x7F, 0x01, 0x02, 0x10, 0x7E], npkg)
    # plan the shape first so that references can point at ids that exist
    plan = []
    for pi, pid in enumerate(pkg_ids):
        ntypes = rng.randrange(1, 5)
        names = rng.sample(SIMPLE_TYPES, min(ntypes, len(SIMPLE_TYPES)))
        if rng.random() < 0.7:
            names.insert(rng.randrange(len(names) + 1), rng.choice(COMPLEX_TYPES))
        types = []
        for ti, tn in enumerate(names):
            count = rng.randrange(1, max_entries + 1)
            types.append((tn, count))
        plan.append((pid, "com.pkg%d.app" % pi if pi else "tests.app", types))
    all_ids = [res_id(pid, ti + 1, e) for pid, _, types in plan for ti, (_, cnt) in enumerate(types) for e in range(cnt)]

    # reference structure: a few planted cycles and chains over existing ids
    planted = {}
    if refs:
        pool = list(all_ids)
        rng.shuffle(pool)
        for _ in range(rng.randrange(0, 4)):
            k = rng.randrange(1, 6)
            if len(pool) < k:
                break
            nodes = [pool.pop() for _ in range(k)]
            if not cycles:
                nodes.sort()
            closed = cycles and rng.random() < 0.7
            for i, n in enumerate(nodes):
                if i + 1 < len(nodes):
                    planted[n] = nodes[i + 1]
                elif closed:
                    planted[n] = nodes[0]          # k = 1: a self reference

    def value(rid):
        if refs and rng.random() < 0.3:
            r = rng.random()
            if r < 0.1:
                return Ref(0)                     # @null
            if r < 0.2:
                return Ref(res_id(0x7F, 9, 99))   # dangling
            if cycles:
                return Ref(rng.choice(all_ids))
            later = [i for i in all_ids if i > rid]   # acyclic mode: references only go upwards
            return Ref(rng.choice(later)) if later else random_literal(rng)
        return random_literal(rng)

    packages = []
    for pid, pname, types in plan:
        rtypes = []
        for ti, (tn, count) in enumerate(types):
            tid = ti + 1
            nchunks = rng.choice([1, 1, 2, 3, 4])
            cfgs = []
            for _ in range(nchunks):
                c = random_config(rng)
                if c in cfgs and rng.random() < 0.8:
                    continue
                cfgs.append(c)
            if Config() not in cfgs and rng.random() < 0.6:
                cfgs.insert(0, Config())
            chunks = []
            keyname = {e: "%s_%d" % (tn[:3], e) if rng.random() < 0.9 else "dup" for e in range(count)}
            for c in cfgs:
                entries = {}
                for e in range(count):
                    if rng.random() < 0.35:
                        continue
                    rid = res_id(pid, tid, e)
                    cplx = tn in COMPLEX_TYPES and rng.random() < 0.8
                    if cplx:
                        items = []
                        for _ in range(rng.randrange(0, 4)):
                            items.append((rng.choice([0x01010001, 0x01010002, 0x7F010000, 0]), value(rid)))
                        if rid in planted and rng.random() < 0.8:
                            items.insert(rng.randrange(len(items) + 1), (0x01010003, Ref(planted[rid])))
                        ent = Entry(keyname[e], "complex", items=items, parent=rng.choice([0, 0x01030005]))
                    else:
                        v = Ref(planted[rid]) if rid in planted and rng.random() < 0.8 else value(rid)
                        if tn == "string" and not isinstance(v, Ref) and rng.random() < 0.7:
                            v = Str(rng.choice(WORDS))
                        kind = "compact" if rng.random() < 0.25 else "simple"
                        ent = Entry(keyname[e], kind, value=v)
                    ent.public = rng.random() < 0.3
                    ent.weak = rng.random() < 0.05
                    entries[e] = ent
                chunks.append(TypeChunk(c, entries, rng.choice(["plain", "plain", "sparse", "offset16"])))
            rtypes.append(ResType(tn, count, chunks))
        packages.append(Package(pid, pname, rtypes))
    return ResTable(packages)


def random_layout(rng) -> dict:
    o = {}
    if rng.random() < 0.5:
        o["global_utf8"] = True
    if rng.random() < 0.3:
        o["type_utf8"] = True
    if rng.random() < 0.3:
        o["key_utf8"] = True
    if rng.random() < 0.3:
        o["pkg_header_size"] = 284
    if rng.random() < 0.2:
        o["typespec"] = False
    elif rng.random() < 0.2:
        o["spec_per_chunk"] = True
    if rng.random() < 0.2:
        o["force_layout"] = rng.choice(["plain", "sparse", "offset16"])
    if rng.random() < 0.4:
        o["shuffle_bodies"] = rng
    if rng.random() < 0.2:
        o["extra_chunk"] = True
    if rng.random() < 0.3:
        o["global_extra"] = ["unused0", "unused1"]
    if rng.random() < 0.3:
        o["pool_order"] = rng
    if rng.random() < 0.1:
        o["trailing"] = b"\0\0\0\0"
    return o


def config_size_for(model: ResTable, rng) -> int:
    """a config size that can carry every field used by the model"""
    need = 28
    for p in model.packages:
        for t in p.types:
            for tc in t.chunks:
                c = tc.config
                if c.screen_layout or c.ui_mode or c.smallest_width_dp:
                    need = max(need, 32)
                if c.screen_width_dp or c.screen_height_dp:
                    need = max(need, 36)
                if c.screen_layout2 or c.color_mode:
                    need = max(need, 52)
    return rng.choice([s for s in (28, 32, 36, 48, 52, 56, 64, 64, 64) if s >= need])


# ------------------------------------------------------------------------------- expectations
def expected_values(model: ResTable):
    """res id -> list of [config_words, Entry, Config] in order of first appearance of the configuration"""
    out = {}
    for p in model.packages:
        for ti, t in enumerate(p.types):
            for tc in t.chunks:
                w = tc.config.words()
                for e in sorted(tc.entries):
                    rid = res_id(p.id, ti + 1, e)
                    slots = out.setdefault(rid, [])
                    for s in slots:
                        if s[0] == w:
                            s[1] = tc.entries[e]
                            break
                    else:
                        slots.append([w, tc.entries[e], tc.config])
    return out


def fmt_literal(v) -> str:
    """what aapt/Android print for a non-reference Res_value of the integer/string families"""
    if isinstance(v, Str):
        return v.text
    t, d = v.data_type, v.data
    if t == 0x02:
        return "?%s%08X" % ("android:" if d >> 24 == 1 else "", d)
    if t == 0x11:
        return "0x%08X" % d
    if t == 0x12:
        return "false" if d == 0 else "true"
    if 0x1C <= t <= 0x1F:
        return "#%08X" % d
    if 0x10 <= t <= 0x1F:
        return str(d - (1 << 32) if d >= 1 << 31 else d)
    return "<0x%X, type 0x%02X>" % (d, t)


def select(slots, wanted):
    """entries a lookup of one id yields: every configuration when `wanted` is None; otherwise the exact
    configuration, with the documented fallback to the first entry for the default configuration"""
    if wanted is None or len(slots) <= 1:
        return list(slots)
    for s in slots:
        if s[0] == wanted:
            return [s]
    return slots[:1] if wanted == DEFAULT_WORDS else []


def entry_values(entry: Entry):
    return [v for _, v in entry.items] if entry.kind == "complex" else [entry.value]


def reach_values(values, rid, wanted):
    """set of concrete value tokens reachable from rid through references:
    ("pair", config_words, text) for simple/compact entries, ("bare", text) for items of complex entries"""
    seen, todo, out = set(), [rid], set()
    while todo:
        r = todo.pop()
        if r in seen:
            continue
        seen.add(r)
        for w, entry, _ in select(values.get(r, []), wanted):
            for v in entry_values(entry):
                if isinstance(v, Ref):
                    if v.res_id:
                        todo.append(v.res_id)
                elif entry.kind == "complex":
                    out.add(("bare", fmt_literal(v)))
                else:
                    out.add(("pair", tuple(w), fmt_literal(v)))
    return out
