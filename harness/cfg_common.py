"""Shared harness of C10 / C11 / C12 / C40 (control-flow graph of a method).

T  real `Analysis` (androguard, in-process) vs the Lean model `AgVerif.Cfg` (driver drv_C10) on
   * generated methods, assembled with the independent writer harness/dexasm.py into DEX files
     (forward/backward gotos of the three widths, conditional branches incl. to offset 0 and to the
     fall-through, packed/sparse switches with repeated targets and shared payloads, aligned,
     misaligned and missing payloads, fill-array-data, try ranges that start/end at, before and after
     leaders, adjacent / overlapping ranges, handlers inside loops, shared handler lists; half of the
     DEX files are written with legal non-minimal (overlong) LEB128 in class data and handler lists);
   * every method of the shipped DEX/APK files; the model is fed with the real disassembly's
     (length, opcode, ref_off, payload kind, targets) stream and the parsed try items.
   * histories on one EncodedMethod: analysed, then its instruction list replaced through the public
     EncodedMethod.set_instructions() (nops prepended, another method's code, the same code with other
     payload targets, back to the original; direct get_ins_off / off_to_pos calls in between), then a
     FRESH MethodAnalysis on the same EncodedMethod; model and oracle are computed from the NEW list.
S  harness/cfg_oracle.py on the real results (specification decoder + interval intersection).

One request line per method:  `<cmd> <stream> <tries> <handlers>` (see lean/Driver/C10.lean).
"""
import glob
import io
import json
import os
import zipfile

from harness import cfg_oracle as O
from harness import dexasm as A
from harness.fw import REPO, VERIF, Check, Driver, sha

THROWABLE = "Ljava/lang/Throwable;"
_DEX = "androguard/core/dex/__init__.py"
_ANA = "androguard/core/analysis/analysis.py"
# every hand-modelled function (the literal list is repeated in harness/props/c10.py … c40.py for tools/mkpins.py)
PINS = [(_DEX, "determineNext"), (_DEX, "determineException"), (_DEX, "DCode.get_ins_off"),
        (_DEX, "DCode.off_to_pos"), (_DEX, "DCode.set_instructions"), (_DEX, "DCode.get_instructions"),
        (_DEX, "EncodedMethod.get_instructions_idx"), (_DEX, "EncodedMethod.set_instructions"),
        (_ANA, "MethodAnalysis._create_basic_block"), (_ANA, "DEXBasicBlock.push"),
        (_ANA, "DEXBasicBlock.set_childs"), (_ANA, "DEXBasicBlock.set_fathers"),
        (_ANA, "BasicBlocks.get_basic_block"), (_ANA, "Exceptions.get_exception"), (_ANA, "Exceptions.add"),
        (_ANA, "ExceptionAnalysis.__init__"), (_DEX, "DCode.set_insn"), (_DEX, "EncodedMethod.reload")]
CMD = {"C10": "c10", "C11": "c11", "C12": "c12", "C40": "c40"}
GEN_CLASS = "LGen;"
EXT_CLASS = "Lext/E;"


def tok(s):
    return sha(str(s))[:8]


# ------------------------------------------------------------------------------ real side
def load_dex(data: bytes):
    from androguard.core import dex
    from androguard.core.analysis import analysis
    d = dex.DEX(data)
    dx = analysis.Analysis(d)
    dx.create_xref()
    return d, dx


def xref_index(dx):
    idx = {}

    def ent(m):
        return idx.setdefault(m, {"cls": set(), "meth": set(), "str": set(), "fld": set()})
    for ma in dx.get_methods():
        if ma.is_external():
            continue
        e = ent(ma.get_method())
        e["meth"] |= {off for _, _, off in ma.get_xref_to()}
        e["cls"] |= {off for _, off in ma.get_xref_new_instance()} | {off for _, off in ma.get_xref_const_class()}
        e["fld"] |= {off for _, _, off in ma.get_xref_read()} | {off for _, _, off in ma.get_xref_write()}
    for sa in dx.get_strings():
        for _, meth, off in sa.get_xref_from(with_offset=True):
            ent(meth.get_method())["str"].add(off)
    return idx


def field_keys(d):
    return {(f.get_class_name(), f.get_name(), f.get_descriptor()) for c in d.get_classes() for f in c.get_fields()}


def xref_flag(d, m, ins, op, fkeys):
    """does `_create_xref` get past its `continue`s for this instruction?  (decided from the pools)"""
    try:
        if op in (0x1C, 0x22):
            t = d.get_cm_type(ins.get_ref_kind()).lstrip("[")
            return t[:1] == "L" and t != m.get_class_name()
        if 0x6E <= op <= 0x72 or 0x74 <= op <= 0x78:
            mi = d.get_cm_method(ins.get_ref_kind())
            return bool(mi) and mi[0].lstrip("[")[:1] == "L"
        if 0x1A <= op <= 0x1B:
            return True
        if 0x52 <= op <= 0x6D:
            fi = d.get_cm_field(ins.get_ref_kind())
            return (fi[0], fi[2], fi[1]) in fkeys
    except Exception:  # noqa
        return False
    return False


def method_request(d, m, fkeys, xrefs=True):
    """(args string for the driver, instruction objects) from the real disassembly of `m`
    (its current instruction list); xrefs=False: no cross-reference flags (history stream: create_xref
    is not re-run after set_instructions)"""
    from androguard.core import dex
    code = m.get_code()
    insns = list(m.get_instructions())
    parts = []
    for i in insns:
        op = i.get_op_value()
        if isinstance(i, dex.PackedSwitch):
            kind = 1
        elif isinstance(i, dex.SparseSwitch):
            kind = 2
        elif isinstance(i, dex.FillArrayData):
            kind = 3
        else:
            kind = 0
        g = getattr(i, "get_ref_off", None)
        ref = g() if g is not None and kind == 0 else 0
        x = 1 if xrefs and kind == 0 and xref_flag(d, m, i, op, fkeys) else 0
        s = f"{i.get_length()}:{op}:{ref}:{kind}:{x}"
        if kind in (1, 2):
            tg = i.get_targets()
            if tg:
                s += ":" + "/".join(str(t) for t in tg)
        parts.append(s)
    tries, hs = [], []
    if code.get_tries_size() > 0:
        hl = code.get_handlers()
        for t in code.get_tries():
            tries.append(f"{t.get_start_addr()}:{t.get_insn_count()}:{t.get_handler_off()}")
        for h in hl.get_list():
            s = f"{h.get_off() - hl.get_off()}:{h.get_size()}:{h.get_catch_all_addr() if h.get_size() <= 0 else 0}"
            if h.get_handlers():
                s += ":" + "/".join(f"{p.get_type_idx()}/{p.get_addr()}" for p in h.get_handlers())
            hs.append(s)
    return " ".join((",".join(parts) or "-", ",".join(tries) or "-", ",".join(hs) or "-")), insns


def parsed_tries(d, m):
    """try table as the oracle wants it, joined by hand from the parsed items (not via determineException)"""
    code = m.get_code()
    if code.get_tries_size() <= 0:
        return []
    hl = code.get_handlers()
    by_off = {}
    for h in hl.get_list():
        by_off.setdefault(h.get_off() - hl.get_off(), h)
    out = []
    for t in code.get_tries():
        h = by_off[t.get_handler_off()]
        hs = [(tok(d.get_cm_type(p.get_type_idx())), p.get_addr()) for p in h.get_handlers()]
        if h.get_size() <= 0:
            hs.append((tok(THROWABLE), h.get_catch_all_addr()))
        out.append((t.get_start_addr(), t.get_insn_count(), hs))
    return out


def real_view(dx, m, insns, xidx, ma=None):
    if ma is None:
        ma = dx.get_method(m)
    off_of = {}
    o = 0
    for i in insns:
        off_of.setdefault(id(i), o)
        o += i.get_length()
    blocks, childs, fathers, exc, special = [], [], [], [], {}
    for b in ma.get_basic_blocks():
        blocks.append((b.get_start(), b.get_end(), b.get_nb_instructions()))
        childs.append([(c[0], c[1], c[2].get_start()) for c in b.childs])
        fathers.append([(f[0], f[1], f[2].get_start()) for f in b.fathers])
        ea = b.get_exception_analysis()
        if ea is None:
            exc.append(None)
        else:
            exc.append((ea.start, ea.end, [(tok(h[0]), h[1], None if h[2] is None else h[2].get_start())
                                            for h in ea.exceptions]))
        for idx, obj in b.special_ins.items():
            special[idx] = None if obj is None else off_of.get(id(obj), "foreign")
    x = xidx.get(m, {"cls": set(), "meth": set(), "str": set(), "fld": set()})
    return {"blocks": blocks, "childs": childs, "fathers": fathers, "exc": exc, "special": special,
            "special_by_block": [[(idx, special[idx]) for idx in b.special_ins] for b in ma.get_basic_blocks()],
            "xref": {k: sorted(v) for k, v in x.items()}}


def _n(x):
    return "none" if x is None else str(x)


def canon(view, prop):
    """the real result in the driver's reply format"""
    B = view["blocks"]
    if prop == "C10":
        return "ok " + " ".join(f"{s}-{e}:{n}" for s, e, n in B)
    if prop == "C11":
        return "ok " + " | ".join(
            f"{s} c={';'.join(f'{a}>{b}>{c}' for a, b, c in ch)} f={';'.join(f'{a}>{b}>{c}' for a, b, c in fa)}"
            for (s, _, _), ch, fa in zip(B, view["childs"], view["fathers"]))
    if prop == "C12":
        parts = []
        for (s, _, _), ea in zip(B, view["exc"]):
            if ea is None:
                parts.append(f"{s} e=none")
            else:
                parts.append(f"{s} e={ea[0]}:{ea[1]}:" + ";".join(f"{t}>{a}>{_n(bb)}" for t, a, bb in ea[2]))
        return "ok " + " | ".join(parts)
    if prop == "C40":
        blk = " | ".join(f"{s}-{e} s={';'.join(f'{i}>{_n(p)}' for i, p in sp)}"
                         for (s, e, _), sp in zip(B, view["special_by_block"]))
        x = view["xref"]
        return ("ok " + blk + " X cls=" + ",".join(map(str, x["cls"])) + " meth=" + ",".join(map(str, x["meth"]))
                + " str=" + ",".join(map(str, x["str"])) + " fld=" + ",".join(map(str, x["fld"])))
    raise ValueError(prop)


def post_model(reply, prop, d):
    """C12: the model names handler types by index (`T` = catch-all); map them to the same tokens as the real side"""
    if prop != "C12" or not reply.startswith("ok "):
        return reply
    parts = []
    for p in reply[3:].split(" | "):
        head, _, e = p.partition(" e=")
        if e == "none" or not _:
            parts.append(p)
            continue
        es, ee, hs = e.split(":", 2)
        out = []
        for h in hs.split(";") if hs else []:
            ty, a, bb = h.split(">")
            out.append(f"{tok(THROWABLE) if ty == 'T' else tok(d.get_cm_type(int(ty)))}>{a}>{bb}")
        parts.append(f"{head} e={es}:{ee}:" + ";".join(out))
    return "ok " + " | ".join(parts)


# ------------------------------------------------------------------------------ generated methods
REFS = {"S": A.StringRef, "T": A.TypeRef, "M": A.MethodRef, "F": A.FieldRef}


def _item(it, symbolic=True):
    """JSON spec item -> assemble() item"""
    if isinstance(it, str):
        return it
    if isinstance(it, dict):
        return bytes.fromhex(it["raw"])
    out = []
    for x in it:
        if isinstance(x, dict):
            if not symbolic:
                out.append(0)
            else:
                a = x["ref"][1:]
                a = [tuple(v) if isinstance(v, list) else v for v in a]
                out.append(REFS[x["ref"][0]](*a))
        elif isinstance(x, list):
            out.append(tuple(x) if it[0] not in ("packed-switch-payload", "sparse-switch-payload",
                                                 "fill-array-data-payload") else list(x))
        else:
            out.append(x)
    return tuple(out)


def sled_items(n, seed):
    """deterministic run of n short instructions (nop / const/4 / move / add-int/2addr, now and then an
    if-eqz a few units ahead) — the bulk of a 'long method'; stored in a spec as {"sled": n, "seed": seed}"""
    import random as _r
    rng = _r.Random(seed)
    out = []
    for j in range(n):
        t = rng.random()
        if j % 97 == 50:
            out.append(("if-eqz", rng.randrange(6), rng.choice((2, 3, 5))))
        elif t < 0.5:
            out.append(("nop",))
        elif t < 0.75:
            out.append(("const/4", rng.randrange(6), rng.randrange(-8, 8)))
        elif t < 0.9:
            out.append(("move", rng.randrange(6), rng.randrange(6)))
        else:
            out.append(("add-int/2addr", rng.randrange(6), rng.randrange(6)))
    if sum(A.ins_units(i[0]) for i in out) % 2:
        out.append(("nop",))                                   # keep the payload alignment of what follows
    return out


def asm_items(items, symbolic=True):
    """spec items -> assemble() items (sleds expanded)"""
    out = []
    for it in items:
        if isinstance(it, dict) and "sled" in it:
            out += sled_items(it["sled"], it["seed"])
        else:
            out.append(_item(it, symbolic))
    return out


PLAIN = [
    lambda r: ["nop"],
    lambda r: ["const/4", r.randrange(6), r.randrange(-8, 8)],
    lambda r: ["add-int/2addr", r.randrange(6), r.randrange(6)],
    lambda r: ["const-wide", 0, r.randrange(-5, 5)],
    lambda r: ["move-exception", r.randrange(6)],
    lambda r: ["const-string", r.randrange(6), {"ref": ["S", r.choice(["a", "b", "hello"])]}],
    lambda r: ["invoke-static", [], {"ref": ["M", r.choice([GEN_CLASS, EXT_CLASS, "[" + EXT_CLASS, "[I"]),
                                                 r.choice(["callee", "clone"]), "V", []]}],
    lambda r: ["new-instance", r.randrange(6), {"ref": ["T", r.choice([GEN_CLASS, EXT_CLASS])]}],
    lambda r: ["const-class", r.randrange(6), {"ref": ["T", r.choice([GEN_CLASS, EXT_CLASS, "[" + EXT_CLASS, "[I"])]}],
    lambda r: [r.choice(["sget", "sput"]), r.randrange(6), {"ref": ["F", r.choice([GEN_CLASS, EXT_CLASS]), "X", "I"]}],
]
CATCH_TYPES = ["Ljava/lang/Exception;", "Ljava/io/IOException;", EXT_CLASS, THROWABLE]


def gen_spec(rng):
    """one generated method as a JSON-able spec {"items": […], "tries": […]}"""
    nseg = rng.choice((1, 2, 3, 3, 4, 5, 6, 8))
    lab = [f"L{k}" for k in range(nseg)]
    items, payloads = [], []          # payloads: dict(label, kind, want(list of labels), mode)

    def payload_for(kind):
        same = [p for p in payloads if p["kind"] == kind]
        if same and rng.random() < 0.35:
            return rng.choice(same)["label"]
        n = rng.choice((0, 1, 2, 3, 3, 5))
        p = {"label": f"P{len(payloads)}", "kind": kind, "want": [rng.choice(lab) for _ in range(n)],
             "mode": rng.choice(("ok", "ok", "ok", "ok", "misaligned", "wrongkind"))}
        if n >= 2 and rng.random() < 0.4:
            p["want"][1] = p["want"][0]                      # repeated case target
        payloads.append(p)
        return p["label"]
    for k in range(nseg):
        items.append(lab[k] + ":")
        for _ in range(rng.choice((0, 1, 1, 2, 3, 5))):
            items.append(rng.choice(PLAIN)(rng))
        nxt = lab[k + 1] if k + 1 < nseg else lab[0]
        t = rng.random()
        if t < 0.16:
            pass
        elif t < 0.30:
            items.append([rng.choice(["if-eqz", "if-nez", "if-ltz", "if-gez", "if-gtz", "if-lez"]), rng.randrange(6),
                          rng.choice([rng.choice(lab), lab[0], nxt])])
        elif t < 0.40:
            items.append([rng.choice(["if-eq", "if-ne", "if-lt", "if-ge", "if-gt", "if-le"]), rng.randrange(6),
                          rng.randrange(6), rng.choice([rng.choice(lab), lab[0], nxt])])
        elif t < 0.55:
            tgt = rng.choice([x for x in lab if x != lab[k]] or [lab[0]])
            items.append([rng.choice(["goto", "goto/16", "goto/32"]), tgt])
        elif t < 0.65:
            op = rng.choice(["return-void", "return", "return-wide", "return-object"])
            items.append([op] if op == "return-void" else [op, rng.randrange(6)])
        elif t < 0.72:
            items.append(["throw", rng.randrange(6)])
        elif t < 0.84:
            items.append(["packed-switch", rng.randrange(6), payload_for("packed")])
        elif t < 0.94:
            items.append(["sparse-switch", rng.randrange(6), payload_for("sparse")])
        else:
            items.append(["fill-array-data", rng.randrange(6), payload_for("fill")])
    items.append(["return-void"])
    ncode = len(items)
    for p in payloads:
        items.append(p["label"] + ":")
        n = len(p["want"])
        kind = p["kind"] if p["mode"] != "wrongkind" else rng.choice(("packed", "sparse", "fill", "code"))
        if kind == "packed":
            p["item"] = ["packed-switch-payload", rng.randrange(-3, 4), [0] * n]
        elif kind == "sparse":
            p["item"] = ["sparse-switch-payload", sorted(rng.sample(range(-20, 20), n)), [0] * n]
        elif kind == "fill":
            w = rng.choice((1, 2, 4, 8))
            p["item"] = ["fill-array-data-payload", w, [rng.randrange(0, 100) for _ in range(rng.randrange(0, 4))]]
        else:
            p["item"] = ["nop"]
        p["pos"] = len(items)
        items.append(p["item"])
        if kind == "code":
            items.append(["return-void"])

    def asm(its):
        return A.assemble([_item(i, symbolic=False) for i in its])
    # misaligned payloads are written as raw bytes at an odd code-unit address
    for p in payloads:
        if p["mode"] == "misaligned" and p["item"][0].endswith("-payload"):
            it = _item(p["item"])
            raw = (A.packed_switch_payload(it[1], it[2]) if it[0].startswith("packed") else
                   A.sparse_switch_payload(it[1], it[2]) if it[0].startswith("sparse") else
                   A.fill_array_data_payload(it[1], it[2]))
            pos = next(i for i, x in enumerate(items) if x is p["item"])
            items[pos] = {"raw": raw.hex()}
            _, offs = asm(items)
            if offs[p["label"]] % 2 == 0:
                items.insert(pos - 1, ["nop"])
    _, offs = asm(items)
    # numeric switch targets, relative to the first switch that refers to the payload
    for p in payloads:
        users = [at for it, at in zip(items, offs.item_offsets)
                 if isinstance(it, list) and it[0] in ("packed-switch", "sparse-switch") and it[2] == p["label"]]
        base = users[0] if users else 0
        rel = [offs[l] - base for l in p["want"]]
        pos = next(i for i, it in enumerate(items) if isinstance(it, str) and it == p["label"] + ":") + 1
        it = items[pos]
        if isinstance(it, dict):
            raw = bytearray.fromhex(it["raw"])
            ident = raw[0] | raw[1] << 8
            n = len(rel)
            start = 8 if ident == 0x100 else 4 + 4 * n if ident == 0x200 else None
            if start is not None:
                for j, t in enumerate(rel):
                    raw[start + 4 * j:start + 4 * j + 4] = (t & 0xFFFFFFFF).to_bytes(4, "little")
            items[pos] = {"raw": bytes(raw).hex()}
        elif it[0] in ("packed-switch-payload", "sparse-switch-payload"):
            it[2] = rel
    code, offs = asm(items)
    # now and then a payload reference that misses the payload by a code unit or two (not an
    # instruction offset, or the wrong instruction): get_ins_off must then find nothing / that instruction
    for k, (it, at) in enumerate(zip(items, offs.item_offsets)):
        if isinstance(it, list) and it[0] in ("packed-switch", "sparse-switch", "fill-array-data") \
                and isinstance(it[2], str) and rng.random() < 0.08:
            items[k] = [it[0], it[1], offs[it[2]] - at + rng.choice((1, -1, 2, 3))]
    code, offs = asm(items)
    # try ranges over the code part
    bounds = sorted({at for it, at in zip(items[:ncode], offs.item_offsets[:ncode]) if not isinstance(it, str)})
    end_code = offs.item_offsets[ncode] if ncode < len(items) else offs.size_units
    bounds.append(end_code)
    tries = []
    nt = rng.choice((0, 0, 1, 1, 2, 3))
    if nt and len(bounds) >= 2:
        cuts = sorted(rng.sample(bounds, min(len(bounds), rng.choice((2, 3, 4, 6)))))
        spans = list(zip(cuts, cuts[1:]))
        rng.shuffle(spans)
        spans = sorted(spans[:nt])
        if rng.random() < 0.08 and len(spans) >= 2:              # overlapping (not well-formed)
            spans[0] = (spans[0][0], spans[1][1])
        for (a, b) in spans:
            if rng.random() < 0.05 and b - a >= 2:
                b -= 1                                           # may end inside an instruction
            if rng.random() < 0.03:
                a += 1                                           # may start inside an instruction
            hs = [[rng.choice(CATCH_TYPES), offs[rng.choice(lab)]] for _ in range(rng.choice((0, 1, 1, 2)))]
            ca = offs[rng.choice(lab)] if (not hs or rng.random() < 0.4) else None
            tries.append([a, max(b - a, 0 if rng.random() < 0.02 else 1), hs, ca])
        if rng.random() < 0.1:
            rng.shuffle(tries)
    return {"items": items, "tries": tries}


def share_code_item(data: bytes, owner: str, sibling: str):
    """patch the class_data_item so that method `sibling` has the code_off of method `owner` (two
    encoded_methods sharing one code item: legal, what code-item deduplication produces).  Returns the
    new file or None when the bytes cannot be patched in place."""
    from androguard.core import dex
    d0 = dex.DEX(data)
    off = {m.get_name(): m.get_code_off() for m in d0.get_encoded_methods()}
    old = b"\x09" + A.uleb128(off[sibling])                   # access_flags 0x9, code_off
    if data.count(old) != 1 or len(A.uleb128(off[owner])) > len(old) - 1:
        return None
    new = b"\x09" + A.uleb128(off[owner], len(old) - 1)
    return A.fix_checksum(data.replace(old, new))


def build_dex(specs, shared_handlers=False, leb_pad=0, sibling_of=None):
    """leb_pad > 0: every LEB128 of the class data, the encoded_catch_handler lists (list size, handler
    size, type_idx, addr, catch_all_addr) and the string sizes is written with that many extra bytes —
    legal, non-minimal encodings, so offsets recomputed from re-encoded lengths would drift"""
    b = A.DexBuilder()
    b.extra_strings += ["a", "b", "hello"]
    methods = [A.Method("callee", "V", (), 0x9, A.Code(1, 0, 0, [("return-void",)]))]
    for k, sp in enumerate(specs):
        methods.append(A.Method(f"m{k}", "V", (), 0x9, A.Code(
            8, 0, 2, asm_items(sp["items"]),
            tries=[A.Try(t[0], t[1], [(h[0], h[1]) for h in t[2]], t[3]) for t in sp["tries"]])))
    if sibling_of is not None:
        methods.append(A.Method("sib", "V", (), 0x9, A.Code(8, 0, 2, [("nop",), ("nop",), ("return-void",)])))
    b.add_class(GEN_CLASS, static_fields=[A.Field("X", "I", 0x9)], direct_methods=methods)
    data = b.build(shared_handlers=shared_handlers, leb_pad=leb_pad)
    if sibling_of is not None:
        data = share_code_item(data, f"m{sibling_of}", "sib") or data
    return data, b


def has_payload_user(sp):
    return any(isinstance(i, list) and i[0] in ("packed-switch", "sparse-switch", "fill-array-data") for i in sp["items"])


def retarget(sp, rng):
    """the same method with other payload targets (same layout): targets rotated / reversed / collapsed"""
    out = json.loads(json.dumps(sp))
    for it in out["items"]:
        if isinstance(it, list) and it[0] in ("packed-switch-payload", "sparse-switch-payload") and len(it[2]) >= 1:
            t = it[2]
            how = rng.randrange(3)
            it[2] = (t[1:] + t[:1]) if how == 0 and len(set(t)) > 1 else [t[-1]] * len(t) if how == 1 else list(reversed(t))
            if it[2] == t:
                it[2] = [t[0]] * (len(t) - 1) + [0]          # some case goes back to the switch itself
    return out


def make_long(sp, rng):
    """a generated method behind a sled of 520-2000 short instructions (>= 512 instructions in all), try
    table shifted along, and at least one payload reference that is NOT an instruction boundary: inside the
    payload's data, one unit short, past the end of the code, before its start"""
    n = rng.choice((520, 600, 800, 1200, 2000))
    sled = {"sled": n, "seed": rng.randrange(1 << 30)}
    shift = sum(A.ins_units(i[0]) for i in sled_items(n, sled["seed"]))
    items = [sled] + json.loads(json.dumps(sp["items"]))
    tries = [[a + shift, c, [[t, h + shift] for t, h in hs], None if ca is None else ca + shift]
             for a, c, hs, ca in sp["tries"]]
    _, offs = A.assemble(asm_items(items, symbolic=False))
    # item_offsets are per assemble() item: the sled occupies the first len(sled_items) entries
    nsled = len(sled_items(n, sled["seed"]))
    users = [(k, offs.item_offsets[nsled + k - 1]) for k, it in enumerate(items)
             if isinstance(it, list) and it[0] in ("packed-switch", "sparse-switch", "fill-array-data")]
    lab = [(k, at) for k, at in users if isinstance(items[k][2], str)]
    for k, at in (rng.sample(lab, min(len(lab), rng.choice((1, 1, 2)))) if lab else users[:1]):
        it = items[k]
        base = offs[it[2]] if isinstance(it[2], str) else at + it[2]
        how = rng.randrange(5)
        tgt = (base + 1, base + 3, base - 1, offs.size_units + rng.choice((0, 1, 4)), -1 - rng.randrange(3))[how]
        items[k] = [it[0], it[1], tgt - at]
    return {"items": items, "tries": tries}


# public routes by which the instruction list of a method's code item can be replaced
#   em       EncodedMethod.set_instructions(new)                   (the owning method)
#   dcode    method.get_code().get_bc().set_instructions(new)      (DCode directly; DalvikCode has no setter)
#   sib      sibling.set_instructions(new)                         (another encoded_method sharing the code item)
#   insn     DCode.set_insn(bytes) + DCode.set_instructions(None)  (new raw buffer, cache dropped -> re-disassembled)
ROUTES = ("em", "dcode", "sib", "insn", "dcode", "sib")


def gen_history(rng, long=False):
    """three method bodies (A, B, A with other payload targets) and a sequence of edits of one of them:
    step = [source body 0..2, number of nops prepended, direct lookups before the edit (bool)]"""
    def one():
        while True:
            try:
                sp = gen_spec(rng)
                if has_payload_user(sp):
                    A.assemble(asm_items(sp["items"], symbolic=False))
                    return make_long(sp, rng) if long else sp
            except ValueError:
                continue
    a, b = one(), one()
    if rng.random() < 0.75:
        a["tries"], b["tries"] = [], []
    specs = [a, b, retarget(a, rng)]
    target = rng.choice((0, 0, 1, 2))
    steps = []
    for _ in range(rng.choice((1, 2, 2, 3, 4))):
        steps.append([rng.randrange(3), rng.choice((0, 0, 2, 2, 4, 1)), rng.random() < 0.3, rng.choice(ROUTES)])
    if rng.random() < 0.5:
        steps.append([target, 0, False, rng.choice(ROUTES)])   # and back to the original body
    return {"specs": specs, "target": target, "steps": steps, "shared_handlers": rng.random() < 0.5,
            "sibling": True}


def spec_tries(sp):
    return [(t[0], t[1], [(tok(h[0]), h[1]) for h in t[2]] + ([(tok(THROWABLE), t[3])] if t[3] is not None else []))
            for t in sp["tries"]]


# ------------------------------------------------------------------------------ shipped files
def shipped_dex_files(quick):
    base = os.path.join(REPO, "tests", "data", "APK")
    out = []
    for f in sorted(glob.glob(os.path.join(base, "*.dex"))):
        out.append((os.path.basename(f), 0, f))
    apks = sorted(glob.glob(os.path.join(base, "*.apk")))
    if quick:
        apks = [a for a in apks if os.path.basename(a) in ("hello-world.apk", "Test-debug.apk")]
    for f in apks:
        out.append((os.path.basename(f), None, f))
    return out


def read_dexes(path, which):
    if which == 0:
        return [open(path, "rb").read()]
    try:
        z = zipfile.ZipFile(path)
        names = sorted(n for n in z.namelist() if n.startswith("classes") and n.endswith(".dex") and "/" not in n)
        return [z.read(n) for n in names]
    except Exception:  # noqa
        return []


def method_key(m):
    return f"{m.get_class_name()}->{m.get_name()}{m.get_descriptor()}"


# ------------------------------------------------------------------------------ the check
class Run:
    def __init__(self, ck: Check, prop: str):
        self.ck, self.prop, self.cmd = ck, prop, CMD[prop]
        self.reqs, self.real, self.post = [], [], []
        self.dist = {"methods": 0, "blocks": 0, "wf": 0, "not_wf": 0, "with_tries": 0, "with_switch": 0,
                     "misaligned_or_missing_payload": 0, "try_ends_inside_block": 0, "gen_methods": 0,
                     "shipped_methods": 0, "sweep_disagrees": 0}
        self.distinct = set()
        self.samples = []
        self.judge = O.JUDGES[prop]

    def one_method(self, d, dx, m, xidx, fkeys, code_bytes, tries, case, ma=None, xrefs=True):
        ck = self.ck
        args, insns = method_request(d, m, fkeys, xrefs)
        view = real_view(dx, m, insns, xidx, ma)
        self.reqs.append(f"{self.cmd} {args}")
        self.real.append(canon(view, self.prop))
        if self.prop == "C40":
            pairs, o, want = list(m.get_instructions_idx()), 0, []
            for i in insns:
                want.append((o, id(i)))
                o += i.get_length()
            if [(a, id(b)) for a, b in pairs] != want:
                ck.fail(case, "get_instructions_idx does not yield the running offsets of the current instruction list",
                        None, [a for a, _ in want][:40], [a for a, _ in pairs][:40])
        self.post.append(d)
        F = O.Facts(code_bytes, tries)
        D = self.dist
        D["methods"] += 1
        D["blocks"] += len(view["blocks"])
        D["wf" if F.wf else "not_wf"] += 1
        D["with_tries"] += bool(tries)
        D["with_switch"] += any(f == "switch" for f in F.flow.values())
        D["misaligned_or_missing_payload"] += not F.payload_ok
        D["sweep_disagrees"] += not F.sweep_ok
        fails = self.judge(F, view)
        for what, key, exp, obs in fails[:3]:
            if key == O.KEY_D6:
                D["try_ends_inside_block"] += 1
            ck.fail(case, what, key, exp, obs)
        if len(view["blocks"]) > 1 or tries:
            self.distinct.add(sha(args))
        if len(self.samples) < 3 and len(view["blocks"]) >= 3 and (self.prop != "C12" or tries):
            self.samples.append({"case": case if len(json.dumps(case)) < 600 else {"kind": case.get("kind")},
                                 "real": self.real[-1][:300]})

    def run_specs(self, specs, shared, leb_pad=0):
        data, b = build_dex(specs, shared, leb_pad)
        d, dx = load_dex(data)
        xidx, fkeys = xref_index(dx), field_keys(d)
        by_name = {m.get_name(): m for m in d.get_encoded_methods()}
        for k, sp in enumerate(specs):
            m = by_name[f"m{k}"]
            ref = (GEN_CLASS, f"m{k}", "V", ())
            self.one_method(d, dx, m, xidx, fkeys, b.code_bytes[ref], spec_tries(sp),
                            {"kind": "gen", "spec": sp, "shared_handlers": shared, "leb_pad": leb_pad})
            self.dist["gen_methods"] += 1
            self.dist["gen_methods_overlong_leb128"] = self.dist.get("gen_methods_overlong_leb128", 0) + bool(leb_pad)

    def run_history(self, h, upto=None):
        """analysis -> set_instructions -> fresh MethodAnalysis … on ONE EncodedMethod"""
        from androguard.core import dex
        from androguard.core.analysis import analysis
        data, b = build_dex(h["specs"], h["shared_handlers"], sibling_of=h["target"] if h.get("sibling") else None)
        d, dx = load_dex(data)                                   # first analysis of every method (+ xrefs)
        fkeys = field_keys(d)
        by_name = {m.get_name(): m for m in d.get_encoded_methods()}
        m = by_name[f"m{h['target']}"]
        sib = by_name.get("sib")
        if sib is not None and sib.get_code_off() != m.get_code_off():
            sib = None
        self.dist["histories_shared_code_item"] = self.dist.get("histories_shared_code_item", 0) + (sib is not None)
        bc = m.get_code().get_bc()
        tries = spec_tries(h["specs"][h["target"]])              # the code item keeps its own try table
        for k, st in enumerate(h["steps"]):
            src, nops, poke = st[:3]
            route = st[3] if len(st) > 3 else "em"
            if upto is not None and k > upto:
                break
            if poke:                                             # lookups and mutators that change nothing
                bc.get_ins_off(0), bc.off_to_pos(0), bc.get_ins_off(2), list(m.get_instructions_idx())
                bc.add_inote("x", 0), bc.seek(0), m.add_note("x"), m.reload()
                bc = m.get_code().get_bc()
            code = b"\x00\x00" * nops + b.code_bytes[(GEN_CLASS, f"m{src}", "V", ())]
            new = list(dex.LinearSweepAlgorithm.get_instructions(bc.CM, len(code) // 2, code, 0))
            if route == "sib" and sib is None:
                route = "dcode"
            if route == "em":
                m.set_instructions(new)
            elif route == "dcode":
                bc.set_instructions(new)
            elif route == "sib":
                sib.set_instructions(new)
            else:
                bc.set_insn(code)
                bc.set_instructions(None)
            self.dist["route_" + route] = self.dist.get("route_" + route, 0) + 1
            dx2 = analysis.Analysis(d)                           # the same DEX object analysed again
            dx2.create_xref()
            self.one_method(d, dx2, m, xref_index(dx2), fkeys, code, tries, dict(h, kind="hist", upto=k))
            self.dist["history_steps"] = self.dist.get("history_steps", 0) + 1
        self.dist["histories"] = self.dist.get("histories", 0) + 1

    def run_file(self, name, which, path, only=None):
        for k, data in enumerate(read_dexes(path, which)):
            try:
                d, dx = load_dex(data)
            except Exception:  # noqa
                self.ck.notes.append(f"{name}: not analysable, skipped")
                continue
            xidx, fkeys = xref_index(dx), field_keys(d)
            for m in d.get_encoded_methods():
                if m.get_code() is None:
                    continue
                key = method_key(m)
                if only is not None and key != only:
                    continue
                self.one_method(d, dx, m, xidx, fkeys, bytes(m.get_code().get_bc().get_insn()), parsed_tries(d, m),
                                {"kind": "file", "file": name, "dex": k, "method": key})
                self.dist["shipped_methods"] += 1

    def flush(self, drv):
        if not self.reqs:
            return 0
        model = drv.ask(self.reqs)
        model = [post_model(r, self.prop, d) for r, d in zip(model, self.post)]
        self.ck.compare("cfg-" + self.cmd, [r if len(r) < 4000 else r[:4000] + "…" for r in self.reqs], self.real, model)
        n = len(self.reqs)
        self.reqs, self.real, self.post = [], [], []
        return n


def replay_case(run: Run, case):
    if case.get("kind") == "gen":
        run.run_specs([case["spec"]], case.get("shared_handlers", False), case.get("leb_pad", 0))
    elif case.get("kind") == "hist":
        run.run_history(case, upto=case.get("upto"))
    elif case.get("kind") == "file":
        base = os.path.join(REPO, "tests", "data", "APK", case["file"])
        run.run_file(case["file"], 0 if case["file"].endswith(".dex") else None, base, only=case["method"])


def corpus_cases(prop):
    out = []
    for f in sorted(glob.glob(os.path.join(VERIF, "corpus", prop, "*.json"))):
        out.append((os.path.basename(f), json.load(open(f))))
    return out


def run(ck: Check, prop: str, pins=None):
    from harness.fw import quiet_androguard
    quiet_androguard()
    ck.pins_changed(pins or PINS)       # a changed modelled function is no verdict: it only deepens the search
    big = ck.escalated and ck.quick
    ck.run_gen("cfgops")
    ck.prove(exes=["drv_C10"])
    drv = Driver("drv_C10")
    r = Run(ck, prop)
    ck.rule = ("one evaluation = one method analysed by the real Analysis, compared with the Lean model (" + CMD[prop] +
               " view) and judged by the specification oracle; generated methods (1-8 labelled segments, random "
               "terminators, shared/misaligned/missing payloads, 0-3 try ranges cut at random instruction boundaries) "
               "and all methods with code of the shipped DEX files (quick: *.dex + 2 APKs; thorough: every APK). "
               "histories: one EncodedMethod analysed, edited 1-5 times through set_instructions (nops prepended, "
               "another body, other payload targets, back to the original) and analysed afresh after every edit. "
               "long methods: 12 methods (+3 histories) of 520-2000 instructions with on-boundary, shared, misaligned "
               "and off-boundary payload references, in every run. "
               "distinct = distinct request line of a method with more than one block or a try table")
    # corpus first
    for name, c in corpus_cases(prop):
        replay_case(r, c["case"] if "case" in c else c)
    n = r.flush(drv)
    ngen = (10000 if big else 2500) if ck.quick else 60000
    nhist = (3000 if big else 300) if ck.quick else 6000
    for _ in range(nhist):
        r.run_history(gen_history(ck.rng))
    n += r.flush(drv)
    # long methods (>= 512 instructions): always, also in quick — a handful is enough, the driver is fast
    nlong, nlonghist = ((60, 12) if big else (12, 3)) if ck.quick else (300, 60)
    specs = []
    while len(specs) < nlong:
        try:
            sp = gen_spec(ck.rng)
            if not has_payload_user(sp):
                continue
            sp = make_long(sp, ck.rng)
            A.assemble(asm_items(sp["items"], symbolic=False))
            specs.append(sp)
        except ValueError:
            continue
    for k in range(0, nlong, 6):
        r.run_specs(specs[k:k + 6], ck.rng.random() < 0.5, ck.rng.choice((0, 0, 1)))
    for _ in range(nlonghist):
        r.run_history(gen_history(ck.rng, long=True))
    r.dist["long_methods"] = nlong
    r.dist["long_histories"] = nlonghist
    n += r.flush(drv)
    per = 50
    for _ in range(ngen // per):
        specs = []
        while len(specs) < per:
            try:
                sp = gen_spec(ck.rng)
                A.assemble(asm_items(sp["items"], symbolic=False))
                specs.append(sp)
            except ValueError:
                continue
        r.run_specs(specs, ck.rng.random() < 0.5, ck.rng.choice((0, 0, 1, 2)))
        if len(r.reqs) >= 20000:
            n += r.flush(drv)
    for name, which, path in shipped_dex_files(ck.quick):
        r.run_file(name, which, path)
        n += r.flush(drv)
    n += r.flush(drv)
    ck.cover(evaluations=n, distinct=r.distinct, samples=r.samples, dist=r.dist)
    if prop == "C12":
        ck.partial.append("the completeness half at full strength (exc_complete_full) is false of the code: "
                          "exc_complete_refuted; known finding try-ends-inside-later-block (D6). "
                          "exc_complete_partial proves every other shape")
    ck.assumptions.append("the instruction stream (length, opcode, ref_off, payload kind/targets) is the real "
                          "disassembly's: decoding is C01/C02's subject; try items are the parsed ones (C08)")
    ck.assumptions.append("the oracle judges successors, handlers and leader coverage only on well-formed methods "
                          "(targets, try starts and handlers are instruction offsets, payloads 4-byte aligned and of "
                          "the right kind, try ranges non-empty and disjoint), DESIGN section 10")
    return r


def replay(ck: Check, rp, prop: str):
    from harness.fw import quiet_androguard
    quiet_androguard()
    c = rp.get("case")
    if c is None:
        fd = rp.get("first_divergence", {})
        print("request:", fd.get("request", "")[:2000])
        print("real:   ", fd.get("real"))
        print("model:  ", fd.get("model"))
        return 0
    r = Run(ck, prop)
    replay_case(r, c)
    print("case:", json.dumps(c)[:3000])
    for q, a in zip(r.reqs, r.real):
        print("request:", q[:2000])
        print("real:   ", a)
    try:
        print("model:  ", [post_model(x, prop, d) for x, d in zip(Driver("drv_C10").ask(r.reqs), r.post)])
    except Exception as e:  # noqa
        print("model unavailable:", e)
    for f in ck.failures:
        print("FAIL:", f["what"], "| key:", f["key"], "| expected:", f["expected"], "| observed:", f["observed"])
    return 1 if ck.failures else 0
