"""dexasm -- an independent DEX file writer and Dalvik instruction assembler.

Written only from the public "Dalvik executable format" and "Dalvik bytecode"
specifications.  It shares no code with androguard and must never import it:
it is the *generator* side of differential tests against androguard's parser.

Quick tour (see the docstrings for details)::

    from harness.dexasm import *

    # (a) code as a list of assemble() items with symbolic pool references and labels
    b = DexBuilder()
    b.add_class('LFoo;', static_fields=[Field('X', 'I', 0x9, init=(VALUE_INT, 7))],
                direct_methods=[Method('main', 'V', ('[Ljava/lang/String;',), 0x9, Code(3, 1, 2, [
                    'start:',
                    ('sget-object', 0, FieldRef('Ljava/lang/System;', 'out', 'Ljava/io/PrintStream;')),
                    ('const-string', 1, StringRef('hello')),
                    ('invoke-virtual', (0, 1), MethodRef('Ljava/io/PrintStream;', 'println', 'V',
                                                         ('Ljava/lang/String;',))),
                    'end:',
                    ('return-void',),
                    'h:',
                    ('move-exception', 2), ('throw', 2),
                ], tries=[Try('start', 'end', [('Ljava/lang/Exception;', 'h')], catch_all=None)]))])
    data = b.build()            # bytes of a complete, checksummed .dex file
    b.layout                    # offsets of every item that was written
    b.code_bytes, b.code_tries, b.code_labels   # what was written, keyed by method ref

    # (b) raw bytes computed after the pools are frozen
    b = DexBuilder()
    b.extra_strings.append('hello')                       # force pool entries
    b.add_class('LBar;', virtual_methods=[Method('f', 'I', ('J', 'D'), 0x1, Code(
        6, 5, 0, lambda b: ins('const-string', 0, b.string_idx('hello')) + ins('return', 0)))])
    b.freeze(); b.string_idx('hello'); b.strings; b.types; b.protos; b.fields; b.methods
    data = b.build(shared_handlers=True, leb_pad=1, version=b'039', map_order=[TYPE_MAP_LIST])

    # (c) instruction level
    ins('const/4', 0, -1); ins(0x0e); encode_format('22c', 0x52, 1, 2, 0x33); OPCODES[0x6e]
    code, labels = assemble(['top:', ('if-eqz', 0, 'top'), ('packed-switch', 0, 'tab'), ('return-void',),
                             'tab:', ('packed-switch-payload', 10, ['top', 'top'])])
    list(sweep(code))           # independent linear-sweep decoder
    fix_checksum(patched)       # after patching bytes for a negative test

Conventions
-----------
* Strings are Python ``str``.  Code points above U+FFFF stand for a surrogate
  pair; lone surrogates (``'\\ud800'``) are allowed.  All strings are normalised
  (valid adjacent surrogate pairs are fused) so that one UTF-16 sequence has
  one Python representation.
* Types are descriptors (``'I'``, ``'[J'``, ``'Lfoo/Bar;'``).
* A field reference is ``(class_desc, name, type_desc)``; a method reference is
  ``(class_desc, name, ret_desc, params_tuple)``; a proto is ``(ret_desc, params_tuple)``.
* All instruction addresses / branch offsets are in 16-bit code units.
"""

from __future__ import annotations

import hashlib
import struct
import zlib
from collections import namedtuple

__all__ = [
    # leb128 / strings / values
    'uleb128', 'sleb128', 'uleb128p1', 'mutf8_encode', 'utf16_units', 'norm_str',
    'encoded_value', 'encoded_array', 'encoded_annotation', 'EncodedValue',
    'VALUE_BYTE', 'VALUE_SHORT', 'VALUE_CHAR', 'VALUE_INT', 'VALUE_LONG', 'VALUE_FLOAT',
    'VALUE_DOUBLE', 'VALUE_METHOD_TYPE', 'VALUE_METHOD_HANDLE', 'VALUE_STRING', 'VALUE_TYPE',
    'VALUE_FIELD', 'VALUE_METHOD', 'VALUE_ENUM', 'VALUE_ARRAY', 'VALUE_ANNOTATION',
    'VALUE_NULL', 'VALUE_BOOLEAN', 'VALUE_NAMES',
    # instructions
    'OPCODES', 'MNEMONICS', 'FORMAT_UNITS', 'REF_KIND', 'ins', 'encode_format', 'ins_units',
    'packed_switch_payload', 'sparse_switch_payload', 'fill_array_data_payload',
    'assemble', 'Offsets', 'decode_format', 'sweep',
    'StringRef', 'TypeRef', 'FieldRef', 'MethodRef', 'ProtoRef',
    # file model
    'Field', 'Method', 'Code', 'Try', 'Annotation', 'ClassDef', 'DexBuilder',
    'fix_checksum', 'parse_header', 'HEADER_FIELDS', 'debug_info_item', 'shorty', 'NO_INDEX',
    'UNUSED_OPCODES',
    'TYPE_HEADER_ITEM', 'TYPE_STRING_ID_ITEM', 'TYPE_TYPE_ID_ITEM', 'TYPE_PROTO_ID_ITEM',
    'TYPE_FIELD_ID_ITEM', 'TYPE_METHOD_ID_ITEM', 'TYPE_CLASS_DEF_ITEM', 'TYPE_CALL_SITE_ID_ITEM',
    'TYPE_METHOD_HANDLE_ITEM', 'TYPE_MAP_LIST', 'TYPE_TYPE_LIST',
    'TYPE_ANNOTATION_SET_REF_LIST', 'TYPE_ANNOTATION_SET_ITEM', 'TYPE_CLASS_DATA_ITEM',
    'TYPE_CODE_ITEM', 'TYPE_STRING_DATA_ITEM', 'TYPE_DEBUG_INFO_ITEM', 'TYPE_ANNOTATION_ITEM',
    'TYPE_ENCODED_ARRAY_ITEM', 'TYPE_ANNOTATIONS_DIRECTORY_ITEM', 'MAP_TYPE_NAMES',
]

NO_INDEX = 0xFFFFFFFF

# ----------------------------------------------------------------------------------------
# LEB128
# ----------------------------------------------------------------------------------------


def _pad_leb(out: bytearray, fill: int, pad_to):
    """Extend a canonical LEB128 encoding to exactly ``pad_to`` bytes (non-canonical form).

    ``fill`` is 0x00 for non-negative values and 0x7f for negative signed values."""
    if pad_to is None or pad_to <= len(out):
        return bytes(out)
    out[-1] |= 0x80
    while len(out) < pad_to - 1:
        out.append(0x80 | fill)
    out.append(fill)
    return bytes(out)


def uleb128(v: int, pad_to: int | None = None) -> bytes:
    """Unsigned LEB128.  ``pad_to=n`` gives a non-canonical n-byte encoding of the same value
    (continuation bits set, zero payload groups appended); ignored if n is not larger."""
    if v < 0:
        raise ValueError('uleb128 of negative value %d' % v)
    out = bytearray()
    while True:
        b = v & 0x7F
        v >>= 7
        if v:
            out.append(b | 0x80)
        else:
            out.append(b)
            break
    return _pad_leb(out, 0x00, pad_to)


def sleb128(v: int, pad_to: int | None = None) -> bytes:
    """Signed LEB128 (two's complement groups of 7 bits, sign taken from bit 6 of the last
    byte).  ``pad_to=n`` sign-extends to a non-canonical n-byte encoding."""
    neg = v < 0
    out = bytearray()
    while True:
        b = v & 0x7F
        v >>= 7  # arithmetic shift
        done = (v == 0 and not (b & 0x40)) or (v == -1 and (b & 0x40))
        if done:
            out.append(b)
            break
        out.append(b | 0x80)
    return _pad_leb(out, 0x7F if neg else 0x00, pad_to)


def uleb128p1(v: int, pad_to: int | None = None) -> bytes:
    """uleb128p1: the encoding of ``v + 1`` as uleb128; ``v`` may be -1 (encoded as 0)."""
    if v < -1:
        raise ValueError('uleb128p1 of %d' % v)
    return uleb128(v + 1, pad_to)


# ----------------------------------------------------------------------------------------
# UTF-16 / MUTF-8
# ----------------------------------------------------------------------------------------


def utf16_units(s) -> list:
    """UTF-16 code units of a ``str`` (lone surrogates kept, astral chars split), or the
    list itself if a sequence of ints is given."""
    if not isinstance(s, str):
        units = [int(u) for u in s]
        for u in units:
            if not 0 <= u <= 0xFFFF:
                raise ValueError('not a UTF-16 code unit: %r' % (u,))
        return units
    out = []
    for ch in s:
        c = ord(ch)
        if c > 0xFFFF:
            c -= 0x10000
            out.append(0xD800 | (c >> 10))
            out.append(0xDC00 | (c & 0x3FF))
        else:
            out.append(c)
    return out


def norm_str(s) -> str:
    """Canonical Python ``str`` for a UTF-16 sequence (str or list of units): valid adjacent
    surrogate pairs become one astral character, lone surrogates stay as they are."""
    units = utf16_units(s)
    out = []
    i = 0
    n = len(units)
    while i < n:
        u = units[i]
        if 0xD800 <= u <= 0xDBFF and i + 1 < n and 0xDC00 <= units[i + 1] <= 0xDFFF:
            out.append(chr(0x10000 + ((u - 0xD800) << 10) + (units[i + 1] - 0xDC00)))
            i += 2
        else:
            out.append(chr(u))
            i += 1
    return ''.join(out)


def mutf8_encode(units_or_str) -> bytes:
    """MUTF-8 encoding (without the terminating NUL byte) of a ``str`` or a list of UTF-16
    code units.  Each UTF-16 code unit is encoded on its own: U+0000 -> C0 80,
    U+0001..U+007F -> 1 byte, U+0080..U+07FF -> 2 bytes, everything else (including both
    halves of a surrogate pair, and lone surrogates) -> 3 bytes."""
    out = bytearray()
    for u in utf16_units(units_or_str):
        if u == 0:
            out += b'\xc0\x80'
        elif u < 0x80:
            out.append(u)
        elif u < 0x800:
            out.append(0xC0 | (u >> 6))
            out.append(0x80 | (u & 0x3F))
        else:
            out.append(0xE0 | (u >> 12))
            out.append(0x80 | ((u >> 6) & 0x3F))
            out.append(0x80 | (u & 0x3F))
    return bytes(out)


# ----------------------------------------------------------------------------------------
# encoded_value
# ----------------------------------------------------------------------------------------

VALUE_BYTE = 0x00
VALUE_SHORT = 0x02
VALUE_CHAR = 0x03
VALUE_INT = 0x04
VALUE_LONG = 0x06
VALUE_FLOAT = 0x10
VALUE_DOUBLE = 0x11
VALUE_METHOD_TYPE = 0x15
VALUE_METHOD_HANDLE = 0x16
VALUE_STRING = 0x17
VALUE_TYPE = 0x18
VALUE_FIELD = 0x19
VALUE_METHOD = 0x1A
VALUE_ENUM = 0x1B
VALUE_ARRAY = 0x1C
VALUE_ANNOTATION = 0x1D
VALUE_NULL = 0x1E
VALUE_BOOLEAN = 0x1F

VALUE_NAMES = {
    VALUE_BYTE: 'BYTE', VALUE_SHORT: 'SHORT', VALUE_CHAR: 'CHAR', VALUE_INT: 'INT',
    VALUE_LONG: 'LONG', VALUE_FLOAT: 'FLOAT', VALUE_DOUBLE: 'DOUBLE',
    VALUE_METHOD_TYPE: 'METHOD_TYPE', VALUE_METHOD_HANDLE: 'METHOD_HANDLE',
    VALUE_STRING: 'STRING', VALUE_TYPE: 'TYPE', VALUE_FIELD: 'FIELD', VALUE_METHOD: 'METHOD',
    VALUE_ENUM: 'ENUM', VALUE_ARRAY: 'ARRAY', VALUE_ANNOTATION: 'ANNOTATION',
    VALUE_NULL: 'NULL', VALUE_BOOLEAN: 'BOOLEAN',
}

_SIGNED_MAX = {VALUE_BYTE: 1, VALUE_SHORT: 2, VALUE_INT: 4, VALUE_LONG: 8}
_UNSIGNED_MAX = {VALUE_CHAR: 2, VALUE_METHOD_TYPE: 4, VALUE_METHOD_HANDLE: 4, VALUE_STRING: 4,
                 VALUE_TYPE: 4, VALUE_FIELD: 4, VALUE_METHOD: 4, VALUE_ENUM: 4}

EncodedValue = namedtuple('EncodedValue', 'value_type value width', defaults=(None,))
EncodedValue.__doc__ = """(value_type, value, width=None).  ``value`` by type:

* BYTE/SHORT/INT/LONG: signed int (or the unsigned bit pattern); CHAR: int or 1-char str
* FLOAT/DOUBLE: Python float, or an int taken as the raw IEEE bit pattern
* BOOLEAN: bool; NULL: ignored
* STRING/TYPE/FIELD/METHOD/ENUM/METHOD_TYPE/METHOD_HANDLE: an int pool index; inside a
  :class:`DexBuilder` also the symbolic form (str / descriptor / field ref / method ref /
  proto), which is interned and resolved by the builder
* ARRAY: list of EncodedValue-like tuples
* ANNOTATION: (type, [(name, EncodedValue-like), ...]) -- type/name ints or symbolic
``width`` forces the number of value bytes (sign-/zero-extended, or more low-order bytes
for FLOAT/DOUBLE); None gives the minimal encoding."""


def _min_signed(v):
    n = 1
    while not -(1 << (8 * n - 1)) <= v < (1 << (8 * n - 1)):
        n += 1
    return n


def _min_unsigned(v):
    n = 1
    while v >= (1 << (8 * n)):
        n += 1
    return n


def encoded_value(value_type: int, value=None, width: int | None = None, resolver=None,
                  leb_pad: int = 0) -> bytes:
    """Encode one ``encoded_value`` (header byte ``(value_arg << 5) | value_type`` followed by
    the value bytes, little-endian).

    Minimal width by default; ``width`` forces the number of value bytes (1..max for the
    type; ValueError if the value does not fit).  Signed types are sign-extended, CHAR and
    index types zero-extended, FLOAT/DOUBLE are "zero-extended to the right": the stored
    bytes are the *high-order* bytes of the IEEE pattern.  ``resolver`` (a frozen
    DexBuilder) turns symbolic index values into ints.  ``leb_pad`` pads the uleb128s of
    nested arrays/annotations with that many extra bytes."""
    vt = value_type
    if vt in _SIGNED_MAX:
        mx = _SIGNED_MAX[vt]
        v = int(value)
        if v >= (1 << (8 * mx - 1)):  # accept unsigned bit pattern
            if v >= (1 << (8 * mx)):
                raise ValueError('value too large for %s' % VALUE_NAMES[vt])
            v -= 1 << (8 * mx)
        if v < -(1 << (8 * mx - 1)):
            raise ValueError('value too small for %s' % VALUE_NAMES[vt])
        n = _min_signed(v)
        if width is not None:
            if width < n or width > mx:
                raise ValueError('width %d impossible for %s %d' % (width, VALUE_NAMES[vt], v))
            n = width
        return bytes([((n - 1) << 5) | vt]) + (v & ((1 << (8 * n)) - 1)).to_bytes(n, 'little')
    if vt in _UNSIGNED_MAX:
        mx = _UNSIGNED_MAX[vt]
        if vt == VALUE_CHAR and isinstance(value, str):
            value = utf16_units(value)[0]
        if not isinstance(value, int):
            if resolver is None:
                raise ValueError('symbolic %s value needs a resolver' % VALUE_NAMES[vt])
            value = resolver.resolve_value_index(vt, value)
        v = int(value)
        if v < 0 or v >= (1 << (8 * mx)):
            raise ValueError('value out of range for %s' % VALUE_NAMES[vt])
        n = _min_unsigned(v)
        if width is not None:
            if width < n or width > mx:
                raise ValueError('width %d impossible for %s %d' % (width, VALUE_NAMES[vt], v))
            n = width
        return bytes([((n - 1) << 5) | vt]) + v.to_bytes(n, 'little')
    if vt in (VALUE_FLOAT, VALUE_DOUBLE):
        mx = 4 if vt == VALUE_FLOAT else 8
        if isinstance(value, float):
            raw = struct.pack('<f' if vt == VALUE_FLOAT else '<d', value)
        else:
            raw = int(value).to_bytes(mx, 'little')
        # drop low-order zero bytes (they come first in little-endian order)
        k = 0
        while k < mx - 1 and raw[k] == 0:
            k += 1
        n = mx - k
        if width is not None:
            if width < n or width > mx:
                raise ValueError('width %d impossible for this %s' % (width, VALUE_NAMES[vt]))
            n = width
        return bytes([((n - 1) << 5) | vt]) + raw[mx - n:]
    if vt == VALUE_ARRAY:
        return bytes([vt]) + encoded_array(value, resolver, leb_pad)
    if vt == VALUE_ANNOTATION:
        t, elems = value
        return bytes([vt]) + encoded_annotation(t, elems, resolver, leb_pad)
    if vt == VALUE_NULL:
        return bytes([vt])
    if vt == VALUE_BOOLEAN:
        return bytes([((1 if value else 0) << 5) | vt])
    raise ValueError('unknown value_type 0x%x' % vt)


def _ev(item, resolver, leb_pad):
    if isinstance(item, (bytes, bytearray)):
        return bytes(item)  # pre-encoded, taken verbatim
    return encoded_value(item[0], item[1] if len(item) > 1 else None,
                         item[2] if len(item) > 2 else None, resolver, leb_pad)


def encoded_array(values, resolver=None, leb_pad: int = 0) -> bytes:
    """``encoded_array``: uleb128 size, then the values (EncodedValue-like tuples, or raw
    bytes taken verbatim)."""
    values = list(values)
    out = uleb128(len(values), _lp(len(values), leb_pad))
    for v in values:
        out += _ev(v, resolver, leb_pad)
    return out


def encoded_annotation(type_idx, elements, resolver=None, leb_pad: int = 0) -> bytes:
    """``encoded_annotation``: uleb128 type_idx, uleb128 size, then (uleb128 name_idx,
    encoded_value) pairs sorted by name_idx.  ``elements`` is a list of (name, value) or a
    dict; type/name may be symbolic when a resolver is given."""
    if isinstance(elements, dict):
        elements = list(elements.items())
    if not isinstance(type_idx, int):
        type_idx = resolver.type_idx(type_idx)
    el = []
    for name, v in elements:
        if not isinstance(name, int):
            name = resolver.string_idx(name)
        el.append((name, v))
    el.sort(key=lambda p: p[0])
    out = uleb128(type_idx, _lp(type_idx, leb_pad)) + uleb128(len(el), _lp(len(el), leb_pad))
    for name, v in el:
        out += uleb128(name, _lp(name, leb_pad)) + _ev(v, resolver, leb_pad)
    return out


def _lp(v, leb_pad, signed=False):
    """pad_to argument for a value: canonical length + leb_pad, at most 5 bytes."""
    if not leb_pad:
        return None
    n = len(sleb128(v) if signed else uleb128(v))
    return min(5, n + leb_pad)


# ----------------------------------------------------------------------------------------
# Dalvik opcodes (from the "Dalvik bytecode" document, dex version 039)
# ----------------------------------------------------------------------------------------

def _build_opcodes():
    t = {}

    def put(op, name, fmt):
        assert op not in t, hex(op)
        t[op] = (name, fmt)

    def run(start, fmt, names):
        for i, n in enumerate(names.split()):
            put(start + i, n, fmt)

    put(0x00, 'nop', '10x')
    put(0x01, 'move', '12x')
    put(0x02, 'move/from16', '22x')
    put(0x03, 'move/16', '32x')
    put(0x04, 'move-wide', '12x')
    put(0x05, 'move-wide/from16', '22x')
    put(0x06, 'move-wide/16', '32x')
    put(0x07, 'move-object', '12x')
    put(0x08, 'move-object/from16', '22x')
    put(0x09, 'move-object/16', '32x')
    run(0x0A, '11x', 'move-result move-result-wide move-result-object move-exception')
    put(0x0E, 'return-void', '10x')
    run(0x0F, '11x', 'return return-wide return-object')
    put(0x12, 'const/4', '11n')
    put(0x13, 'const/16', '21s')
    put(0x14, 'const', '31i')
    put(0x15, 'const/high16', '21h')
    put(0x16, 'const-wide/16', '21s')
    put(0x17, 'const-wide/32', '31i')
    put(0x18, 'const-wide', '51l')
    put(0x19, 'const-wide/high16', '21h')
    put(0x1A, 'const-string', '21c')
    put(0x1B, 'const-string/jumbo', '31c')
    put(0x1C, 'const-class', '21c')
    put(0x1D, 'monitor-enter', '11x')
    put(0x1E, 'monitor-exit', '11x')
    put(0x1F, 'check-cast', '21c')
    put(0x20, 'instance-of', '22c')
    put(0x21, 'array-length', '12x')
    put(0x22, 'new-instance', '21c')
    put(0x23, 'new-array', '22c')
    put(0x24, 'filled-new-array', '35c')
    put(0x25, 'filled-new-array/range', '3rc')
    put(0x26, 'fill-array-data', '31t')
    put(0x27, 'throw', '11x')
    put(0x28, 'goto', '10t')
    put(0x29, 'goto/16', '20t')
    put(0x2A, 'goto/32', '30t')
    put(0x2B, 'packed-switch', '31t')
    put(0x2C, 'sparse-switch', '31t')
    run(0x2D, '23x', 'cmpl-float cmpg-float cmpl-double cmpg-double cmp-long')
    run(0x32, '22t', 'if-eq if-ne if-lt if-ge if-gt if-le')
    run(0x38, '21t', 'if-eqz if-nez if-ltz if-gez if-gtz if-lez')
    kinds = ' -wide -object -boolean -byte -char -short'.split(' ')
    run(0x44, '23x', ' '.join('aget' + k for k in kinds) + ' ' + ' '.join('aput' + k for k in kinds))
    run(0x52, '22c', ' '.join('iget' + k for k in kinds) + ' ' + ' '.join('iput' + k for k in kinds))
    run(0x60, '21c', ' '.join('sget' + k for k in kinds) + ' ' + ' '.join('sput' + k for k in kinds))
    inv = 'invoke-virtual invoke-super invoke-direct invoke-static invoke-interface'
    run(0x6E, '35c', inv)
    run(0x74, '3rc', ' '.join(n + '/range' for n in inv.split()))
    run(0x7B, '12x', 'neg-int not-int neg-long not-long neg-float neg-double int-to-long '
                     'int-to-float int-to-double long-to-int long-to-float long-to-double '
                     'float-to-int float-to-long float-to-double double-to-int double-to-long '
                     'double-to-float int-to-byte int-to-char int-to-short')
    binops = []
    for ty, ops in (('int', 'add sub mul div rem and or xor shl shr ushr'),
                    ('long', 'add sub mul div rem and or xor shl shr ushr'),
                    ('float', 'add sub mul div rem'), ('double', 'add sub mul div rem')):
        binops += ['%s-%s' % (o, ty) for o in ops.split()]
    assert len(binops) == 32
    run(0x90, '23x', ' '.join(binops))
    run(0xB0, '12x', ' '.join(n + '/2addr' for n in binops))
    run(0xD0, '22s', 'add-int/lit16 rsub-int mul-int/lit16 div-int/lit16 rem-int/lit16 '
                     'and-int/lit16 or-int/lit16 xor-int/lit16')
    run(0xD8, '22b', 'add-int/lit8 rsub-int/lit8 mul-int/lit8 div-int/lit8 rem-int/lit8 '
                     'and-int/lit8 or-int/lit8 xor-int/lit8 shl-int/lit8 shr-int/lit8 '
                     'ushr-int/lit8')
    put(0xFA, 'invoke-polymorphic', '45cc')
    put(0xFB, 'invoke-polymorphic/range', '4rcc')
    put(0xFC, 'invoke-custom', '35c')
    put(0xFD, 'invoke-custom/range', '3rc')
    put(0xFE, 'const-method-handle', '21c')
    put(0xFF, 'const-method-type', '21c')
    for op in range(256):
        if op not in t:
            t[op] = ('unused-%02x' % op, '10x')
    return t


OPCODES = _build_opcodes()
"""opcode value -> (mnemonic, format id) for all 256 values; the unused ones
(3e-43, 73, 79, 7a, e3-f9) are named ``unused-XX`` with format 10x."""

UNUSED_OPCODES = frozenset(op for op, (n, _) in OPCODES.items() if n.startswith('unused-'))
assert UNUSED_OPCODES == frozenset(list(range(0x3E, 0x44)) + [0x73, 0x79, 0x7A] + list(range(0xE3, 0xFA)))

MNEMONICS = {name: op for op, (name, _) in OPCODES.items()}
"""mnemonic -> opcode value"""

FORMAT_UNITS = {
    '10x': 1, '12x': 1, '11n': 1, '11x': 1, '10t': 1,
    '20t': 2, '20bc': 2, '22x': 2, '21t': 2, '21s': 2, '21h': 2, '21c': 2, '23x': 2, '22b': 2,
    '22t': 2, '22s': 2, '22c': 2, '22cs': 2,
    '30t': 3, '32x': 3, '31i': 3, '31t': 3, '31c': 3, '35c': 3, '35ms': 3, '35mi': 3,
    '3rc': 3, '3rms': 3, '3rmi': 3,
    '45cc': 4, '4rcc': 4, '51l': 5,
}
"""format id -> instruction length in 16-bit code units"""


def _ref_kinds():
    k = {}
    for op, (name, fmt) in OPCODES.items():
        if name.startswith('const-string'):
            k[op] = 'string'
        elif name in ('const-class', 'check-cast', 'instance-of', 'new-instance', 'new-array',
                      'filled-new-array', 'filled-new-array/range'):
            k[op] = 'type'
        elif name[:4] in ('iget', 'iput', 'sget', 'sput'):
            k[op] = 'field'
        elif name.startswith('invoke-polymorphic'):
            k[op] = 'method+proto'
        elif name.startswith('invoke-custom'):
            k[op] = 'call_site'
        elif name.startswith('invoke-'):
            k[op] = 'method'
        elif name == 'const-method-handle':
            k[op] = 'method_handle'
        elif name == 'const-method-type':
            k[op] = 'proto'
    return k


REF_KIND = _ref_kinds()
"""opcode -> kind of constant-pool index it carries ('string', 'type', 'field', 'method',
'method+proto', 'call_site', 'method_handle', 'proto'); opcodes without index are absent."""


def _chk_u(v, bits, what):
    if not 0 <= v < (1 << bits):
        raise ValueError('%s=%r does not fit in %d unsigned bits' % (what, v, bits))
    return v


def _chk_s(v, bits, what):
    """signed field; also accepts the unsigned bit pattern"""
    if -(1 << (bits - 1)) <= v < (1 << (bits - 1)):
        return v & ((1 << bits) - 1)
    if 0 <= v < (1 << bits):
        return v
    raise ValueError('%s=%r does not fit in %d bits' % (what, v, bits))


def _units(*us):
    return struct.pack('<%dH' % len(us), *us)


def encode_format(fmt: str, op: int, *f, pad: int = 0) -> bytes:
    """Low-level encoder: fields in the *letter order of the specification's format table*
    (A, B, C, ...).  Signed fields (literals, branch offsets) accept negative ints or the
    unsigned bit pattern.  ``pad`` is the value put into the ``ØØ`` byte of formats
    10x/20t/30t/32x (0 in valid code; used for nop-payload idents and negative tests).

    ====== =============================== =====================================
    format layout                          fields
    ====== =============================== =====================================
    10x    ØØ|op                           -
    12x    B|A|op                          A, B (4 bit regs)
    11n    B|A|op                          A reg, B signed 4-bit literal
    11x    AA|op                           AA
    10t    AA|op                           AA signed offset
    20t    ØØ|op AAAA                      AAAA signed offset
    20bc   AA|op BBBB                      AA, BBBB
    22x    AA|op BBBB                      AA, BBBB
    21t    AA|op BBBB                      AA, BBBB signed offset
    21s    AA|op BBBB                      AA, BBBB signed literal
    21h    AA|op BBBB                      AA, BBBB (the high 16 bits, raw)
    21c    AA|op BBBB                      AA, BBBB index
    23x    AA|op CC|BB                     AA, BB, CC
    22b    AA|op CC|BB                     AA, BB, CC signed literal
    22t    B|A|op CCCC                     A, B, CCCC signed offset
    22s    B|A|op CCCC                     A, B, CCCC signed literal
    22c    B|A|op CCCC                     A, B, CCCC index
    22cs   B|A|op CCCC                     A, B, CCCC field offset
    30t    ØØ|op AAAAlo AAAAhi             AAAAAAAA signed offset
    32x    ØØ|op AAAA BBBB                 AAAA, BBBB
    31i    AA|op BBBBlo BBBBhi             AA, BBBBBBBB signed literal
    31t    AA|op BBBBlo BBBBhi             AA, BBBBBBBB signed offset
    31c    AA|op BBBBlo BBBBhi             AA, BBBBBBBB index
    35c    A|G|op BBBB F|E|D|C             A, BBBB, C, D, E, F, G   (also 35ms, 35mi)
    3rc    AA|op BBBB CCCC                 AA, BBBB, CCCC           (also 3rms, 3rmi)
    45cc   A|G|op BBBB F|E|D|C HHHH        A, BBBB, C, D, E, F, G, HHHH
    4rcc   AA|op BBBB CCCC HHHH            AA, BBBB, CCCC, HHHH
    51l    AA|op BBBBlo .. BBBBhi          AA, 64-bit signed literal
    ====== =============================== =====================================
    """
    _chk_u(op, 8, 'op')
    _chk_u(pad, 8, 'pad')

    def need(n):
        if len(f) != n:
            raise ValueError('format %s takes %d fields, got %d' % (fmt, n, len(f)))

    if fmt == '10x':
        need(0)
        return _units(op | pad << 8)
    if fmt == '12x':
        need(2)
        return _units(op | _chk_u(f[0], 4, 'A') << 8 | _chk_u(f[1], 4, 'B') << 12)
    if fmt == '11n':
        need(2)
        return _units(op | _chk_u(f[0], 4, 'A') << 8 | _chk_s(f[1], 4, 'B') << 12)
    if fmt == '11x':
        need(1)
        return _units(op | _chk_u(f[0], 8, 'AA') << 8)
    if fmt == '10t':
        need(1)
        return _units(op | _chk_s(f[0], 8, 'AA') << 8)
    if fmt == '20t':
        need(1)
        return _units(op | pad << 8, _chk_s(f[0], 16, 'AAAA'))
    if fmt in ('20bc', '22x', '21c'):
        need(2)
        return _units(op | _chk_u(f[0], 8, 'AA') << 8, _chk_u(f[1], 16, 'BBBB'))
    if fmt in ('21t', '21s', '21h'):
        need(2)
        return _units(op | _chk_u(f[0], 8, 'AA') << 8, _chk_s(f[1], 16, 'BBBB'))
    if fmt == '23x':
        need(3)
        return _units(op | _chk_u(f[0], 8, 'AA') << 8,
                      _chk_u(f[1], 8, 'BB') | _chk_u(f[2], 8, 'CC') << 8)
    if fmt == '22b':
        need(3)
        return _units(op | _chk_u(f[0], 8, 'AA') << 8,
                      _chk_u(f[1], 8, 'BB') | _chk_s(f[2], 8, 'CC') << 8)
    if fmt in ('22t', '22s'):
        need(3)
        return _units(op | _chk_u(f[0], 4, 'A') << 8 | _chk_u(f[1], 4, 'B') << 12,
                      _chk_s(f[2], 16, 'CCCC'))
    if fmt in ('22c', '22cs'):
        need(3)
        return _units(op | _chk_u(f[0], 4, 'A') << 8 | _chk_u(f[1], 4, 'B') << 12,
                      _chk_u(f[2], 16, 'CCCC'))
    if fmt == '30t':
        need(1)
        a = _chk_s(f[0], 32, 'AAAAAAAA')
        return _units(op | pad << 8, a & 0xFFFF, a >> 16)
    if fmt == '32x':
        need(2)
        return _units(op | pad << 8, _chk_u(f[0], 16, 'AAAA'), _chk_u(f[1], 16, 'BBBB'))
    if fmt in ('31i', '31t'):
        need(2)
        b = _chk_s(f[1], 32, 'BBBBBBBB')
        return _units(op | _chk_u(f[0], 8, 'AA') << 8, b & 0xFFFF, b >> 16)
    if fmt == '31c':
        need(2)
        b = _chk_u(f[1], 32, 'BBBBBBBB')
        return _units(op | _chk_u(f[0], 8, 'AA') << 8, b & 0xFFFF, b >> 16)
    if fmt in ('35c', '35ms', '35mi', '45cc'):
        need(8 if fmt == '45cc' else 7)
        a, bbbb, c, d, e, ff, g = f[:7]
        us = [op | _chk_u(g, 4, 'G') << 8 | _chk_u(a, 4, 'A') << 12, _chk_u(bbbb, 16, 'BBBB'),
              _chk_u(c, 4, 'C') | _chk_u(d, 4, 'D') << 4 | _chk_u(e, 4, 'E') << 8
              | _chk_u(ff, 4, 'F') << 12]
        if fmt == '45cc':
            us.append(_chk_u(f[7], 16, 'HHHH'))
        return _units(*us)
    if fmt in ('3rc', '3rms', '3rmi', '4rcc'):
        need(4 if fmt == '4rcc' else 3)
        us = [op | _chk_u(f[0], 8, 'AA') << 8, _chk_u(f[1], 16, 'BBBB'), _chk_u(f[2], 16, 'CCCC')]
        if fmt == '4rcc':
            us.append(_chk_u(f[3], 16, 'HHHH'))
        return _units(*us)
    if fmt == '51l':
        need(2)
        b = _chk_s(f[1], 64, 'B')
        return _units(op | _chk_u(f[0], 8, 'AA') << 8, b & 0xFFFF, (b >> 16) & 0xFFFF,
                      (b >> 32) & 0xFFFF, b >> 48)
    raise ValueError('unknown format %r' % (fmt,))


def _opnum(op_or_mnemonic):
    if isinstance(op_or_mnemonic, int):
        return op_or_mnemonic
    try:
        return MNEMONICS[op_or_mnemonic]
    except KeyError:
        raise ValueError('unknown mnemonic %r' % (op_or_mnemonic,)) from None


def ins(op_or_mnemonic, *operands, fmt: str | None = None) -> bytes:
    """Assemble one instruction.  Operands follow the assembly syntax of the bytecode
    document (destination first), i.e.:

    * register/literal/index/offset fields in spec letter order for all formats except
    * 35c / 35ms / 35mi: ``ins('invoke-virtual', (vC, vD, ...), index)`` -- up to 5 registers,
      A = their count
    * 3rc / 3rms / 3rmi: ``ins('invoke-static/range', range(first, first+count), index)``
      (any sequence of consecutive registers; ``()`` gives count 0 first 0; a pair
      ``('range', first, count)`` is accepted too, for counts that need no materialised list)
    * 45cc: ``ins('invoke-polymorphic', (regs...), method_idx, proto_idx)``; 4rcc likewise with
      a register range.

    Examples: ``ins('const/4', 0, -1)``, ``ins('if-eq', 1, 2, +5)``, ``ins(0x0e)``,
    ``ins('const/high16', 0, 0x7fc0)`` (the BBBB field, not the expanded literal),
    ``ins('const-wide', 2, -1)``, ``ins('goto', -3)``.
    Branch offsets are relative to this instruction, in code units.  ``fmt`` overrides the
    table's format (e.g. to encode an odex-only form)."""
    op = _opnum(op_or_mnemonic)
    f = fmt or OPCODES[op][1]
    if f in ('35c', '35ms', '35mi', '45cc'):
        regs = list(operands[0])
        if len(regs) > 5:
            raise ValueError('at most 5 registers in format %s' % f)
        r = regs + [0] * (5 - len(regs))
        rest = operands[1:]
        if len(rest) != (2 if f == '45cc' else 1):
            raise ValueError('bad operand count for %s' % f)
        fields = [len(regs), rest[0], r[0], r[1], r[2], r[3], r[4]] + list(rest[1:])
        return encode_format(f, op, *fields)
    if f in ('3rc', '3rms', '3rmi', '4rcc'):
        regs = operands[0]
        if isinstance(regs, tuple) and len(regs) == 3 and regs[0] == 'range':
            first, count = regs[1], regs[2]
        else:
            regs = list(regs)
            first, count = (regs[0] if regs else 0), len(regs)
            if regs != list(range(first, first + count)):
                raise ValueError('registers of a /range instruction must be consecutive')
        rest = operands[1:]
        if len(rest) != (2 if f == '4rcc' else 1):
            raise ValueError('bad operand count for %s' % f)
        return encode_format(f, op, count, rest[0], first, *rest[1:])
    return encode_format(f, op, *operands)


def ins_units(op_or_mnemonic) -> int:
    """length in code units of an instruction with this opcode"""
    return FORMAT_UNITS[OPCODES[_opnum(op_or_mnemonic)][1]]


# ---- payloads ---------------------------------------------------------------------------

def packed_switch_payload(first_key: int, targets) -> bytes:
    """packed-switch-payload: ident 0x0100, ushort size, int first_key, int targets[size]
    (targets relative to the address of the *switch instruction*, in code units)."""
    targets = list(targets)
    return (struct.pack('<HHI', 0x0100, _chk_u(len(targets), 16, 'size'), _chk_s(first_key, 32, 'first_key'))
            + b''.join(struct.pack('<I', _chk_s(t, 32, 'target')) for t in targets))


def sparse_switch_payload(keys, targets) -> bytes:
    """sparse-switch-payload: ident 0x0200, ushort size, int keys[size] (the spec wants
    them sorted low-to-high; not enforced here), int targets[size]."""
    keys = list(keys)
    targets = list(targets)
    if len(keys) != len(targets):
        raise ValueError('keys and targets differ in length')
    return (struct.pack('<HH', 0x0200, _chk_u(len(keys), 16, 'size'))
            + b''.join(struct.pack('<I', _chk_s(k, 32, 'key')) for k in keys)
            + b''.join(struct.pack('<I', _chk_s(t, 32, 'target')) for t in targets))


def fill_array_data_payload(element_width: int, data) -> bytes:
    """fill-array-data-payload: ident 0x0300, ushort element_width, uint size, data, padded
    to a whole code unit.  ``data`` is bytes (length a multiple of element_width) or a list
    of ints (each encoded little-endian in element_width bytes, signed or unsigned)."""
    if isinstance(data, (bytes, bytearray)):
        raw = bytes(data)
        if element_width <= 0 or len(raw) % element_width:
            raise ValueError('data length is not a multiple of element_width')
        n = len(raw) // element_width
    else:
        data = list(data)
        n = len(data)
        raw = b''.join(_chk_s(int(v), 8 * element_width, 'element').to_bytes(element_width, 'little')
                       for v in data)
    out = struct.pack('<HHI', 0x0300, _chk_u(element_width, 16, 'element_width'), n) + raw
    if len(out) & 1:
        out += b'\x00'
    return out


# ---- label resolving assembler ------------------------------------------------------------

class Offsets(dict):
    """label -> address in code units.  Extra attributes: ``item_offsets`` (address of every
    input item, in input order), ``size_units`` (total length), ``padding`` (addresses of
    alignment nops inserted before payloads)."""
    item_offsets = ()
    size_units = 0
    padding = ()


_BRANCH_FORMATS = {'10t': 0, '20t': 0, '30t': 0, '21t': 1, '31t': 1, '22t': 2}
_PAYLOADS = ('packed-switch-payload', 'sparse-switch-payload', 'fill-array-data-payload')


def assemble(items, base: int = 0):
    """Tiny two-pass assembler.  ``items`` is a list of

    * ``'name:'`` (a str ending in a colon)    -- defines label ``name`` at this address
    * ``bytes``                               -- raw code units, copied verbatim
    * ``(mnemonic_or_opcode, *operands)``     -- one instruction as for :func:`ins`; the branch
      operand of a 10t/20t/30t/21t/22t/31t instruction may be a label name (str) instead of a
      relative offset
    * ``('packed-switch-payload', first_key, [targets])``,
      ``('sparse-switch-payload', [keys], [targets])`` -- targets may be labels; they are made
      relative to the (unique) packed-switch/sparse-switch instruction that references the
      label directly in front of the payload
    * ``('fill-array-data-payload', element_width, data)``

    Payloads are aligned to an even code-unit address by inserting a ``nop`` in front (the
    label directly before the payload is moved along).  No branch relaxation: pick
    goto / goto/16 / goto/32 yourself; out-of-range offsets raise ValueError.
    ``base`` is the address of the first item (normally 0).

    Returns ``(code_bytes, offsets)`` with ``offsets`` an :class:`Offsets` dict."""
    items = list(items)
    # pass 1: addresses
    addr = base
    labels = {}
    item_offsets = []
    padding = []
    pending_labels = []
    sizes = []
    for it in items:
        if isinstance(it, str):
            if not it.endswith(':'):
                raise ValueError('label definitions end with a colon: %r' % it)
            name = it[:-1]
            if name in labels:
                raise ValueError('duplicate label %r' % name)
            labels[name] = addr
            pending_labels.append((name, len(item_offsets)))
            item_offsets.append(addr)
            sizes.append(0)
            continue
        if isinstance(it, (bytes, bytearray)):
            if len(it) & 1:
                raise ValueError('raw item of odd byte length')
            n = len(it) // 2
        elif it[0] in _PAYLOADS:
            if addr & 1:
                padding.append(addr)
                addr += 1
                for name, k in pending_labels:
                    labels[name] = addr
                    item_offsets[k] = addr
            if it[0] == 'packed-switch-payload':
                n = 4 + 2 * len(list(it[2]))
            elif it[0] == 'sparse-switch-payload':
                n = 2 + 4 * len(list(it[1]))
            else:
                n = len(fill_array_data_payload(it[1], it[2])) // 2
        else:
            n = FORMAT_UNITS[OPCODES[_opnum(it[0])][1]]
        pending_labels = []
        item_offsets.append(addr)
        sizes.append(n)
        addr += n

    def target(x, frm):
        if isinstance(x, str):
            if x not in labels:
                raise ValueError('undefined label %r' % x)
            return labels[x] - frm
        return x

    # which switch instruction refers to which payload address
    switch_of = {}
    for it, at in zip(items, item_offsets):
        if isinstance(it, tuple) and it[0] not in _PAYLOADS:
            op = _opnum(it[0])
            if OPCODES[op][0] in ('packed-switch', 'sparse-switch'):
                t = at + target(it[2], at)
                switch_of.setdefault(t, []).append(at)

    # pass 2: bytes
    out = bytearray()
    cur = base
    for it, at, n in zip(items, item_offsets, sizes):
        if isinstance(it, str):
            continue
        while cur < at:
            out += ins('nop')
            cur += 1
        if isinstance(it, (bytes, bytearray)):
            chunk = bytes(it)
        elif it[0] in ('packed-switch-payload', 'sparse-switch-payload'):
            tg = list(it[2])
            if any(isinstance(t, str) for t in tg):
                refs = switch_of.get(at, [])
                if len(refs) != 1:
                    raise ValueError('payload at %d with label targets is referenced by %d switch '
                                     'instructions (need exactly 1)' % (at, len(refs)))
                tg = [target(t, refs[0]) for t in tg]
            if it[0] == 'packed-switch-payload':
                chunk = packed_switch_payload(it[1], tg)
            else:
                chunk = sparse_switch_payload(it[1], tg)
        elif it[0] == 'fill-array-data-payload':
            chunk = fill_array_data_payload(it[1], it[2])
        else:
            op = _opnum(it[0])
            f = OPCODES[op][1]
            ops = list(it[1:])
            if f in _BRANCH_FORMATS:
                k = _BRANCH_FORMATS[f]
                ops[k] = target(ops[k], at)
            chunk = ins(op, *ops)
        assert len(chunk) == 2 * n, (it, len(chunk), n)
        out += chunk
        cur += n
    res = Offsets(labels)
    res.item_offsets = item_offsets
    res.size_units = cur - base
    res.padding = padding
    return bytes(out), res


# ---- independent decoder (for oracles) -----------------------------------------------------

def _sx(v, bits):
    return v - (1 << bits) if v & (1 << (bits - 1)) else v


def decode_format(fmt: str, units) -> list:
    """Inverse of :func:`encode_format`: the fields (spec letter order, signed fields
    sign-extended) of one instruction given as a sequence of 16-bit code units.  The opcode
    byte is ``units[0] & 0xff``; the ØØ byte of 10x/20t/30t/32x is ignored."""
    u = units
    hi = u[0] >> 8
    if fmt == '10x':
        return []
    if fmt == '12x':
        return [hi & 0xF, hi >> 4]
    if fmt == '11n':
        return [hi & 0xF, _sx(hi >> 4, 4)]
    if fmt == '11x':
        return [hi]
    if fmt == '10t':
        return [_sx(hi, 8)]
    if fmt == '20t':
        return [_sx(u[1], 16)]
    if fmt in ('20bc', '22x', '21c'):
        return [hi, u[1]]
    if fmt in ('21t', '21s', '21h'):
        return [hi, _sx(u[1], 16)]
    if fmt == '23x':
        return [hi, u[1] & 0xFF, u[1] >> 8]
    if fmt == '22b':
        return [hi, u[1] & 0xFF, _sx(u[1] >> 8, 8)]
    if fmt in ('22t', '22s'):
        return [hi & 0xF, hi >> 4, _sx(u[1], 16)]
    if fmt in ('22c', '22cs'):
        return [hi & 0xF, hi >> 4, u[1]]
    if fmt == '30t':
        return [_sx(u[1] | u[2] << 16, 32)]
    if fmt == '32x':
        return [u[1], u[2]]
    if fmt in ('31i', '31t'):
        return [hi, _sx(u[1] | u[2] << 16, 32)]
    if fmt == '31c':
        return [hi, u[1] | u[2] << 16]
    if fmt in ('35c', '35ms', '35mi', '45cc'):
        f = [hi >> 4, u[1], u[2] & 0xF, (u[2] >> 4) & 0xF, (u[2] >> 8) & 0xF, u[2] >> 12, hi & 0xF]
        return f + [u[3]] if fmt == '45cc' else f
    if fmt in ('3rc', '3rms', '3rmi', '4rcc'):
        f = [hi, u[1], u[2]]
        return f + [u[3]] if fmt == '4rcc' else f
    if fmt == '51l':
        return [hi, _sx(u[1] | u[2] << 16 | u[3] << 32 | u[4] << 48, 64)]
    raise ValueError('unknown format %r' % (fmt,))


def sweep(insns: bytes):
    """Linear sweep over an instruction stream, straight from the specification.  Yields
    ``(addr_units, mnemonic, fmt, fields, raw_bytes)``.  Payload pseudo-instructions (units
    0x0100 / 0x0200 / 0x0300) are yielded with mnemonic ``'packed-switch-payload'`` /
    ``'sparse-switch-payload'`` / ``'fill-array-data-payload'``, fmt ``'payload'`` and fields
    ``[first_key, targets]`` / ``[keys, targets]`` / ``[element_width, size, data_bytes]``.
    Raises ValueError on a truncated instruction.  Unused opcodes are reported as
    ``unused-XX`` (10x); it is up to the caller to treat them as invalid."""
    n = len(insns) // 2
    u = struct.unpack('<%dH' % n, insns[:2 * n])
    i = 0
    while i < n:
        w = u[i]
        if w in (0x0100, 0x0200, 0x0300):
            if i + 2 > n:
                raise ValueError('truncated payload at %d' % i)
            size = u[i + 1]
            if w == 0x0100:
                ln = 4 + 2 * size
                name = 'packed-switch-payload'
            elif w == 0x0200:
                ln = 2 + 4 * size
                name = 'sparse-switch-payload'
            else:
                if i + 4 > n:
                    raise ValueError('truncated payload at %d' % i)
                cnt = u[i + 2] | u[i + 3] << 16
                ln = 4 + (size * cnt + 1) // 2
                name = 'fill-array-data-payload'
            if i + ln > n:
                raise ValueError('truncated payload at %d' % i)
            raw = insns[2 * i:2 * (i + ln)]
            if w == 0x0100:
                ints = struct.unpack('<%di' % (1 + size), raw[4:])
                fields = [ints[0], list(ints[1:])]
            elif w == 0x0200:
                ints = struct.unpack('<%di' % (2 * size), raw[4:])
                fields = [list(ints[:size]), list(ints[size:])]
            else:
                fields = [size, cnt, raw[8:8 + size * cnt]]
            yield i, name, 'payload', fields, raw
            i += ln
            continue
        name, fmt = OPCODES[w & 0xFF]
        ln = FORMAT_UNITS[fmt]
        if i + ln > n:
            raise ValueError('truncated instruction at %d' % i)
        yield i, name, fmt, decode_format(fmt, u[i:i + ln]), insns[2 * i:2 * (i + ln)]
        i += ln


# ---- symbolic pool references (resolved by a DexBuilder) -------------------------------------

class _Ref:
    __slots__ = ('key',)

    def __repr__(self):
        return '%s%r' % (type(self).__name__, self.key)

    def __eq__(self, o):
        return type(o) is type(self) and o.key == self.key

    def __hash__(self):
        return hash((type(self).__name__, self.key))


class StringRef(_Ref):
    """``StringRef('text')`` -- symbolic string_ids index inside an instruction item list"""
    def __init__(self, s):
        self.key = norm_str(s)


class TypeRef(_Ref):
    """``TypeRef('Lfoo/Bar;')`` -- symbolic type_ids index"""
    def __init__(self, t):
        self.key = norm_str(t)


class FieldRef(_Ref):
    """``FieldRef(cls, name, type)`` -- symbolic field_ids index"""
    def __init__(self, cls, name, type):
        self.key = (norm_str(cls), norm_str(name), norm_str(type))


class MethodRef(_Ref):
    """``MethodRef(cls, name, ret, params)`` -- symbolic method_ids index"""
    def __init__(self, cls, name, ret, params=()):
        self.key = (norm_str(cls), norm_str(name), norm_str(ret), tuple(norm_str(p) for p in params))


class ProtoRef(_Ref):
    """``ProtoRef(ret, params)`` -- symbolic proto_ids index"""
    def __init__(self, ret, params=()):
        self.key = (norm_str(ret), tuple(norm_str(p) for p in params))


# ----------------------------------------------------------------------------------------
# File model
# ----------------------------------------------------------------------------------------

TYPE_HEADER_ITEM = 0x0000
TYPE_STRING_ID_ITEM = 0x0001
TYPE_TYPE_ID_ITEM = 0x0002
TYPE_PROTO_ID_ITEM = 0x0003
TYPE_FIELD_ID_ITEM = 0x0004
TYPE_METHOD_ID_ITEM = 0x0005
TYPE_CLASS_DEF_ITEM = 0x0006
TYPE_CALL_SITE_ID_ITEM = 0x0007
TYPE_METHOD_HANDLE_ITEM = 0x0008
TYPE_MAP_LIST = 0x1000
TYPE_TYPE_LIST = 0x1001
TYPE_ANNOTATION_SET_REF_LIST = 0x1002
TYPE_ANNOTATION_SET_ITEM = 0x1003
TYPE_CLASS_DATA_ITEM = 0x2000
TYPE_CODE_ITEM = 0x2001
TYPE_STRING_DATA_ITEM = 0x2002
TYPE_DEBUG_INFO_ITEM = 0x2003
TYPE_ANNOTATION_ITEM = 0x2004
TYPE_ENCODED_ARRAY_ITEM = 0x2005
TYPE_ANNOTATIONS_DIRECTORY_ITEM = 0x2006

MAP_TYPE_NAMES = {v: k for k, v in list(globals().items())
                  if k.startswith('TYPE_') and isinstance(v, int)}


class _Rec:
    """tiny record base: positional/keyword construction, repr, equality by fields"""
    __slots__ = ()
    _defaults = {}

    def __init__(self, *a, **kw):
        names = self.__slots__
        if len(a) > len(names):
            raise TypeError('too many arguments for %s' % type(self).__name__)
        vals = dict(zip(names, a))
        for k, v in kw.items():
            if k not in names or k in vals:
                raise TypeError('bad argument %r for %s' % (k, type(self).__name__))
            vals[k] = v
        for n in names:
            if n in vals:
                setattr(self, n, vals[n])
            elif n in self._defaults:
                d = self._defaults[n]
                setattr(self, n, d() if callable(d) else d)
            else:
                raise TypeError('%s: missing argument %r' % (type(self).__name__, n))

    def __repr__(self):
        return '%s(%s)' % (type(self).__name__,
                           ', '.join('%s=%r' % (n, getattr(self, n)) for n in self.__slots__))

    def __eq__(self, o):
        return type(o) is type(self) and all(getattr(self, n) == getattr(o, n) for n in self.__slots__)

    __hash__ = None


class Field(_Rec):
    """Field(name, type, access, init=None).  ``init`` (static fields only) is an
    EncodedValue-like ``(value_type, value[, width])``; see :class:`EncodedValue`."""
    __slots__ = ('name', 'type', 'access', 'init')
    _defaults = {'access': 0x1, 'init': None}


class Method(_Rec):
    """Method(name, ret, params, access, code=None).  ``params`` is a sequence of type
    descriptors; ``code`` a :class:`Code` or None (abstract / native)."""
    __slots__ = ('name', 'ret', 'params', 'access', 'code')
    _defaults = {'params': (), 'access': 0x1, 'code': None}


class Code(_Rec):
    """Code(registers, ins, outs, insns, tries=(), debug_info=None).

    ``insns`` is one of

    * bytes (even length);
    * a list of :func:`assemble` items, in which index operands may be symbolic
      (``StringRef('x')``, ``TypeRef``, ``FieldRef``, ``MethodRef``, ``ProtoRef``): they are
      interned at ``freeze()`` and resolved at ``build()``; the labels are then available as
      ``builder.code_labels[method_ref]`` and may be used in ``tries`` (``Try('from', 'to',
      [(type, 'handler')], 'catchall')`` -- a str ``count_units`` is the exclusive end label);
    * a callable ``f(builder) -> bytes or item list`` that is evaluated after ``freeze()`` so
      that it can ask the builder for pool indices (symbolic refs in its result must already
      be in the pools, e.g. via ``extra_*``).  ``tries`` is a
    sequence of :class:`Try` (written in the given order; the spec wants them sorted by
    address and non-overlapping, which is not enforced) or a callable ``f(builder) -> tries``
    evaluated right after ``insns``.  ``debug_info`` is None (debug_info_off = 0) or the raw
    bytes of a debug_info_item (see :func:`debug_info_item`) or a callable ``f(builder)``."""
    __slots__ = ('registers', 'ins', 'outs', 'insns', 'tries', 'debug_info')
    _defaults = {'tries': (), 'debug_info': None}


class Try(_Rec):
    """Try(start_units, count_units, handlers=[(type_desc, addr_units), ...], catch_all=None).
    ``catch_all`` is the catch-all handler address or None.  type_desc may also be an int
    type index."""
    __slots__ = ('start_units', 'count_units', 'handlers', 'catch_all')
    _defaults = {'handlers': tuple, 'catch_all': None}


class Annotation(_Rec):
    """Annotation(visibility, type, elements): visibility 0 BUILD, 1 RUNTIME, 2 SYSTEM;
    ``elements`` a dict or list of (name, EncodedValue-like)."""
    __slots__ = ('visibility', 'type', 'elements')
    _defaults = {'elements': tuple}


class ClassDef(_Rec):
    """What add_class() stored; all attributes as given (lists copied)."""
    __slots__ = ('name', 'superclass', 'interfaces', 'access', 'source_file', 'static_fields',
                 'instance_fields', 'direct_methods', 'virtual_methods', 'static_values',
                 'annotations')


def shorty(ret, params) -> str:
    """shorty descriptor of a prototype: return type first, 'L' for every reference/array."""
    def one(t):
        return 'L' if t[0] in 'L[' else t[0]
    return one(ret) + ''.join(one(p) for p in params)


def debug_info_item(line_start: int, parameter_names, opcodes: bytes = b'\x00', resolver=None) -> bytes:
    """debug_info_item: uleb128 line_start, uleb128 parameters_size, uleb128p1 name idx per
    parameter (None -> NO_INDEX; str needs a resolver), then the state-machine bytes (must end
    with DBG_END_SEQUENCE 0x00)."""
    out = uleb128(line_start) + uleb128(len(parameter_names))
    for p in parameter_names:
        if p is None:
            out += uleb128p1(-1)
        elif isinstance(p, int):
            out += uleb128p1(p)
        else:
            out += uleb128p1(resolver.string_idx(p))
    return out + bytes(opcodes)


HEADER_FIELDS = ('file_size', 'header_size', 'endian_tag', 'link_size', 'link_off', 'map_off',
                 'string_ids_size', 'string_ids_off', 'type_ids_size', 'type_ids_off',
                 'proto_ids_size', 'proto_ids_off', 'field_ids_size', 'field_ids_off',
                 'method_ids_size', 'method_ids_off', 'class_defs_size', 'class_defs_off',
                 'data_size', 'data_off')


def parse_header(data: bytes) -> dict:
    """the 0x70-byte header_item as a dict (``magic``, ``checksum``, ``signature`` and
    HEADER_FIELDS), plus ``checksum_ok`` / ``signature_ok``"""
    h = {'magic': bytes(data[:8]), 'checksum': struct.unpack_from('<I', data, 8)[0],
         'signature': bytes(data[12:32])}
    h.update(zip(HEADER_FIELDS, struct.unpack_from('<20I', data, 32)))
    h['checksum_ok'] = h['checksum'] == zlib.adler32(bytes(data[12:])) & 0xFFFFFFFF
    h['signature_ok'] = h['signature'] == hashlib.sha1(bytes(data[32:])).digest()
    return h


def fix_checksum(data: bytes) -> bytes:
    """Recompute the SHA-1 signature (bytes 12..31, over everything from offset 32) and then
    the adler32 checksum (bytes 8..11, over everything from offset 12)."""
    b = bytearray(data)
    b[12:32] = hashlib.sha1(bytes(b[32:])).digest()
    b[8:12] = struct.pack('<I', zlib.adler32(bytes(b[12:])) & 0xFFFFFFFF)
    return bytes(b)


_DEFAULT_FOR_TYPE = {'Z': (VALUE_BOOLEAN, False), 'B': (VALUE_BYTE, 0), 'S': (VALUE_SHORT, 0),
                     'C': (VALUE_CHAR, 0), 'I': (VALUE_INT, 0), 'J': (VALUE_LONG, 0),
                     'F': (VALUE_FLOAT, 0.0), 'D': (VALUE_DOUBLE, 0.0)}


def _align(buf: bytearray, n: int):
    while len(buf) % n:
        buf.append(0)


class DexBuilder:
    """Collects classes and extra pool entries, then writes a DEX file.

    Life cycle: ``add_class`` / ``extra_*`` -> ``freeze()`` (sorts the pools; implicit in
    ``build``) -> ``*_idx`` queries -> ``build()``.  Nothing may be added after ``freeze()``.

    Pool contents after ``freeze()`` (all sorted as the format requires):
    ``strings`` (list of str), ``types`` (descriptors), ``protos`` ((ret, params) tuples),
    ``fields`` ((cls, name, type)), ``methods`` ((cls, name, ret, params)),
    ``class_order`` (ClassDef objects in the order of the class_defs section).

    Attributes to force pool entries: ``extra_strings``, ``extra_types``, ``extra_protos``,
    ``extra_fields``, ``extra_methods``; for dex 038+: ``extra_method_handles``
    (``(kind, field_or_method_ref)``; index = position) and ``extra_call_sites`` (each a list
    of EncodedValue-like; index = position).

    After ``build()``: ``layout`` (dict, see :meth:`build`), ``map_items`` (list of
    (type, size, offset) as written), ``code_bytes`` ({method ref: insns bytes}),
    ``code_tries`` ({method ref: list of Try, labels resolved}), ``code_debug`` and
    ``code_labels`` ({method ref: Offsets} for code given as item lists).
    """

    def __init__(self):
        self.classes = []
        self.extra_strings = []
        self.extra_types = []
        self.extra_protos = []
        self.extra_fields = []
        self.extra_methods = []
        self.extra_method_handles = []
        self.extra_call_sites = []
        self.frozen = False
        self.layout = {}
        self.map_items = []
        self.code_bytes = {}
        self.code_tries = {}
        self.code_debug = {}
        self.code_labels = {}

    # ---- model -------------------------------------------------------------------------

    def add_class(self, name, superclass='Ljava/lang/Object;', interfaces=(), access=0x1,
                  source_file=None, static_fields=(), instance_fields=(), direct_methods=(),
                  virtual_methods=(), static_values=None, annotations=None):
        """Add a class definition.

        * ``superclass=None`` -> NO_INDEX.  ``source_file=None`` -> NO_INDEX.
        * members may be given in any order; class_data_item lists them sorted by pool index.
        * static values: by default derived from ``Field.init`` -- an encoded_array covering
          the static fields (in field_idx order) up to the last one that has an ``init``;
          fields without ``init`` before it get the zero/null of their type.  No ``init`` at
          all -> static_values_off = 0.  ``static_values=[...]`` (EncodedValue-like list)
          overrides this and is written verbatim.
        * ``annotations``: None or a dict with optional keys ``'class'`` (list of
          :class:`Annotation`), ``'fields'`` ({(name, type): [Annotation]}), ``'methods'``
          ({(name, ret, params): [Annotation]}), ``'parameters'`` ({(name, ret, params):
          [[Annotation] or None, per parameter]}).
        Returns the stored :class:`ClassDef`."""
        if self.frozen:
            raise RuntimeError('builder is frozen')
        c = ClassDef(norm_str(name), None if superclass is None else norm_str(superclass),
                     [norm_str(i) for i in interfaces], access, source_file,
                     list(static_fields), list(instance_fields), list(direct_methods),
                     list(virtual_methods),
                     None if static_values is None else list(static_values), annotations)
        for f in c.static_fields + c.instance_fields:
            f.name, f.type = norm_str(f.name), norm_str(f.type)
        for m in c.direct_methods + c.virtual_methods:
            m.name, m.ret = norm_str(m.name), norm_str(m.ret)
            m.params = tuple(norm_str(p) for p in m.params)
        self.classes.append(c)
        return c

    # ---- interning ---------------------------------------------------------------------

    @staticmethod
    def _fref(r):
        c, n, t = r
        return (norm_str(c), norm_str(n), norm_str(t))

    @staticmethod
    def _mref(r):
        c, n, ret, params = r
        return (norm_str(c), norm_str(n), norm_str(ret), tuple(norm_str(p) for p in params))

    @staticmethod
    def _pref(r):
        ret, params = r
        return (norm_str(ret), tuple(norm_str(p) for p in params))

    def _collect_value(self, item, S, T, P, F, M):
        if isinstance(item, (bytes, bytearray)):
            return
        vt = item[0]
        v = item[1] if len(item) > 1 else None
        if vt == VALUE_ARRAY:
            for x in v:
                self._collect_value(x, S, T, P, F, M)
        elif vt == VALUE_ANNOTATION:
            t, elems = v
            self._collect_annotation(t, elems, S, T, P, F, M)
        elif isinstance(v, int) or v is None:
            return
        elif vt == VALUE_STRING:
            S.add(norm_str(v))
        elif vt == VALUE_TYPE:
            T.add(norm_str(v))
        elif vt in (VALUE_FIELD, VALUE_ENUM):
            F.add(self._fref(v))
        elif vt == VALUE_METHOD:
            M.add(self._mref(v))
        elif vt == VALUE_METHOD_TYPE:
            P.add(self._pref(v))

    def _collect_annotation(self, t, elems, S, T, P, F, M):
        if not isinstance(t, int):
            T.add(norm_str(t))
        if isinstance(elems, dict):
            elems = elems.items()
        for name, v in elems:
            if not isinstance(name, int):
                S.add(norm_str(name))
            self._collect_value(v, S, T, P, F, M)

    def _class_annotation_lists(self, c):
        a = c.annotations or {}
        out = list(a.get('class', ()))
        for lst in a.get('fields', {}).values():
            out += list(lst)
        for lst in a.get('methods', {}).values():
            out += list(lst)
        for per_param in a.get('parameters', {}).values():
            for lst in per_param:
                if lst:
                    out += list(lst)
        return out

    def freeze(self):
        """Sort all pools and fix the indices.  Idempotent."""
        if self.frozen:
            return self
        S, T, P, F, M = set(), set(), set(), set(), set()
        for s in self.extra_strings:
            S.add(norm_str(s))
        for t in self.extra_types:
            T.add(norm_str(t))
        for p in self.extra_protos:
            P.add(self._pref(p))
        for f in self.extra_fields:
            F.add(self._fref(f))
        for m in self.extra_methods:
            M.add(self._mref(m))
        for kind, ref in self.extra_method_handles:
            if isinstance(ref, int):
                continue
            if len(ref) == 3:
                F.add(self._fref(ref))
            else:
                M.add(self._mref(ref))
        for cs in self.extra_call_sites:
            for v in cs:
                self._collect_value(v, S, T, P, F, M)
        for c in self.classes:
            T.add(c.name)
            if c.superclass is not None:
                T.add(c.superclass)
            T.update(c.interfaces)
            if c.source_file is not None:
                S.add(norm_str(c.source_file))
            for f in c.static_fields + c.instance_fields:
                F.add((c.name, f.name, f.type))
                if f.init is not None:
                    self._collect_value(f.init, S, T, P, F, M)
            for v in c.static_values or ():
                self._collect_value(v, S, T, P, F, M)
            for m in c.direct_methods + c.virtual_methods:
                M.add((c.name, m.name, m.ret, m.params))
                if m.code is not None and isinstance(m.code.insns, (list, tuple)):
                    for it in m.code.insns:
                        if isinstance(it, tuple):
                            for x in it:
                                if isinstance(x, StringRef):
                                    S.add(x.key)
                                elif isinstance(x, TypeRef):
                                    T.add(x.key)
                                elif isinstance(x, FieldRef):
                                    F.add(x.key)
                                elif isinstance(x, MethodRef):
                                    M.add(x.key)
                                elif isinstance(x, ProtoRef):
                                    P.add(x.key)
                if m.code is not None and not callable(m.code.tries):
                    for t in m.code.tries:
                        for ty, _ in t.handlers:
                            if not isinstance(ty, int):
                                T.add(norm_str(ty))
            for an in self._class_annotation_lists(c):
                self._collect_annotation(an.type, an.elements, S, T, P, F, M)
        # closure: methods -> protos, fields/methods -> types + names, protos -> types + shorty
        for cls, name, ret, params in M:
            P.add((ret, params))
            T.add(cls)
            S.add(name)
        for cls, name, ty in F:
            T.add(cls)
            T.add(ty)
            S.add(name)
        for ret, params in P:
            T.add(ret)
            T.update(params)
            S.add(shorty(ret, params))
        S.update(T)
        self.strings = sorted(S, key=lambda s: tuple(utf16_units(s)))
        self._sidx = {s: i for i, s in enumerate(self.strings)}
        self.types = sorted(T, key=lambda t: self._sidx[t])
        self._tidx = {t: i for i, t in enumerate(self.types)}
        self.protos = sorted(P, key=lambda p: (self._tidx[p[0]], [self._tidx[x] for x in p[1]]))
        self._pidx = {p: i for i, p in enumerate(self.protos)}
        self.fields = sorted(F, key=lambda f: (self._tidx[f[0]], self._sidx[f[1]], self._tidx[f[2]]))
        self._fidx = {f: i for i, f in enumerate(self.fields)}
        self.methods = sorted(M, key=lambda m: (self._tidx[m[0]], self._sidx[m[1]],
                                                self._pidx[(m[2], m[3])]))
        self._midx = {m: i for i, m in enumerate(self.methods)}
        # class_defs: superclass / interfaces defined in this file first (stable)
        by_name = {}
        for c in self.classes:
            by_name.setdefault(c.name, c)
        order, state = [], {}

        def visit(c):
            st = state.get(id(c))
            if st:
                return  # done, or a cycle (left as is)
            state[id(c)] = 1
            for dep in ([c.superclass] if c.superclass is not None else []) + list(c.interfaces):
                d = by_name.get(dep)
                if d is not None and d is not c:
                    visit(d)
            state[id(c)] = 2
            order.append(c)
        for c in self.classes:
            visit(c)
        self.class_order = order
        self.frozen = True
        return self

    def _need_frozen(self):
        if not self.frozen:
            raise RuntimeError('call freeze() first')

    def string_idx(self, s) -> int:
        self._need_frozen()
        return self._sidx[norm_str(s)]

    def type_idx(self, t) -> int:
        self._need_frozen()
        return self._tidx[norm_str(t)]

    def proto_idx(self, ret, params) -> int:
        self._need_frozen()
        return self._pidx[self._pref((ret, params))]

    def field_idx(self, cls, name, type) -> int:
        self._need_frozen()
        return self._fidx[self._fref((cls, name, type))]

    def method_idx(self, cls, name, ret, params) -> int:
        self._need_frozen()
        return self._midx[self._mref((cls, name, ret, params))]

    def resolve_value_index(self, vt, v) -> int:
        """symbolic encoded_value payload -> pool index (used by :func:`encoded_value`)"""
        if vt == VALUE_STRING:
            return self.string_idx(v)
        if vt == VALUE_TYPE:
            return self.type_idx(v)
        if vt in (VALUE_FIELD, VALUE_ENUM):
            return self.field_idx(*v)
        if vt == VALUE_METHOD:
            return self.method_idx(*v)
        if vt == VALUE_METHOD_TYPE:
            return self.proto_idx(*v)
        raise ValueError('cannot resolve %r for %s' % (v, VALUE_NAMES.get(vt, vt)))

    def ref_idx(self, r) -> int:
        """index of a StringRef / TypeRef / FieldRef / MethodRef / ProtoRef"""
        self._need_frozen()
        table = {StringRef: self._sidx, TypeRef: self._tidx, FieldRef: self._fidx,
                 MethodRef: self._midx, ProtoRef: self._pidx}[type(r)]
        return table[r.key]

    def resolve_items(self, items) -> list:
        """replace symbolic refs in a list of :func:`assemble` items by pool indices"""
        out = []
        for it in items:
            if isinstance(it, tuple):
                it = tuple(self.ref_idx(x) if isinstance(x, _Ref) else x for x in it)
            out.append(it)
        return out

    @staticmethod
    def _resolve_try(t, labels):
        def lab(x):
            if isinstance(x, str):
                if labels is None or x not in labels:
                    raise ValueError('unknown label %r in Try' % (x,))
                return labels[x]
            return x
        start = lab(t.start_units)
        count = lab(t.count_units) - start if isinstance(t.count_units, str) else t.count_units
        return Try(start, count, [(ty, lab(ad)) for ty, ad in t.handlers],
                   None if t.catch_all is None else lab(t.catch_all))

    def encode_value(self, item, leb_pad=0) -> bytes:
        """encode an EncodedValue-like tuple, resolving symbolic references"""
        self._need_frozen()
        return _ev(item, self, leb_pad)

    def static_values_for(self, c):
        """the list of EncodedValue-like tuples written as static values of class ``c``
        (None when there is no encoded_array)"""
        self._need_frozen()
        if c.static_values is not None:
            return list(c.static_values)
        fs = sorted(c.static_fields, key=lambda f: self._fidx[(c.name, f.name, f.type)])
        last = -1
        for i, f in enumerate(fs):
            if f.init is not None:
                last = i
        if last < 0:
            return None
        return [f.init if f.init is not None else _DEFAULT_FOR_TYPE.get(f.type[0], (VALUE_NULL, None))
                for f in fs[:last + 1]]

    # ---- writing -----------------------------------------------------------------------

    def build(self, *, map_order=None, shared_handlers=False, leb_pad=0, version=b'035',
              checksum=True) -> bytes:
        """Write the file.

        * ``map_order``: None -> map entries sorted by offset (what the spec requires);
          a list of map type codes -> entries in that order (entries not mentioned follow in
          offset order); a callable -> ``map_order(entries)`` returns the list to write, each
          entry a ``(type, size, offset)`` tuple (so entries can also be dropped/duplicated).
        * ``shared_handlers``: True -> tries of one code item with equal handler lists share
          one encoded_catch_handler; False -> every try_item gets its own.
        * ``leb_pad``: every uleb128/sleb128/uleb128p1 in class_data_items,
          encoded_catch_handler_lists, string_data_items (utf16_size), encoded arrays and
          annotations is written non-canonically with that many extra bytes (at most 5 in
          total).  0 = canonical.
        * ``version``: the three digits of the magic.
        * ``checksum=False`` leaves signature and checksum zero.

        File layout: header, string_ids, type_ids, proto_ids, field_ids, method_ids,
        class_defs, call_site_ids, method_handles, then the data section: type_lists,
        string_data, debug_info, annotation items / sets / set-ref-lists / directories,
        encoded arrays, code items, class_data, map_list.

        ``self.layout`` afterwards: section offsets under their names (``'string_ids'``,
        ``'type_ids'``, ``'proto_ids'``, ``'field_ids'``, ``'method_ids'``, ``'class_defs'``,
        ``'call_site_ids'``, ``'method_handles'``, ``'map_list'``, ``'data_off'``,
        ``'data_size'``, ``'file_size'``), and per-item dicts: ``'string_data'`` (list by
        string idx), ``'type_list'`` ({tuple of descriptors: off}), ``'class_def'`` /
        ``'class_data'`` / ``'static_values'`` / ``'annotations_directory'`` ({class name:
        off}), ``'code'`` ({method ref: off}), ``'insns'`` ({method ref: off of first
        instruction}), ``'tries'`` ({method ref: off of first try_item}), ``'handlers'``
        ({method ref: (off of encoded_catch_handler_list, [handler_off per try])}),
        ``'debug_info'`` ({method ref: off}), ``'call_site'`` (list)."""
        self.freeze()
        lay = self.layout = {}
        n_s, n_t, n_p = len(self.strings), len(self.types), len(self.protos)
        n_f, n_m, n_c = len(self.fields), len(self.methods), len(self.class_order)
        n_cs, n_mh = len(self.extra_call_sites), len(self.extra_method_handles)
        if n_t > 0x10000 or n_p > 0x10000:
            raise ValueError('too many types/protos')
        off = 0x70
        sec = {}
        for name, cnt, sz in (('string_ids', n_s, 4), ('type_ids', n_t, 4), ('proto_ids', n_p, 12),
                              ('field_ids', n_f, 8), ('method_ids', n_m, 8), ('class_defs', n_c, 32),
                              ('call_site_ids', n_cs, 4), ('method_handles', n_mh, 8)):
            sec[name] = off if cnt else 0
            off += cnt * sz
        data_off = off
        data = bytearray()

        def here():
            return data_off + len(data)

        def lp(v, signed=False):
            return _lp(v, leb_pad, signed)

        # -- type lists
        tl = {}
        tl_order = []

        def want_tl(types):
            types = tuple(types)
            if types and types not in tl:
                tl[types] = None
                tl_order.append(types)
        for ret, params in self.protos:
            want_tl(params)
        for c in self.class_order:
            want_tl(c.interfaces)
        sec_off = {}
        sec_cnt = {}
        if tl_order:
            _align(data, 4)
            sec_off[TYPE_TYPE_LIST] = here()
            sec_cnt[TYPE_TYPE_LIST] = len(tl_order)
            for types in tl_order:
                _align(data, 4)
                tl[types] = here()
                data += struct.pack('<I', len(types))
                for t in types:
                    data += struct.pack('<H', self._tidx[t])
        lay['type_list'] = dict(tl)

        # -- string data
        sd = []
        if n_s:
            sec_off[TYPE_STRING_DATA_ITEM] = here()
            sec_cnt[TYPE_STRING_DATA_ITEM] = n_s
            for s in self.strings:
                sd.append(here())
                u = utf16_units(s)
                data += uleb128(len(u), lp(len(u))) + mutf8_encode(u) + b'\x00'
        lay['string_data'] = sd

        # -- evaluate code (callables) and debug infos
        all_methods = []  # (ClassDef, Method, ref)
        for c in self.class_order:
            for m in c.direct_methods + c.virtual_methods:
                ref = (c.name, m.name, m.ret, m.params)
                all_methods.append((c, m, ref))
                if m.code is None:
                    continue
                if ref in self.code_bytes:
                    continue
                insns = m.code.insns(self) if callable(m.code.insns) else m.code.insns
                labels = None
                if isinstance(insns, (list, tuple)):
                    insns, labels = assemble(self.resolve_items(insns))
                    self.code_labels[ref] = labels
                insns = bytes(insns)
                if len(insns) & 1:
                    raise ValueError('insns of %r has odd length' % (ref,))
                tries = m.code.tries(self) if callable(m.code.tries) else m.code.tries
                self.code_bytes[ref] = insns
                self.code_tries[ref] = [self._resolve_try(t, labels) for t in tries]
                dbg = m.code.debug_info
                if callable(dbg):
                    dbg = dbg(self)
                self.code_debug[ref] = None if dbg is None else bytes(dbg)
        dbg_off = {}
        dbg_refs = [r for _, m, r in all_methods if m.code is not None and self.code_debug[r] is not None]
        if dbg_refs:
            sec_off[TYPE_DEBUG_INFO_ITEM] = here()
            sec_cnt[TYPE_DEBUG_INFO_ITEM] = len(dbg_refs)
            for r in dbg_refs:
                dbg_off[r] = here()
                data += self.code_debug[r]
        lay['debug_info'] = dict(dbg_off)

        # -- annotations
        ann_dir_off = {}
        ann_classes = [c for c in self.class_order if c.annotations]
        if ann_classes:
            items = []      # encoded annotation_item bytes, in order
            item_off = []

            def add_item(an):
                items.append(bytes([an.visibility]) + encoded_annotation(an.type, an.elements, self, leb_pad))
                return len(items) - 1
            sets = []       # lists of item numbers

            def add_set(lst):
                lst = sorted(lst, key=lambda an: an.type if isinstance(an.type, int) else self._tidx[norm_str(an.type)])
                sets.append([add_item(an) for an in lst])
                return len(sets) - 1
            reflists = []   # lists of set numbers or None
            dirs = []       # (class, class_set, [(fidx, set)], [(midx, set)], [(midx, reflist)])
            for c in ann_classes:
                a = c.annotations
                cls_set = add_set(a['class']) if a.get('class') else None
                fl = sorted((self._fidx[(c.name, norm_str(k[0]), norm_str(k[1]))], add_set(v))
                            for k, v in a.get('fields', {}).items())
                ml = sorted((self._midx[self._mref((c.name,) + tuple(k))], add_set(v))
                            for k, v in a.get('methods', {}).items())
                pl = []
                for k, per_param in a.get('parameters', {}).items():
                    reflists.append([add_set(x) if x else None for x in per_param])
                    pl.append((self._midx[self._mref((c.name,) + tuple(k))], len(reflists) - 1))
                pl.sort()
                dirs.append((c, cls_set, fl, ml, pl))
            sec_off[TYPE_ANNOTATION_ITEM] = here()
            sec_cnt[TYPE_ANNOTATION_ITEM] = len(items)
            for it in items:
                item_off.append(here())
                data += it
            _align(data, 4)
            set_off = []
            sec_off[TYPE_ANNOTATION_SET_ITEM] = here()
            sec_cnt[TYPE_ANNOTATION_SET_ITEM] = len(sets)
            for st in sets:
                set_off.append(here())
                data += struct.pack('<I', len(st))
                for i in st:
                    data += struct.pack('<I', item_off[i])
            ref_off = []
            if reflists:
                sec_off[TYPE_ANNOTATION_SET_REF_LIST] = here()
                sec_cnt[TYPE_ANNOTATION_SET_REF_LIST] = len(reflists)
                for rl in reflists:
                    ref_off.append(here())
                    data += struct.pack('<I', len(rl))
                    for i in rl:
                        data += struct.pack('<I', 0 if i is None else set_off[i])
            sec_off[TYPE_ANNOTATIONS_DIRECTORY_ITEM] = here()
            sec_cnt[TYPE_ANNOTATIONS_DIRECTORY_ITEM] = len(dirs)
            for c, cls_set, fl, ml, pl in dirs:
                ann_dir_off[c.name] = here()
                data += struct.pack('<IIII', 0 if cls_set is None else set_off[cls_set],
                                    len(fl), len(ml), len(pl))
                for i, s in fl + ml:
                    data += struct.pack('<II', i, set_off[s])
                for i, r in pl:
                    data += struct.pack('<II', i, ref_off[r])
            lay['annotation_item'] = item_off
            lay['annotation_set'] = set_off
            lay['annotation_set_ref_list'] = ref_off
        lay['annotations_directory'] = dict(ann_dir_off)

        # -- encoded arrays (static values, call sites)
        sv_off = {}
        cs_off = []
        arrays = []
        for c in self.class_order:
            vals = self.static_values_for(c)
            if vals is not None and c.name not in sv_off:
                sv_off[c.name] = None
                arrays.append(('sv', c.name, vals))
        for i, cs in enumerate(self.extra_call_sites):
            arrays.append(('cs', i, cs))
        if arrays:
            sec_off[TYPE_ENCODED_ARRAY_ITEM] = here()
            sec_cnt[TYPE_ENCODED_ARRAY_ITEM] = len(arrays)
            for kind, key, vals in arrays:
                if kind == 'sv':
                    sv_off[key] = here()
                else:
                    cs_off.append(here())
                data += encoded_array(vals, self, leb_pad)
        lay['static_values'] = dict(sv_off)
        lay['call_site'] = cs_off

        # -- code items
        code_off = {}
        lay['insns'] = {}
        lay['tries'] = {}
        lay['handlers'] = {}
        code_refs = []
        for _, m, r in all_methods:
            if m.code is not None and r not in code_off:
                code_off[r] = None
                code_refs.append((m, r))
        if code_refs:
            _align(data, 4)
            sec_off[TYPE_CODE_ITEM] = here()
            sec_cnt[TYPE_CODE_ITEM] = len(code_refs)
            for m, r in code_refs:
                _align(data, 4)
                code_off[r] = here()
                insns = self.code_bytes[r]
                tries = self.code_tries[r]
                data += struct.pack('<HHHHII', m.code.registers, m.code.ins, m.code.outs,
                                    len(tries), dbg_off.get(r, 0), len(insns) // 2)
                lay['insns'][r] = here()
                data += insns
                if tries:
                    if (len(insns) // 2) & 1:
                        data += b'\x00\x00'
                    # handler list first (to learn the offsets), written after the try items
                    hl = bytearray()
                    entries = []   # encoded handlers
                    seen = {}
                    try_h = []
                    for t in tries:
                        key = (tuple((ty if isinstance(ty, int) else self._tidx[norm_str(ty)], ad)
                                     for ty, ad in t.handlers), t.catch_all)
                        if shared_handlers and key in seen:
                            try_h.append(seen[key])
                            continue
                        seen[key] = len(entries)
                        try_h.append(len(entries))
                        entries.append(key)
                    hl += uleb128(len(entries), lp(len(entries)))
                    h_offs = []
                    for typed, ca in entries:
                        h_offs.append(len(hl))
                        sz = -len(typed) if ca is not None else len(typed)
                        hl += sleb128(sz, lp(sz, True))
                        for ti, ad in typed:
                            hl += uleb128(ti, lp(ti)) + uleb128(ad, lp(ad))
                        if ca is not None:
                            hl += uleb128(ca, lp(ca))
                    lay['tries'][r] = here()
                    for t, hi in zip(tries, try_h):
                        data += struct.pack('<IHH', t.start_units, t.count_units, h_offs[hi])
                    lay['handlers'][r] = (here(), [h_offs[hi] for hi in try_h])
                    data += hl
        lay['code'] = dict(code_off)

        # -- class data
        cd_off = {}
        cds = [c for c in self.class_order
               if c.static_fields or c.instance_fields or c.direct_methods or c.virtual_methods]
        if cds:
            sec_off[TYPE_CLASS_DATA_ITEM] = here()
            sec_cnt[TYPE_CLASS_DATA_ITEM] = len(cds)
            for c in cds:
                cd_off[id(c)] = here()
                sf = sorted(c.static_fields, key=lambda f: self._fidx[(c.name, f.name, f.type)])
                inf = sorted(c.instance_fields, key=lambda f: self._fidx[(c.name, f.name, f.type)])
                dm = sorted(c.direct_methods, key=lambda m: self._midx[(c.name, m.name, m.ret, m.params)])
                vm = sorted(c.virtual_methods, key=lambda m: self._midx[(c.name, m.name, m.ret, m.params)])
                for n in (len(sf), len(inf), len(dm), len(vm)):
                    data += uleb128(n, lp(n))
                for lst in (sf, inf):
                    prev = 0
                    for f in lst:
                        i = self._fidx[(c.name, f.name, f.type)]
                        data += uleb128(i - prev, lp(i - prev)) + uleb128(f.access, lp(f.access))
                        prev = i
                for lst in (dm, vm):
                    prev = 0
                    for m in lst:
                        r = (c.name, m.name, m.ret, m.params)
                        i = self._midx[r]
                        co = code_off[r] if m.code is not None else 0
                        data += (uleb128(i - prev, lp(i - prev)) + uleb128(m.access, lp(m.access))
                                 + uleb128(co, lp(co)))
                        prev = i
        lay['class_data'] = {c.name: cd_off[id(c)] for c in reversed(cds)}

        # -- map list
        _align(data, 4)
        map_off = here()
        entries = [(TYPE_HEADER_ITEM, 1, 0)]
        for name, ty, cnt in (('string_ids', TYPE_STRING_ID_ITEM, n_s), ('type_ids', TYPE_TYPE_ID_ITEM, n_t),
                              ('proto_ids', TYPE_PROTO_ID_ITEM, n_p), ('field_ids', TYPE_FIELD_ID_ITEM, n_f),
                              ('method_ids', TYPE_METHOD_ID_ITEM, n_m), ('class_defs', TYPE_CLASS_DEF_ITEM, n_c),
                              ('call_site_ids', TYPE_CALL_SITE_ID_ITEM, n_cs),
                              ('method_handles', TYPE_METHOD_HANDLE_ITEM, n_mh)):
            if cnt:
                entries.append((ty, cnt, sec[name]))
        for ty, o in sec_off.items():
            entries.append((ty, sec_cnt[ty], o))
        entries.append((TYPE_MAP_LIST, 1, map_off))
        entries.sort(key=lambda e: e[2])
        if map_order is not None:
            if callable(map_order):
                entries = [tuple(e) for e in map_order(list(entries))]
            else:
                rank = {t: i for i, t in enumerate(map_order)}
                entries.sort(key=lambda e: (rank.get(e[0], len(rank)), e[2]))
        data += struct.pack('<I', len(entries))
        for ty, cnt, o in entries:
            data += struct.pack('<HHII', ty, 0, cnt, o)
        self.map_items = list(entries)

        # -- index sections
        idx = bytearray()
        for o in sd:
            idx += struct.pack('<I', o)
        for t in self.types:
            idx += struct.pack('<I', self._sidx[t])
        for ret, params in self.protos:
            idx += struct.pack('<III', self._sidx[shorty(ret, params)], self._tidx[ret],
                               tl[params] if params else 0)
        for cls, name, ty in self.fields:
            idx += struct.pack('<HHI', self._tidx[cls], self._tidx[ty], self._sidx[name])
        for cls, name, ret, params in self.methods:
            idx += struct.pack('<HHI', self._tidx[cls], self._pidx[(ret, params)], self._sidx[name])
        lay['class_def'] = {}
        for c in self.class_order:
            lay['class_def'].setdefault(c.name, 0x70 + len(idx))
            idx += struct.pack(
                '<IIIIIIII', self._tidx[c.name], c.access & 0xFFFFFFFF,
                NO_INDEX if c.superclass is None else self._tidx[c.superclass],
                tl[tuple(c.interfaces)] if c.interfaces else 0,
                NO_INDEX if c.source_file is None else self._sidx[norm_str(c.source_file)],
                ann_dir_off.get(c.name, 0) if c.annotations else 0,
                cd_off.get(id(c), 0),
                (sv_off.get(c.name) or 0) if self.static_values_for(c) is not None else 0)
        for o in cs_off:
            idx += struct.pack('<I', o)
        for kind, ref in self.extra_method_handles:
            if not isinstance(ref, int):
                ref = self._fidx[self._fref(ref)] if len(ref) == 3 else self._midx[self._mref(ref)]
            idx += struct.pack('<HHHH', kind, 0, ref, 0)
        assert 0x70 + len(idx) == data_off, (len(idx), data_off)

        file_size = data_off + len(data)
        hdr = bytearray()
        hdr += b'dex\n' + bytes(version) + b'\x00'
        hdr += b'\x00' * 4 + b'\x00' * 20
        hdr += struct.pack('<IIIII', file_size, 0x70, 0x12345678, 0, 0)
        hdr += struct.pack('<I', map_off)
        for name, cnt in (('string_ids', n_s), ('type_ids', n_t), ('proto_ids', n_p),
                          ('field_ids', n_f), ('method_ids', n_m), ('class_defs', n_c)):
            hdr += struct.pack('<II', cnt, sec[name])
        hdr += struct.pack('<II', len(data), data_off)
        assert len(hdr) == 0x70
        lay.update(sec)
        lay.update(map_list=map_off, data_off=data_off, data_size=len(data), file_size=file_size,
                   header=0)
        out = bytes(hdr) + bytes(idx) + bytes(data)
        return fix_checksum(out) if checksum else out
