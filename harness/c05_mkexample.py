"""One-off generator of lean/AgVerif/Proof/DexExample.lean (the non-vacuity witnesses of C05's
parse_encode / parse_build).  Not run by the check.  Usage, from /verif:

    /venv/bin/python harness/c05_mkexample.py

It writes a small DEX with harness/dexasm.py, reads the tables and the layout off the bytes with
its own few lines of struct parsing, lays the same content out a second time in another order,
and emits Lean definitions plus proof terms; the Lean kernel checks every claim, so nothing here
is trusted.
"""
import os, struct, sys
sys.path.insert(0, os.path.dirname(os.path.dirname(os.path.abspath(__file__))))
from harness.dexasm import DexBuilder, Field, Method, Code, Try, MethodRef

_b = DexBuilder()
_b.add_class('LFoo;', interfaces=('Ljava/lang/Runnable;',), access=0x1, source_file='Foo.java',
    static_fields=[Field('X', 'I', 0x9)],
    instance_fields=[Field('y', 'J', 0x2)],
    direct_methods=[Method('<init>', 'V', (), 0x10001, Code(1, 1, 1, [
        ('invoke-direct', (0,), MethodRef('Ljava/lang/Object;', '<init>', 'V', ())), ('return-void',)]))],
    virtual_methods=[Method('f', 'I', ('I', 'J'), 0x1, Code(5, 4, 0, [
                        'a:', ('const/4', 0, 1), 'b:', ('return', 0), 'h:', ('move-exception', 1), ('const/4', 0, 2),
                        ('return', 0), 'h2:', ('const/4', 0, 3), ('return', 0)],
                        tries=[Try('a', 'b', [('Ljava/lang/Exception;', 'h')], catch_all='h2')])),
                     Method('run', 'V', (), 0x1, Code(1, 1, 0, [('return-void',)]))])
d = _b.build(leb_pad=0)
u16 = lambda o: struct.unpack_from('<H', d, o)[0]
u32 = lambda o: struct.unpack_from('<I', d, o)[0]
def uleb(o):
    v = 0; s = 0; st = o
    while True:
        b = d[o]; o += 1
        v |= (b & 0x7f) << s; s += 7
        if b < 0x80: break
    return v, o, list(d[st:o])
map_off = u32(0x34)
n = u32(map_off)
entries = [(u16(map_off+4+12*i), u32(map_off+4+12*i+4), u32(map_off+4+12*i+8)) for i in range(n)]
sec = {t:(s,o) for t,s,o in entries}
L = lambda xs: '[' + ', '.join(str(x) for x in xs) + ']'
# strings
strings = []
s, o = sec[0x2002]
for _ in range(s):
    v, o2, item = uleb(o)
    e = d.index(0, o2)
    strings.append((item, list(d[o2:e]))); o = e+1
s, o = sec[1]; string_ids = [u32(o+4*i) for i in range(s)]
s, o = sec[2]; type_ids = [u32(o+4*i) for i in range(s)]
s, o = sec[3]; protos = [(u32(o+12*i), u32(o+12*i+4), u32(o+12*i+8)) for i in range(s)]
s, o = sec[4]; fields = [(u16(o+8*i), u16(o+8*i+2), u32(o+8*i+4)) for i in range(s)]
s, o = sec[5]; methods = [(u16(o+8*i), u16(o+8*i+2), u32(o+8*i+4)) for i in range(s)]
s, o = sec[6]; cdefs = [tuple(u32(o+32*i+4*k) for k in range(8)) for i in range(s)]
tls = []
s, o = sec[0x1001]
for _ in range(s):
    k = u32(o); items = [u16(o+4+2*i) for i in range(k)]; o += 4+2*k
    pad = list(d[o:o+2]) if k % 2 else []
    o += len(pad); tls.append((items, pad))
def sleb(o):
    v, o2, item = uleb(o)
    bits = 7*len(item)
    if v & (1 << (bits-1)): v -= 1 << bits
    return v, o2, item
codes = []
s, o = sec[0x2001]
for _ in range(s):
    regs, ins, outs, tries, dbg, size = struct.unpack_from('<4H2I', d, o)
    insns = list(d[o+16:o+16+2*size]); q = o+16+2*size
    tail0 = q; plan = None; tpad = []
    if tries:
        if size % 2: tpad = list(d[q:q+2]); q += 2
        trs = []
        for _ in range(tries):
            trs.append((u32(q), u16(q+4), 0, u16(q+6))); q += 8
        n, q, nitem = uleb(q)
        hs = []
        for _ in range(n):
            sz, q, szitem = sleb(q)
            pairs = []
            for _ in range(abs(sz)):
                ty, q, tyi = uleb(q); ad, q, adi = uleb(q); pairs.append(((ty, tyi), (ad, adi)))
            ca = None
            if sz <= 0:
                cv, q, ci = uleb(q); ca = (cv, ci)
            hs.append(((sz, szitem), pairs, ca))
        plan = ((n, nitem), hs, trs)
    tail = list(d[tail0:q])
    ln = q - o
    padn = (4 - ln % 4) % 4
    pad = list(d[q:q+padn]); assert len(pad) == padn
    codes.append(((regs,ins,outs,tries,dbg,size), insns, tail, pad, tpad, plan)); o = q+padn
cds = []
s, o = sec[0x2000]
for _ in range(s):
    st = o
    ns = []
    hdr_items = []
    for _ in range(4):
        v, o, it = uleb(o); ns.append(v); hdr_items.append(it)
    lists = []
    for k in range(4):
        prev = 0; rows = []
        for _ in range(ns[k]):
            dv, o, di = uleb(o); fl, o, fi = uleb(o)
            if k >= 2:
                co, o, ci = uleb(o)
                prev += dv; rows.append((prev, fl, co, di, fi, ci))
            else:
                prev += dv; rows.append((prev, fl, di, fi))
        lists.append(rows)
    cds.append((hdr_items, lists, list(d[st:o])))


def encf(rows, prev='0'):
    if not rows: return f'(.nil {prev})'
    idx, fl, di, fi = rows[0]
    return (f'(.cons {prev} {idx} {fl} {L(di)} {L(fi)} _ _ (by decide) ⟨by decide, by decide, by decide⟩ '
            f'⟨by decide, by decide, by decide⟩ {encf(rows[1:], str(idx))})')
def encm(rows, prev='0'):
    if not rows: return f'(.nil {prev})'
    idx, fl, co, di, fi, ci = rows[0]
    return (f'(.cons {prev} {idx} {fl} {co} {L(di)} {L(fi)} {L(ci)} _ _ (by decide) ⟨by decide, by decide, by decide⟩ '
            f'⟨by decide, by decide, by decide⟩ ⟨by decide, by decide, by decide⟩ {encm(rows[1:], str(idx))})')
def fbytes(rows):
    out = []
    for r in rows: out += r[2] + r[3]
    return out
def mbytes(rows):
    out = []
    for r in rows: out += r[3] + r[4] + r[5]
    return out
def cdbytes(hdr, lists):
    return sum(hdr, []) + fbytes(lists[0]) + fbytes(lists[1]) + mbytes(lists[2]) + mbytes(lists[3])
def un(x): return '⟨%d, %s⟩' % (x[0], L(x[1]))
def planlit(plan):
    (n, hs, trs) = plan
    hl = ', '.join('⟨%s, [%s], %s⟩' % (un(sz), ', '.join('⟨%s, %s⟩' % (un(a), un(b)) for a, b in pairs),
                                       'none' if ca is None else 'some ' + un(ca)) for sz, pairs, ca in hs)
    tl = ', '.join('⟨%d, %d, %d, %d⟩' % t for t in trs)
    return '(⟨%s, [%s], [%s]⟩ : AgVerif.Spec.Tries.Plan)' % (un(n), hl, tl)

out = []
w = out.append

def emit_tables(sfx, strings, string_ids, type_ids, protos, fields, methods, tls, cds, codes, cdefs):
    T = 'T' + sfx
    w('def %s : Tables :=' % T)
    w('  { strings := [' + ', '.join('(%s, %s)' % (L(a), L(b)) for a, b in strings) + ']')
    w('    stringIds := ' + L(string_ids))
    w('    typeIds := ' + L(type_ids))
    w('    protoIds := [' + ', '.join('⟨%d, %d, %d⟩' % p for p in protos) + ']')
    w('    fieldIds := [' + ', '.join('⟨%d, %d, %d⟩' % p for p in fields) + ']')
    w('    methodIds := [' + ', '.join('⟨%d, %d, %d⟩' % p for p in methods) + ']')
    w('    typeLists := [' + ', '.join('(%s, %s)' % (L(a), L(b)) for a, b in tls) + ']')
    def cdlit(lists):
        f = lambda rows: '[' + ', '.join('⟨%d, %d⟩' % (r[0], r[1]) for r in rows) + ']'
        m = lambda rows: '[' + ', '.join('⟨%d, %d, %d⟩' % (r[0], r[1], r[2]) for r in rows) + ']'
        return '⟨%s, %s, %s, %s⟩' % (f(lists[0]), f(lists[1]), m(lists[2]), m(lists[3]))
    w('    classData := [' + ', '.join('(%s, %s)' % (cdlit(ls), L(cdbytes(h, ls))) for h, ls, _ in cds) + ']')
    w('    codes := [' + ', '.join('(⟨⟨%d, %d, %d, %d, %d, %d⟩, %s⟩, %s)' % (h + (L(i), L(t + p))) for h, i, t, p, _, _ in codes) + ']')
    w('    classDefs := [' + ', '.join('⟨%d, %d, %d, %d, %d, %d, %d, %d⟩' % c for c in cdefs) + '] }\n')
    assert len(cds) == 1
    hdr, lists, _ = cds[0]
    w('theorem cdEnc%s : ∀ c ∈ %s.classData,' % (sfx, T))
    w('    EncClassData (c.1.sf.map fun f => (f.idx, f.flags)) (c.1.inf.map fun f => (f.idx, f.flags))')
    w('      (c.1.dm.map fun m => (m.idx, m.flags, m.codeOff)) (c.1.vm.map fun m => (m.idx, m.flags, m.codeOff)) c.2 := by')
    w('  intro c hc')
    w('  simp only [%s, List.mem_singleton] at hc' % T)
    w('  subst hc')
    w('  exact ⟨%s, %s, %s, %s, %s, %s, %s, %s,' % tuple([L(x) for x in hdr] + [L(fbytes(lists[0])), L(fbytes(lists[1])), L(mbytes(lists[2])), L(mbytes(lists[3]))]))
    w('    ⟨by decide, by decide, by decide⟩, ⟨by decide, by decide, by decide⟩, ⟨by decide, by decide, by decide⟩,')
    w('    ⟨by decide, by decide, by decide⟩,')
    w('    ' + encf(lists[0]) + ',')
    w('    ' + encf(lists[1]) + ',')
    w('    ' + encm(lists[2]) + ',')
    w('    ' + encm(lists[3]) + ',')
    w('    by decide⟩\n')
    w('theorem codeRest%s : ∀ p ∈ %s.codes, ∃ tail pad, p.2 = tail ++ pad ∧ CodeTail p.1 tail ∧' % (sfx, T))
    w('    pad.length = (4 - (encCode p.1 ++ tail).length % 4) % 4 := by')
    w('  intro p hp')
    w('  simp only [%s, List.mem_cons, List.not_mem_nil, or_false] at hp' % T)
    w('  rcases hp with ' + ' | '.join(['rfl'] * len(codes)))
    for h, i, t, p, tpad, plan in codes:
        if plan is None:
            w('  · exact ⟨%s, %s, by decide, by unfold CodeTail; rw [if_pos (by decide)], by decide⟩' % (L(t), L(p)))
        else:
            w('  · refine ⟨%s, %s, by decide, ?_, by decide⟩' % (L(t), L(p)))
            w('    unfold CodeTail; rw [if_neg (by decide)]')
            w('    exact ⟨%s, %s, by decide, by decide, by decide, by decide, by decide, by decide⟩' % (L(tpad), planlit(plan)))
    w('')

w("""/-
GENERATED by harness/c05_mkexample.py from a DEX file written by harness/dexasm.py (class `LFoo;`
implementing `Ljava/lang/Runnable;`, source file, a static and an instance field, a constructor
and two virtual methods with code, one of them with a try block, a typed handler and a catch-all;
%d bytes).  The tables `T` and the layout `L` were read off the bytes.  `T2`/`L2` hold the same
content in a different layout (sections in another order, gaps, map entries in another order;
all stored offsets recomputed) for the writer `build`.  Every claim below is checked by the
kernel.  Non-vacuity witnesses for `parse_encode` and `parse_build` (Props/C05.lean).
-/
import AgVerif.Proof.DexBuild
namespace AgVerif.C05.Example
open AgVerif.DexFile AgVerif.LoadOrder AgVerif.Spec.Leb
open AgVerif.Spec.DexFile (ushort uint ULeb protoId fieldId methodId classDef typeListBody codeHdr EncFields EncMethods EncClassData)
""" % len(d))
w('def file : Bytes := ' + L(list(d)) + '\n')
w('def L : Layout := ⟨%d, [%s]⟩\n' % (map_off, ', '.join('⟨0x%x, %d, %d⟩' % e for e in entries)))
w("""theorem at_intro (file : Bytes) (off : Nat) (bs : Bytes)
    (h : (file.drop off).take bs.length = bs) (hlen : off ≤ file.length) : At file off bs := by
  refine ⟨file.take off, (file.drop off).drop bs.length, ?_, by simp [List.length_take]; omega⟩
  rw [List.append_assoc]
  conv => lhs; rw [← List.take_append_drop off file]
  congr 1
  conv => lhs; rw [← List.take_append_drop bs.length (file.drop off), h]

theorem section_intro {file : Bytes} {L : Layout} {t n : Nat} {bytes : Bytes} {al : Bool} (e : MapEntry)
    (hsec : L.sec t = some e) (hsz : e.size = n) (hal : al = true → e.offset % 4 = 0)
    (hat : (file.drop e.offset).take bytes.length = bytes) (hlen : e.offset ≤ file.length) :
    Section file L t n bytes al := by
  unfold Section
  rw [hsec]
  exact ⟨hsz, hal, at_intro _ _ _ hat hlen⟩

theorem strItem_dec (l : List (Bytes × Bytes))
    (h : ∀ s ∈ l, (IsItem s.1 ∧ s.1.length ≤ 5 ∧ (unsignedValue s.1).isSome = true) ∧ 0 ∉ s.2) :
    ∀ s ∈ l, (∃ n, ULeb s.1 n) ∧ 0 ∉ s.2 := by
  intro s hs
  obtain ⟨⟨h1, h2, h3⟩, h4⟩ := h s hs
  obtain ⟨n, hn⟩ := Option.isSome_iff_exists.mp h3
  exact ⟨⟨n, h1, h2, hn⟩, h4⟩

instance (h : AgVerif.Spec.Tries.EncHandler) : Decidable h.WF := by
  obtain ⟨size, pairs, ca⟩ := h
  unfold AgVerif.Spec.Tries.EncHandler.WF
  cases ca <;> exact inferInstance
""")
emit_tables('', strings, string_ids, type_ids, protos, fields, methods, tls, cds, codes, cdefs)
secs = [('strings', 0x2002), ('stringIds', 1), ('typeIds', 2), ('protoIds', 3), ('fieldIds', 4), ('methodIds', 5),
        ('typeLists', 0x1001), ('classData', 0x2000), ('codes', 0x2001), ('classDefs', 6)]
w('theorem encodes : Encodes file L T where')
w('  mapOff_ne := by decide')
w('  mapOff_lt := by decide')
w('  header := at_intro _ _ _ (by decide +kernel) (by decide +kernel)')
w('  mapLen := by decide')
w('  mapAt := at_intro _ _ _ (by decide +kernel) (by decide +kernel)')
w('  nodup := by decide +kernel')
w('  members := by decide +kernel')
w('  ranges := by decide +kernel')
w('  strItem := strItem_dec _ (by decide +kernel)')
w('  tlPad := by decide +kernel')
w('  cdEnc := cdEnc')
w('  codeRest := codeRest')
for name, t in secs:
    s_, o_ = sec[t]
    w('  %s := section_intro ⟨0x%x, %d, %d⟩ (by decide +kernel) (by decide +kernel) (by decide +kernel) (by decide +kernel) (by decide +kernel)' % (name, t, s_, o_))
w('')
w('theorem wf : WF T L := by decide +kernel\n')

# ---------- the same content in another layout ----------
def ul(v):
    o = []
    while True:
        b = v & 0x7f; v >>= 7
        if v: o.append(b | 0x80)
        else: o.append(b); return o
def al4(x): return (x + 3) & ~3
GAP = 8
pos = 0x70
off2 = {}
def place(t, size, align=True):
    global pos
    pos = al4(pos) + GAP
    off2[t] = pos; pos += size
# order: class_defs, codes, string data, map list, class data, method ids, type lists, field ids, protos, type ids, string ids
place(6, 32 * len(cdefs))
code_len = [16 + len(i) + len(t) + len(p) for h, i, t, p, _, _ in codes]
place(0x2001, sum(code_len))
code_old = []; o = sec[0x2001][1]
for n_ in code_len: code_old.append(o); o += n_
code_new = []; o = off2[0x2001]
for n_ in code_len: code_new.append(o); o += n_
cmap = dict(zip(code_old, code_new)); cmap[0] = 0
str_len = [len(a) + len(b) + 1 for a, b in strings]
place(0x2002, sum(str_len))
str_new = []; o = off2[0x2002]
for n_ in str_len: str_new.append(o); o += n_
str_old = []; o = sec[0x2002][1]
for n_ in str_len: str_old.append(o); o += n_
smap = dict(zip(str_old, str_new))
map_types = [0x2000, 6, 0x1001, 0x1000, 1, 0x2001, 5, 0, 3, 0x2002, 4, 2]
place(0x1000, 4 + 12 * len(map_types))
# class data with new code offsets
cds2 = []
for hdr, lists, _ in cds:
    nl = [lists[0], lists[1]]
    for k in (2, 3):
        rows = []
        for (idx, fl, co, di, fi, ci) in lists[k]:
            rows.append((idx, fl, cmap[co], di, fi, ul(cmap[co])))
        nl.append(rows)
    cds2.append((hdr, nl, None))
cd_len = [len(cdbytes(h, ls)) for h, ls, _ in cds2]
place(0x2000, sum(cd_len))
cd_old = []; o = sec[0x2000][1]
for h, ls, bs in cds: cd_old.append(o); o += len(bs)
cd_new = []; o = off2[0x2000]
for n_ in cd_len: cd_new.append(o); o += n_
dmap = dict(zip(cd_old, cd_new)); dmap[0] = 0
place(5, 8 * len(methods))
tl_len = [4 + 2 * len(a) + len(b) for a, b in tls]
place(0x1001, sum(tl_len))
tl_old = []; o = sec[0x1001][1]
for n_ in tl_len: tl_old.append(o); o += n_
tl_new = []; o = off2[0x1001]
for n_ in tl_len: tl_new.append(o); o += n_
tmap = dict(zip(tl_old, tl_new)); tmap[0] = 0
place(4, 8 * len(fields)); place(3, 12 * len(protos)); place(2, 4 * len(type_ids)); place(1, 4 * len(string_ids))
size2 = al4(pos) + GAP
string_ids2 = [smap[x] for x in string_ids]
protos2 = [(a, b, tmap[c]) for a, b, c in protos]
cdefs2 = []
for c in cdefs:
    assert c[5] == 0 and c[7] == 0
    cdefs2.append((c[0], c[1], c[2], tmap[c[3]], c[4], 0, dmap[c[6]], 0))
counts = {0: 1, 0x1000: 1, 1: len(string_ids), 2: len(type_ids), 3: len(protos), 4: len(fields), 5: len(methods),
          6: len(cdefs), 0x1001: len(tls), 0x2000: len(cds), 0x2001: len(codes), 0x2002: len(strings)}
off2[0] = 0
entries2 = [(t, counts[t], off2[t]) for t in map_types]
w('def L2 : Layout := ⟨%d, [%s]⟩\n' % (off2[0x1000], ', '.join('⟨0x%x, %d, %d⟩' % e for e in entries2)))
w('def size2 : Nat := %d\n' % size2)
emit_tables('2', strings, string_ids2, type_ids, protos2, fields, methods, tls, cds2, codes, cdefs2)
w('theorem itemsOk2 : ItemsOk T2 where')
w('  strItem := strItem_dec _ (by decide +kernel)')
w('  tlPad := by decide +kernel')
w('  cdEnc := cdEnc2')
w('  codeRest := codeRest2\n')
w('theorem consistent2 : Consistent T2 L2 size2 := by decide +kernel\n')
w('theorem wf2 : WF T2 L2 := by decide +kernel\n')
w('/-- the two layouts declare the same thing -/')
w('theorem same_view : declared T2 L2 = declared T L := by decide +kernel\n')
w('/-- and the written file is a different one -/')
w('theorem other_file : build T2 L2 size2 ≠ file := by decide +kernel\n')
w('end AgVerif.C05.Example')
open(os.path.join(os.path.dirname(os.path.dirname(os.path.abspath(__file__))), 'lean/AgVerif/Proof/DexExample.lean'), 'w').write('\n'.join(out) + '\n')
