"""
Independent ZIP writer for the APK properties (C31/C33/C34 ...).  It shares no code with androguard,
apkInspector or Python's `zipfile`: every header is packed here from the PKWARE APPNOTE layout, so
that `zipfile` (the oracle) and `apkInspector` (what androguard uses) both read something written
by a third party.

API (keep it this small):

    write_zip(entries, signing_block=None) -> bytes
        entries        list of (name: str, data: bytes, compress: bool)
                       name is stored as UTF-8; the language-encoding flag (bit 11) is set when the
                       name is not pure ASCII, so every reader decodes it the same way.
                       compress=False -> method 0 (stored); True -> method 8 (raw deflate).
        signing_block  optional bytes placed between the last local entry and the central directory
                       (an APK Signing Block as produced by harness/sigblock.py:encode_block);
                       the end-of-central-directory record's "offset of central directory" is
                       adjusted accordingly.  The bytes are inserted verbatim.

    layout(entries, signing_block=None) -> dict
        the same archive plus the offsets the tests need:
        {"bytes", "central_offset", "central_size", "eocd_offset", "block_offset" (or None)}

No data descriptors, no zip64, no archive comment, no extra fields, version 2.0, DOS time 1980-01-01.
Entries are written in the order given; duplicate names are written twice (readers disagree on
what that means — avoid them unless that is what you test).
"""
from __future__ import annotations

import struct
import zlib

LOCAL_SIG = b"PK\x03\x04"
CENTRAL_SIG = b"PK\x01\x02"
EOCD_SIG = b"PK\x05\x06"
DOS_TIME = 0
DOS_DATE = (0 << 9) | (1 << 5) | 1          # 1980-01-01


def _deflate_raw(data: bytes) -> bytes:
    c = zlib.compressobj(6, zlib.DEFLATED, -15)
    return c.compress(data) + c.flush()


def layout(entries, signing_block: bytes | None = None) -> dict:
    out = bytearray()
    central = bytearray()
    for name, data, compress in entries:
        raw_name = name.encode("utf-8")
        flags = 0x0800 if any(b >= 0x80 for b in raw_name) else 0
        method = 8 if compress else 0
        payload = _deflate_raw(data) if compress else bytes(data)
        crc = zlib.crc32(data) & 0xFFFFFFFF
        offset = len(out)
        out += LOCAL_SIG + struct.pack("<HHHHHIIIHH", 20, flags, method, DOS_TIME, DOS_DATE, crc,
                                       len(payload), len(data), len(raw_name), 0)
        out += raw_name
        out += payload
        central += CENTRAL_SIG + struct.pack("<HHHHHHIIIHHHHHII", 20, 20, flags, method, DOS_TIME, DOS_DATE,
                                             crc, len(payload), len(data), len(raw_name), 0, 0, 0, 0, 0,
                                             offset)
        central += raw_name
    block_offset = None
    if signing_block is not None:
        block_offset = len(out)
        out += signing_block
    central_offset = len(out)
    out += central
    eocd_offset = len(out)
    out += EOCD_SIG + struct.pack("<HHHHIIH", 0, 0, len(entries), len(entries), len(central), central_offset, 0)
    return {"bytes": bytes(out), "central_offset": central_offset, "central_size": len(central),
            "eocd_offset": eocd_offset, "block_offset": block_offset}


def write_zip(entries, signing_block: bytes | None = None) -> bytes:
    """entries: list[(name, data, compress)], signing_block: bytes|None -> the archive's bytes"""
    return layout(entries, signing_block)["bytes"]
