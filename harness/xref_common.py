"""Shared machinery of the C13..C16 checks (cross references, androguard/core/analysis/analysis.py).

* program descriptions (JSON-native) and a seeded random generator of them;
* assembling a description into 1..4 DEX files with the independent writer harness/dexasm.py;
* the *real* view: run androguard's `Analysis` (add every DEX in a given order, `create_xref()` once)
  and canonicalise everything observable into sections of sorted tuples of names/offsets — Python
  objects are replaced by the key they are registered under, and every place where an object is not
  the one registered under its key is reported in the `bad` list (so that key-based comparison cannot
  hide a duplicated stub or a misplaced object);
* the request line for the Lean driver `drv_C13` (names interned to space-free tokens that keep the
  leading `[`s and the `L`, which is all the model looks at) and the rendering of a view in the
  driver's reply format.

The expected view (the property's comprehensions) lives in harness/xref_oracle.py.
"""
from __future__ import annotations

import itertools
import os

from harness import dexasm
from harness.dexasm import (DexBuilder, Field, Method, Code, FieldRef, MethodRef, StringRef, TypeRef,
                            OPCODES, MNEMONICS, FORMAT_UNITS, REF_KIND)

# hand-modelled functions (normalised-AST hashes in gen/pins.json; same literal list in harness/props/c13..c16.py)
_A = "androguard/core/analysis/analysis.py"
PINS = [(_A, "Analysis.add"), (_A, "Analysis.create_xref"), (_A, "Analysis._create_xref"),
        (_A, "Analysis._resolve_method"), (_A, "Analysis._resolve_field"), (_A, "Analysis.get_call_graph"),
        (_A, "Analysis.get_field_analysis"), (_A, "Analysis.get_fields"), (_A, "Analysis.find_methods"),
        (_A, "ClassAnalysis.add_method"), (_A, "ClassAnalysis.add_field"),
        (_A, "ClassAnalysis.add_field_xref_read"), (_A, "ClassAnalysis.add_field_xref_write"),
        (_A, "ClassAnalysis.add_method_xref_to"), (_A, "ClassAnalysis.add_method_xref_from"),
        (_A, "ClassAnalysis.add_xref_to"), (_A, "ClassAnalysis.add_xref_from"),
        (_A, "ClassAnalysis.add_xref_new_instance"), (_A, "ClassAnalysis.add_xref_const_class"),
        (_A, "ClassAnalysis.get_field_analysis"),
        (_A, "MethodAnalysis.add_xref_to"), (_A, "MethodAnalysis.add_xref_from"),
        (_A, "MethodAnalysis.add_xref_read"), (_A, "MethodAnalysis.add_xref_write"),
        (_A, "MethodAnalysis.add_xref_new_instance"), (_A, "MethodAnalysis.add_xref_const_class"),
        (_A, "FieldAnalysis.add_xref_read"), (_A, "FieldAnalysis.add_xref_write"),
        (_A, "StringAnalysis.add_xref_from"), (_A, "REF_TYPE"),
        ("androguard/core/dex/__init__.py", "DEX.get_encoded_field_descriptor")]

SECTIONS = ["classes", "methods", "callTo", "callFrom", "clsTo", "clsFrom", "cg", "fields", "fRead", "fWrite",
            "mRead", "mWrite", "strings", "strFrom", "newInstM", "newInstC", "constClsM", "constClsC"]
PROP_SECTIONS = {
    "C13": ["classes", "methods", "callTo", "callFrom", "clsTo", "clsFrom", "cg"],
    "C14": ["fields", "fRead", "fWrite", "mRead", "mWrite"],
    "C15": ["classes", "strings", "strFrom", "newInstM", "newInstC", "constClsM", "constClsC", "clsTo", "clsFrom"],
    "C16": SECTIONS,
}

INVOKES = ["invoke-virtual", "invoke-super", "invoke-direct", "invoke-static", "invoke-interface",
           "invoke-virtual/range", "invoke-super/range", "invoke-direct/range", "invoke-static/range",
           "invoke-interface/range"]
FIELD_OPS = [OPCODES[o][0] for o in range(0x52, 0x6e)]
# instructions the analysis must ignore; several sit right next to the opcode ranges it tests
OTHER_PLAIN = [("nop",), ("const/4", 0, 1), ("move", 0, 1), ("monitor-enter", 0), ("array-length", 0, 1),
               ("aput-short", 0, 1, 2), ("aget", 0, 1, 2), ("neg-int", 0, 1), ("const-wide/high16", 0, 1),
               ("const-wide", 0, 5), ("move-exception", 0), ("add-int/lit8", 0, 1, 2)]
OTHER_TYPED = ["check-cast", "instance-of", "new-array", "filled-new-array", "filled-new-array/range"]


def desc_of(ret, params):
    """androguard's rendering of a prototype: '(I J)V'"""
    return "(" + " ".join(params) + ")" + ret


# --------------------------------------------------------------------------- description -> dexasm
def _operands(mn, ref):
    """dexasm operands for one described instruction"""
    op = MNEMONICS[mn]
    fmt = OPCODES[op][1]
    r = None
    if ref is not None:
        k = ref[0]
        if k == "t":
            r = TypeRef(ref[1])
        elif k == "m":
            r = MethodRef(ref[1], ref[2], ref[3], tuple(ref[4]))
        elif k == "s":
            r = StringRef(ref[1])
        elif k == "f":
            r = FieldRef(ref[1], ref[2], ref[3])
    if fmt in ("21c", "31c"):
        return (mn, 0, r)
    if fmt == "22c":
        return (mn, 0, 1, r)
    if fmt == "35c":
        return (mn, (0, 1), r)
    if fmt == "3rc":
        return (mn, (0, 1, 2), r)
    raise ValueError("no operand template for %s (%s)" % (mn, fmt))


def layout(code):
    """byte offsets (androguard's `get_instructions_idx`) of the described instructions"""
    offs, a = [], 0
    for it in code:
        offs.append(2 * a)
        a += FORMAT_UNITS[OPCODES[MNEMONICS[it[0]]][1]]
    return offs


def _item(it):
    mn, ref = it[0], it[1]
    if ref is None and len(it) > 2:
        return tuple([mn] + list(it[2]))
    if ref is None:
        return (mn,)
    return _operands(mn, ref)


def permute_string_data(data: bytes, layout, seed: int) -> bytes:
    """Rewrite the string_data section with the string_data_items in a seeded random PHYSICAL order,
    independent of the (still sorted) string_ids: items are byte-aligned and contiguous, so the section
    keeps its size; every string_id.string_data_off is patched and checksum/signature recomputed.
    (harness/dexasm.py always writes the items in index order and has no knob for this.)"""
    import random
    import struct
    sd = list(layout["string_data"])
    if len(sd) < 2:
        return data
    ends = sd[1:]
    q = sd[-1]
    while data[q] & 0x80:          # uleb128 utf16_size
        q += 1
    q += 1
    while data[q] != 0:            # MUTF-8 bytes never contain 0x00
        q += 1
    ends.append(q + 1)
    if any(b != a2 for b, a2 in zip(ends[:-1], sd[1:])) or sorted(sd) != sd:
        raise ValueError("string_data items are not contiguous")
    items = [bytes(data[a:b]) for a, b in zip(sd, ends)]
    order = list(range(len(sd)))
    random.Random(seed).shuffle(order)
    out = bytearray(data)
    at = sd[0]
    new_off = [0] * len(sd)
    for i in order:
        new_off[i] = at
        out[at:at + len(items[i])] = items[i]
        at += len(items[i])
    assert at == ends[-1]
    ids = layout["string_ids"]
    for i, off in enumerate(new_off):
        assert struct.unpack_from("<I", data, ids + 4 * i)[0] == sd[i]
        struct.pack_into("<I", out, ids + 4 * i, off)
    return dexasm.fix_checksum(bytes(out))


def build_dex(d):
    """(bytes of the DEX file, its string pool as the writer laid it out); `d["layout"]` (a seed) asks
    for a permuted physical order of the string_data_items"""
    b = DexBuilder()
    for s in d.get("strings", []):
        b.extra_strings.append(s)
    for c in d["classes"]:
        sf = [Field(n, t, 0x9) for n, t, st in c["fields"] if st]
        inf = [Field(n, t, 0x1) for n, t, st in c["fields"] if not st]
        dm, vm = [], []
        for m in c["methods"]:
            params = tuple(m["params"])
            nin = sum(2 if p in ("J", "D") else 1 for p in params) + (0 if m["static"] else 1)
            if m["code"] is None:
                code = None
                acc = 0x401
            else:
                code = Code(8 + nin, nin, 5, [_item(it) for it in m["code"]])
                acc = 0x9 if m["static"] else (0x10001 if m["name"] == "<init>" else 0x1)
            mm = Method(m["name"], m["ret"], params, acc, code)
            (dm if (m["static"] or m["name"] == "<init>") and code is not None else vm).append(mm)
        b.add_class(c["name"], static_fields=sf, instance_fields=inf, direct_methods=dm, virtual_methods=vm)
    data = b.build(version=d["version"].encode()) if d.get("version") else b.build()
    if d.get("layout"):
        data = permute_string_data(data, b.layout, d["layout"])
    return data, list(b.strings)


def merged(prog):
    """the single DEX holding all classes (and every extra pool string)"""
    lay = [d["layout"] for d in prog if d.get("layout")]
    ver = [d["version"] for d in prog if d.get("version")]
    return [dict({"strings": [s for d in prog for s in d.get("strings", [])],
                  "classes": [c for d in prog for c in d["classes"]]},
                 **({"layout": lay[0]} if lay else {}), **({"version": max(ver)} if ver else {}))]


# --------------------------------------------------------------------------- flat form (names only)
def flat(prog, pools):
    """[(pool strings, [(class, [(fname, ftype)], [(mname, desc, [(off, op, ref)])])])]
    ref = None | ('t', T) | ('m', C, N, desc) | ('s', S) | ('f', C, N, T)"""
    out = []
    for i, d in enumerate(prog):
        cl = []
        for c in d["classes"]:
            ms = []
            for m in c["methods"]:
                code = []
                if m["code"] is not None:
                    for off, it in zip(layout(m["code"]), m["code"]):
                        ref = it[1]
                        if ref is not None and ref[0] == "m":
                            ref = ("m", ref[1], ref[2], desc_of(ref[3], ref[4]))
                        elif ref is not None:
                            ref = tuple(ref)
                        code.append((off, MNEMONICS[it[0]], ref))
                ms.append((m["name"], desc_of(m["ret"], m["params"]), code))
            cl.append((c["name"], [(n, t) for n, t, _ in c["fields"]], ms))
        out.append((list(pools[i]), cl))
    return out


class Interner:
    """names -> space-free ASCII tokens that keep what the analysis looks at: the number of leading
    '[' and whether the rest starts with 'L'; equal rests get equal ids"""

    def __init__(self):
        self.ids = {}

    def __call__(self, s: str) -> str:
        k = 0
        while k < len(s) and s[k] == "[":
            k += 1
        rest = s[k:]
        i = self.ids.setdefault(rest, len(self.ids))
        return "[" * k + ("L" if rest[:1] == "L" else "x") + str(i)


def request(fl, I: Interner) -> str:
    t = ["xref", str(len(fl))]
    for pool, classes in fl:
        t.append(str(len(pool)))
        t += [I(s) for s in pool]
        t.append(str(len(classes)))
        for cn, fields, methods in classes:
            t += [I(cn), str(len(fields))]
            for n, ty in fields:
                t += [I(n), I(ty)]
            t.append(str(len(methods)))
            for mn, md, code in methods:
                t += [I(mn), I(md), str(len(code))]
                for off, op, ref in code:
                    t += [str(off), str(op)]
                    if ref is None:
                        t.append("n")
                    else:
                        t.append(ref[0])
                        t += [I(x) for x in ref[1:]]
    return " ".join(t)


def _mk(k, I):
    return ";".join(I(x) for x in k)


def render(view, I: Interner, sections=SECTIONS) -> str:
    """a view (dict section -> iterable of tuples of raw names) in the driver's reply format"""
    out = []
    for s in sections:
        items = []
        for t in view[s]:
            if s in ("classes",):
                items.append("%s:%d" % (I(t[0]), t[1]))
            elif s == "methods":
                items.append("%s:%d" % (_mk(t[0], I), t[1]))
            elif s in ("callTo", "callFrom"):
                items.append("%s:%s:%d" % (_mk(t[0], I), _mk(t[1], I), t[2]))
            elif s in ("clsTo", "clsFrom"):
                items.append("%s:%s:%d:%s:%d" % (I(t[0]), I(t[1]), t[2], _mk(t[3], I), t[4]))
            elif s == "cg":
                items.append("%s:%s" % (_mk(t[0], I), _mk(t[1], I)))
            elif s == "fields":
                items.append("%s:%s" % (I(t[0]), _mk(t[1], I)))
            elif s in ("fRead", "fWrite"):
                items.append("%s:%s:%s:%d" % (I(t[0]), _mk(t[1], I), _mk(t[2], I), t[3]))
            elif s in ("mRead", "mWrite"):
                items.append("%s:%s:%d" % (_mk(t[0], I), _mk(t[1], I), t[2]))
            elif s == "strings":
                items.append(I(t))
            elif s == "strFrom":
                items.append("%s:%s:%d" % (I(t[0]), _mk(t[1], I), t[2]))
            elif s in ("newInstM", "constClsM"):
                items.append("%s:%s:%d" % (_mk(t[0], I), I(t[1]), t[2]))
            elif s in ("newInstC", "constClsC"):
                items.append("%s:%s:%d" % (I(t[0]), _mk(t[1], I), t[2]))
        out.append(s + "=" + ",".join(sorted(items)))
    return "|".join(out)


def select(line: str, sections) -> str:
    """keep only the named sections of a driver reply"""
    if "=" not in line:
        return line
    parts = dict(p.split("=", 1) for p in line.split("|"))
    return "|".join(s + "=" + parts.get(s, "<missing>") for s in sections)


# --------------------------------------------------------------------------- the real analysis
def mkey(m):
    return (m.get_class_name(), m.get_name(), str(m.get_descriptor()))


def fkey(f):
    return (f.get_class_name(), f.get_name(), f.get_descriptor())


def analyse_real(vms):
    from androguard.core.analysis.analysis import Analysis
    dx = Analysis()
    for vm in vms:
        dx.add(vm)
    dx.create_xref()
    return dx


def load_vms(dex_bytes_list):
    from androguard.core import dex
    return [dex.DEX(b) for b in dex_bytes_list]


def real_view(dx):
    """(view, bad, fa): the canonical view of a finished Analysis, the list of identity
    inconsistencies, and per declared field what `Analysis.get_field_analysis` returns"""
    from androguard.core.analysis.analysis import ExternalMethod
    bad = []
    v = {s: [] for s in SECTIONS}
    ma_of = {}
    for name, ca in dx.classes.items():
        if ca.name != name:
            bad.append(("class-key", name, ca.name))
        v["classes"].append((name, int(ca.is_external())))
    for m, ma in dx.methods.items():
        k = mkey(m)
        if ma.get_method() is not m:
            bad.append(("method-object", k))
        v["methods"].append((k, int(ma.is_external())))
        if dx.get_method_analysis_by_name(*k) is not ma:
            bad.append(("method-hash", k))
        if isinstance(m, ExternalMethod) != ma.is_external():
            bad.append(("method-external-flag", k))
        ma_of[id(ma)] = k
    listed = []
    for name, ca in dx.classes.items():
        for ma in ca.get_methods():
            k = mkey(ma.get_method())
            listed.append(k)
            if k[0] != name or id(ma) not in ma_of:
                bad.append(("class-lists-foreign-method", name, k))
    if sorted(listed) != sorted(k for k, _ in v["methods"]):
        bad.append(("class-method-lists-differ-from-methods",))

    def M(ma, what):
        if id(ma) not in ma_of:
            bad.append(("unregistered-method-object", what, mkey(ma.get_method())))
            return mkey(ma.get_method())
        return ma_of[id(ma)]

    def C(ca, expect, what):
        n = ca.name
        if dx.classes.get(n) is not ca:
            bad.append(("unregistered-class-object", what, n))
        if expect is not None and n != expect:
            bad.append(("class-mismatch", what, n, expect))
        return n

    for m, ma in dx.methods.items():
        k = ma_of[id(ma)]
        for c, callee, off in ma.get_xref_to():
            ck = M(callee, "xref_to")
            C(c, ck[0], "xref_to")
            v["callTo"].append((k, ck, off))
        for c, caller, off in ma.get_xref_from():
            ck = M(caller, "xref_from")
            C(c, ck[0], "xref_from")
            v["callFrom"].append((k, ck, off))
        for c, f, off in ma.get_xref_read():
            C(c, k[0], "m.xref_read")
            v["mRead"].append((k, fkey(f), off))
        for c, f, off in ma.get_xref_write():
            C(c, k[0], "m.xref_write")
            v["mWrite"].append((k, fkey(f), off))
        for c, off in ma.get_xref_new_instance():
            v["newInstM"].append((k, C(c, None, "m.new_instance"), off))
        for c, off in ma.get_xref_const_class():
            v["constClsM"].append((k, C(c, None, "m.const_class"), off))
    for name, ca in dx.classes.items():
        for oth, refs in ca.get_xref_to().items():
            for kind, meth, off in refs:
                v["clsTo"].append((name, C(oth, None, "c.xref_to"), int(kind), M(meth, "c.xref_to"), off))
        for oth, refs in ca.get_xref_from().items():
            for kind, meth, off in refs:
                v["clsFrom"].append((name, C(oth, None, "c.xref_from"), int(kind), M(meth, "c.xref_from"), off))
        for meth, off in ca.get_xref_new_instance():
            v["newInstC"].append((name, M(meth, "c.new_instance"), off))
        for meth, off in ca.get_xref_const_class():
            v["constClsC"].append((name, M(meth, "c.const_class"), off))
        for fa in ca.get_fields():
            fk = fkey(fa.get_field())
            v["fields"].append((name, fk))
            for c, meth, off in fa.get_xref_read(True):
                mk_ = M(meth, "f.xref_read")
                C(c, mk_[0], "f.xref_read")
                v["fRead"].append((name, fk, mk_, off))
            for c, meth, off in fa.get_xref_write(True):
                mk_ = M(meth, "f.xref_write")
                C(c, mk_[0], "f.xref_write")
                v["fWrite"].append((name, fk, mk_, off))
    for s, sa in dx.strings.items():
        if sa.get_orig_value() != s:
            bad.append(("string-key", s))
        v["strings"].append(s)
        for c, meth, off in sa.get_xref_from(True):
            mk_ = M(meth, "s.xref_from")
            C(c, mk_[0], "s.xref_from")
            v["strFrom"].append((s, mk_, off))
    cg = dx.get_call_graph()
    for a, b in cg.edges():
        v["cg"].append((mkey(a), mkey(b)))
    v["cgNodes"] = sorted(mkey(n) for n in cg.nodes())
    # every field / method / class object the analysis refers to belongs to a DEX it holds
    own_f, own_m, own_c = set(), set(), set()
    for vm in dx.vms:
        for c in vm.get_classes():
            own_c.add(id(c))
            own_f.update(id(f) for f in c.get_fields())
            own_m.update(id(m_) for m_ in c.get_methods())
    for name, ca in dx.classes.items():
        if not ca.is_external() and id(ca.get_vm_class()) not in own_c:
            bad.append(("foreign-class-object", name))
        for fa_ in ca.get_fields():
            if id(fa_.get_field()) not in own_f:
                bad.append(("foreign-field-object", "FieldAnalysis in " + name, fkey(fa_.get_field())))
    for m, ma in dx.methods.items():
        if not ma.is_external() and id(m) not in own_m:
            bad.append(("foreign-method-object", mkey(m)))
        for _, f, off in list(ma.get_xref_read()) + list(ma.get_xref_write()):
            if id(f) not in own_f:
                bad.append(("foreign-field-object", "listed by method " + repr(mkey(m)), fkey(f)))
    # what Analysis.get_field_analysis(f) reports for every declared field
    fa = {}
    for vm in dx.vms:
        for c in vm.get_classes():
            for f in c.get_fields():
                a = dx.get_field_analysis(f)
                fk = fkey(f)
                if a is None:
                    fa[fk] = None
                else:
                    if a.get_field() is not f:
                        bad.append(("field-analysis-of-other-object", fk))
                    fa[fk] = (sorted((ma_of.get(id(m), ("?",)), off) for _, m, off in a.get_xref_read(True)),
                              sorted((ma_of.get(id(m), ("?",)), off) for _, m, off in a.get_xref_write(True)))
    for s in SECTIONS:
        v[s].sort()
    return v, bad, fa


def real_run(dex_bytes_list):
    """(view, bad, fa) or ('exc', type name, message)"""
    try:
        vms = load_vms(dex_bytes_list)
        dx = analyse_real(vms)
        return real_view(dx)
    except Exception as e:  # noqa
        return ("exc", type(e).__name__, str(e)[:200])


# --------------------------------------------------------------------------- program from a real DEX
def extract_program(vms):
    """the flat program of already parsed androguard DEX objects (shipped APKs): operands resolved
    through the DEX object's own pool accessors, by the Dalvik reference kind of the opcode
    (harness.dexasm.REF_KIND) — index resolution is C05's subject, not this one's"""
    out = []
    for vm in vms:
        cl = []
        for c in vm.get_classes():
            ms = []
            for m in c.get_methods():
                code = []
                for off, ins in m.get_instructions_idx():
                    op = ins.get_op_value()
                    kind = REF_KIND.get(op) if op < 0x100 else None
                    ref = None
                    if kind == "type":
                        ref = ("t", vm.get_cm_type(ins.get_ref_kind()))
                    elif kind == "string":
                        ref = ("s", vm.get_cm_string(ins.get_ref_kind()))
                    elif kind == "field":
                        fi = vm.get_cm_field(ins.get_ref_kind())
                        ref = ("f", fi[0], fi[2], fi[1])
                    elif kind == "method":
                        mi = vm.get_cm_method(ins.get_ref_kind())
                        ref = ("m", mi[0], mi[1], "".join(mi[2]))
                    code.append((off, op & 0xff if op < 0x100 else 0, ref))
                ms.append((m.get_name(), str(m.get_descriptor()), code))
            cl.append((c.get_name(), [(f.get_name(), f.get_descriptor()) for f in c.get_fields()], ms))
        out.append((list(vm.get_strings()), cl))
    return out


# --------------------------------------------------------------------------- generator
# The DEX SimpleNameChar alphabet by category (every category is used in every run: gen_program cycles
# through them with its `variant` argument).  'ws040' is legal only from DEX version 040 on, so those
# files are written with build(version=b'040').
NAME_CATEGORIES = [
    ("plain", [""]),
    ("ws-all-versions", ["\u1680", "\u205f", "\u3000"]),                       # Python's \s matches these
    ("ws040", [" ", "\u00a0", "\u2000", "\u2005", "\u200a", "\u202f"]),
    ("currency", ["\u20ac", "\u00a2", "\u00a3", "\u00a5"]),
    ("combining", ["e\u0301", "\u0915\u093f", "a\u0300\u0323"]),                  # NFD accents, Indic vowel sign
    ("symbols", ["\u2020", "\u2192", "\u00a7", "$", "-", "_", "\u2010", "\u2027"]),
    ("cjk", ["\u4e2d\u6587", "\u65e5\u672c\u8a9e", "\uffe6"]),
    ("rtl", ["\u05d0\u05d1", "\u0639\u0631\u0628"]),
    ("supplementary", ["\U0001f600", "\U00010400", "\U0010ffff"]),
]


def gen_program(rng, big=False, variant=None):
    ncls = rng.choice((1, 2, 2, 3, 3, 4, 5)) if not big else rng.randrange(4, 9)
    cat, extra_chars = NAME_CATEGORIES[(variant if variant is not None else rng.randrange(len(NAME_CATEGORIES))) % len(NAME_CATEGORIES)]

    def dec(name):
        """put characters of the run's category at the end, in the middle or at the start of a simple name"""
        x = rng.choice(extra_chars)
        if not x:
            return name
        k = rng.choice((len(name), len(name), 1, 0))
        return name[:k] + x + name[k:]

    pkg = dec("a") if rng.random() < 0.3 else "a"
    cnames = ["L%s/%s;" % (pkg, dec("C%d" % i)) for i in range(ncls)]
    ext = ["Ljava/%s;" % dec("E0"), "Ljava/E1;", "Lx/%s;" % dec("Y")]
    prim_arr = ["[I", "[[J", "[Z"]
    mnames = [dec("m0"), "m1", dec("run"), "<init>", "get"]
    C0 = cnames[0]
    protos = [("V", []), ("I", ["I", "J"]), (C0, ["[" + C0]), ("V", [ext[0]]), ("[I", [])]
    fnames = [dec("f0"), "f1", dec("g")]
    ftypes = ["I", "J", C0, "[I", ext[0], "Z"]
    strs = ["", "hello", C0, "a b", "[" + cnames[-1], mnames[0], "\u00e9\u4e2d", "I"]
    version = "040" if cat == "ws040" else None
    # declarations first, so that references can target them
    classes = []
    for cn in cnames:
        fields, seen = [], set()
        for _ in range(rng.choice((0, 1, 2, 3))):
            n, t = rng.choice(fnames), rng.choice(ftypes)
            if (n, t) not in seen:
                seen.add((n, t))
                fields.append([n, t, rng.randrange(2)])
        methods, seenm = [], set()
        for _ in range(rng.choice((0, 1, 1, 2, 3))):
            n = rng.choice(mnames)
            ret, params = rng.choice(protos)
            if n == "<init>":
                ret = "V"
            if (n, ret, tuple(params)) not in seenm:
                seenm.add((n, ret, tuple(params)))
                methods.append({"name": n, "ret": ret, "params": list(params),
                                "static": int(n != "<init>" and rng.random() < 0.4), "code": []})
        classes.append({"name": cn, "fields": fields, "methods": methods})
    all_methods = [(c["name"], m["name"], m["ret"], m["params"]) for c in classes for m in c["methods"]]
    all_fields = [(c["name"], f[0], f[1]) for c in classes for f in c["fields"]]

    def cls_target(allow_prim=True):
        r = rng.random()
        base = rng.choice(cnames) if r < 0.55 else rng.choice(ext)
        r2 = rng.random()
        if r2 < 0.2:
            return "[" * rng.choice((1, 2)) + base
        if r2 < 0.28 and allow_prim:
            return rng.choice(prim_arr)
        return base

    def meth_ref():
        r = rng.random()
        if r < 0.45 and all_methods:
            c, n, ret, params = rng.choice(all_methods)
            if rng.random() < 0.15:
                c = "[" + c
            return ["m", c, n, ret, list(params)]
        if r < 0.6 and all_methods:            # right class and name, other prototype (unresolved)
            c, n, ret, params = rng.choice(all_methods)
            ret2, params2 = rng.choice(protos)
            return ["m", c, n, ret2, list(params2)]
        ret, params = rng.choice(protos)
        return ["m", cls_target(), rng.choice(mnames + ["clone", "ext"]), ret, list(params)]

    def field_ref(cur):
        r = rng.random()
        own = [f for f in all_fields if f[0] == cur]
        oth = [f for f in all_fields if f[0] != cur]
        if r < 0.35 and own:
            return ["f"] + list(rng.choice(own))
        if r < 0.7 and oth:
            return ["f"] + list(rng.choice(oth))
        if r < 0.8 and all_fields:             # declared name, other type / other class: not declared
            c, n, t = rng.choice(all_fields)
            if rng.random() < 0.5:
                return ["f", c, n, rng.choice(ftypes)]
            return ["f", rng.choice(cnames), n, t]
        return ["f", rng.choice(ext + cnames), rng.choice(fnames), rng.choice(ftypes)]

    for c in classes:
        for m in c["methods"]:
            if rng.random() < 0.08:
                m["code"] = None
                m["static"] = 0
                continue
            code = []
            n = rng.choice((0, 1, 2, 3, 4, 6, 9)) if not big else rng.randrange(5, 30)
            recent = []
            for _ in range(n):
                r = rng.random()
                if recent and r < 0.12:
                    code.append(list(rng.choice(recent)))       # the same reference again, elsewhere
                elif r < 0.38:
                    code.append([rng.choice(INVOKES), meth_ref()])
                elif r < 0.5:
                    code.append([rng.choice(("const-string", "const-string/jumbo")), ["s", rng.choice(strs)]])
                elif r < 0.66:
                    t = rng.choice([c["name"], cls_target(), cls_target()])
                    code.append([rng.choice(("new-instance", "const-class")), ["t", t]])
                elif r < 0.86:
                    code.append([rng.choice(FIELD_OPS), field_ref(c["name"])])
                elif r < 0.92:
                    code.append([rng.choice(OTHER_TYPED), ["t", cls_target()]])
                else:
                    o = rng.choice(OTHER_PLAIN)
                    code.append([o[0], None, list(o[1:])])
                if code[-1][1] is not None:
                    recent.append(code[-1])
            code.append(["return-void", None, []])
            m["code"] = code
    # split into 1..4 DEX files
    ndex = min(ncls, rng.choice((1, 2, 2, 3, 3, 4)))
    order = list(range(ncls))
    rng.shuffle(order)
    parts = [[] for _ in range(ndex)]
    for j, ci in enumerate(order):
        parts[j % ndex if j < ndex else rng.randrange(ndex)].append(classes[ci])
    prog = []
    for p in parts:
        extra = [rng.choice(strs + ["unused"])] if rng.random() < 0.3 else []
        dd = {"strings": extra, "classes": p}
        if version:
            dd["version"] = version
        if rng.random() < 0.5:
            dd["layout"] = rng.randrange(1, 1 << 30)      # string_data_items in a permuted physical order
        prog.append(dd)
    return prog


def orders(n, limit=24):
    return list(itertools.permutations(range(n)))[:limit]


def shipped_apks(repo):
    d = os.path.join(repo, "tests", "data", "APK")
    return d


# --------------------------------------------------------------------------- running cases
def _stats(fl):
    from harness import xref_oracle as O
    d = {}
    defs = {cn: i for i, (_, cl) in enumerate(fl) for cn, _, _ in cl}
    def_f = {(cn, n, t) for _, cl in fl for cn, fs, _ in cl for n, t in fs}
    def_m = {(cn, mn, md) for _, cl in fl for cn, _, ms in cl for mn, md, _ in ms}
    d["dex_files_%d" % min(len(fl), 4)] = 1
    for i, (_, cl) in enumerate(fl):
        for cn, _, ms in cl:
            for mn, md, code in ms:
                for off, op, ref in code:
                    if op in O.INVOKE and ref:
                        ec = O.elem_class(ref[1])
                        k = ("invoke_primitive_array" if ec is None else
                             "invoke_internal" if (ec, ref[2], ref[3]) in def_m else
                             "invoke_unresolved_internal_class" if ec in defs else "invoke_external")
                        d[k] = d.get(k, 0) + 1
                        if ref[1].startswith("["):
                            d["invoke_array_receiver"] = d.get("invoke_array_receiver", 0) + 1
                        if op >= 0x74:
                            d["invoke_range_form"] = d.get("invoke_range_form", 0) + 1
                    elif op in O.CONST_STRING:
                        d["const_string" if op == 0x1a else "const_string_jumbo"] = d.get("const_string" if op == 0x1a else "const_string_jumbo", 0) + 1
                    elif op in (0x1c, 0x22) and ref:
                        ec = O.elem_class(ref[1])
                        k = ("classuse_primitive_array" if ec is None else "classuse_self" if ec == cn else
                             "classuse_internal" if ec in defs else "classuse_external")
                        d[k] = d.get(k, 0) + 1
                    elif 0x52 <= op <= 0x6d and ref:
                        f = tuple(ref[1:])
                        k = ("field_undeclared" if f not in def_f else "field_same_class" if f[0] == cn else
                             "field_other_class_same_dex" if defs[f[0]] == i else "field_other_dex")
                        d[k] = d.get(k, 0) + 1
                    else:
                        d["other_instruction"] = d.get("other_instruction", 0) + 1
    return d


def case_views(prog, order_list, with_merged):
    """run the real analysis for each add order (and the merged single DEX).
    -> list of (label, flat program in that order, result of real_run)"""
    built = [build_dex(d) for d in prog]
    out = []
    for od in order_list:
        fl = flat([prog[i] for i in od], [built[i][1] for i in od])
        out.append((list(od), fl, real_run([built[i][0] for i in od])))
    if with_merged:
        mp = merged(prog)
        data, pool = build_dex(mp[0])
        out.append(("merged", flat(mp, [pool]), real_run([data])))
    return out


def real_line(res, I, sections):
    if res[0] == "exc":
        return "exc:" + res[1]
    v, bad, _ = res
    line = render(v, I, sections)
    if sections is PROP_SECTIONS.get("C14"):      # identity problems that concern the property's own tables
        bad = [b for b in bad if "field" in b[0]]
    elif sections is PROP_SECTIONS.get("C15"):
        bad = [b for b in bad if b[0] in ("string-key", "unregistered-class-object", "class-mismatch", "class-key", "foreign-class-object")]
    if bad:
        line += "|bad=" + repr(sorted(set(map(repr, bad)))[:3])
    return line


def work(args):
    """one generated/corpus case -> requests, real lines, oracle findings, statistics"""
    from harness import xref_oracle as O
    prop, idx, prog, all_orders = args
    sections = PROP_SECTIONS[prop]
    n = len(prog)
    ol = orders(n) if all_orders else sorted({tuple(range(n)), tuple(reversed(range(n)))})
    views = case_views(prog, ol, with_merged=True)
    reqs, real, fails = [], [], []
    for label, fl, res in views:
        I = Interner()
        reqs.append(request(fl, I))
        real.append(real_line(res, I, sections))
        case = {"prog": prog, "order": label}
        if res[0] == "exc":
            fails.append((case, "the analysis raises " + res[1], None, "a finished analysis", res[2]))
            continue
        v, bad, fa = res
        e = O.expected(fl)
        found = []
        if prop == "C13":
            found = O.check_c13(e, v, bad)
        elif prop == "C14":
            found = O.check_c14(e, v, bad, fa)
        elif prop == "C15":
            found = O.check_c15(e, v, bad)
        for what, key, rel, detail in found[:4]:
            fails.append((case, what, key, rel, detail))
    if prop == "C16":
        ref = None
        for label, fl, res in views:
            if res[0] == "exc":
                continue
            if res[1]:
                fails.append(({"prog": prog, "order": label}, "objects are not the ones registered under their keys",
                              None, "identity", sorted(map(repr, res[1]))[:3]))
            if ref is None:
                ref = (label, res[0])
                continue
            d = O.view_diff(ref[1], res[0], SECTIONS)
            if d:
                fails.append(({"prog": prog, "order": label, "against": ref[0]},
                              "the analysis of the same classes differs between add order/split %r and %r" % (ref[0], label),
                              None, d[0], d[1]))
    st = _stats(views[0][1])
    st["dex_files_with_permuted_string_data"] = sum(1 for d in prog if d.get("layout"))
    allnames = "".join(c["name"] + "".join(f[0] for f in c["fields"]) + "".join(m["name"] for m in c["methods"])
                       for d in prog for c in d["classes"])
    for cat, chars in NAME_CATEGORIES[1:]:
        if any(ch in allnames for x in chars for ch in x if ord(ch) > 0x7f or ch == " "):
            st["programs_with_names_" + cat] = 1
    return idx, reqs, real, fails, st, len(views)


# --------------------------------------------------------------------------- history stream (renames)
# Between `Analysis.add` of each DEX and `create_xref()` the supported rename API may be used
# (EncodedField.set_name, EncodedMethod.set_name).  The expectation is fixed from the unchanged code:
# create_xref works with the names as they are when it runs; a rename changes the declaration and
# every reference to that very field_id / method_id *inside the same DEX* (array receivers `[LC;->m`,
# equal strings, other items with the same name and references from other DEX files keep their text).
# Renames after create_xref() are a control: the relations stay, only the keys print the new name.
# Method renames between add and create_xref are judged like field renames since
# fixes/C13-method-hashes-current-names.diff (create_xref re-keys Analysis.__method_hashes from the current
# names; before, the invoke of a renamed analysed method resolved to a fresh external stub: witness
# corpus/C13/history-method-rename-between-add-and-xref.json).  Not generated: ClassDefItem.set_name
# (Analysis.classes is keyed by the add()-time name, create_xref raises KeyError or misattributes; a rename of a
# class also leaves EncodedField.get_class_name() stale, so no consistent expectation exists; see
# fixes/optional-C13-classes-current-names.diff).

def _ren_key(r):
    return (r["cls"], r["name"], r["type"]) if r["kind"] == "field" else (r["cls"], r["name"], r["ret"], tuple(r["params"]))


def apply_renames(prog, renames):
    """the program as it reads after the renames (per-DEX rule above); a copy"""
    import copy
    q = copy.deepcopy(prog)
    for r in renames:
        d = q[r["dex"]]
        for c in d["classes"]:
            if r["kind"] == "field":
                if c["name"] == r["cls"]:
                    for f in c["fields"]:
                        if f[0] == r["name"] and f[1] == r["type"]:
                            f[0] = r["new"]
            else:
                if c["name"] == r["cls"]:
                    for m in c["methods"]:
                        if m["name"] == r["name"] and m["ret"] == r["ret"] and list(m["params"]) == list(r["params"]):
                            m["name"] = r["new"]
            for m in c["methods"]:
                for it in (m["code"] or []):
                    ref = it[1]
                    if ref is None:
                        continue
                    if r["kind"] == "field" and ref[0] == "f" and (ref[1], ref[2], ref[3]) == (r["cls"], r["name"], r["type"]):
                        ref[2] = r["new"]
                    if (r["kind"] == "method" and ref[0] == "m" and
                            (ref[1], ref[2], ref[3], list(ref[4])) == (r["cls"], r["name"], r["ret"], list(r["params"]))):
                        ref[2] = r["new"]
    return q


def gen_history(rng, prog, order):
    """1..3 renames of distinct defined items, preferring items that are referenced from their own DEX;
    when = 'before' (before any add) | ['at', k] (after the k-th add, k >= position of the item's DEX) | 'after'"""
    items = []
    for di, d in enumerate(prog):
        refs = set()
        for c in d["classes"]:
            for m in c["methods"]:
                for it in (m["code"] or []):
                    if it[1] is not None and it[1][0] == "f":
                        refs.add(("f", it[1][1], it[1][2], it[1][3]))
                    if it[1] is not None and it[1][0] == "m":
                        refs.add(("m", it[1][1], it[1][2], it[1][3], tuple(it[1][4])))
        for c in d["classes"]:
            for f in c["fields"]:
                w = 6 if ("f", c["name"], f[0], f[1]) in refs else 1
                items.append((w, {"kind": "field", "dex": di, "cls": c["name"], "name": f[0], "type": f[1]}))
            for m in c["methods"]:
                if m["name"] == "<init>":
                    continue
                w = 3 if ("m", c["name"], m["name"], m["ret"], tuple(m["params"])) in refs else 1
                items.append((w, {"kind": "method", "dex": di, "cls": c["name"], "name": m["name"],
                                  "ret": m["ret"], "params": list(m["params"])}))
    out, used = [], set()
    pos = {d: k for k, d in enumerate(order)}
    for n in range(rng.choice((1, 1, 2, 3))):
        if not items:
            break
        tot = sum(w for w, _ in items)
        x = rng.randrange(tot)
        for w, it in items:
            x -= w
            if x < 0:
                break
        k = (it["kind"], it["dex"]) + _ren_key(it)
        if k in used:
            continue
        used.add(k)
        r = dict(it, new="ren%d_%s" % (n, it["name"].strip("<>")))
        t = rng.choice(("before", "between", "between", "between", "after"))
        r["when"] = ["at", rng.randrange(pos[it["dex"]], len(order))] if t == "between" else t
        out.append(r)
    return out


def _find_items(vms_by_dex, renames):
    objs = []
    for r in renames:
        vm = vms_by_dex[r["dex"]]
        obj = None
        for c in vm.get_classes():
            if c.get_name() != r["cls"]:
                continue
            if r["kind"] == "field":
                for f in c.get_fields():
                    if f.get_name() == r["name"] and f.get_descriptor() == r["type"]:
                        obj = f
            else:
                for m in c.get_methods():
                    if m.get_name() == r["name"] and str(m.get_descriptor()) == desc_of(r["ret"], r["params"]):
                        obj = m
        objs.append(obj)
    return objs


def _map_view(v, renames):
    """the keys of a view after renaming objects (identity-based): every occurrence of the old key"""
    fm = {(r["cls"], r["name"], r["type"]): (r["cls"], r["new"], r["type"]) for r in renames if r["kind"] == "field"}
    mm = {(r["cls"], r["name"], desc_of(r["ret"], r["params"])): (r["cls"], r["new"], desc_of(r["ret"], r["params"]))
          for r in renames if r["kind"] == "method"}

    def f(x):
        if isinstance(x, tuple):
            if x in fm:
                return fm[x]
            if x in mm:
                return mm[x]
            return tuple(f(y) for y in x)
        return x
    return {s: sorted(f(t) for t in v[s]) for s in SECTIONS if s != "strings"}


def history_run(prog, order, renames):
    """-> ('exc', type, msg) | (flat renamed program, (view, bad, fa) after create_xref, control) where
    control = None or (section, detail) when the view after the 'after' renames is not the renamed view"""
    try:
        built = [build_dex(d) for d in prog]
        vms_by_dex = load_vms([b for b, _ in built])
        objs = _find_items(vms_by_dex, renames)
        if any(o is None for o in objs):
            return ("exc", "HarnessItemNotFound", repr(renames))
        from androguard.core.analysis.analysis import Analysis
        for r, o in zip(renames, objs):
            if r["when"] == "before":
                o.set_name(r["new"])
        dx = Analysis()
        for k, di in enumerate(order):
            dx.add(vms_by_dex[di])
            for r, o in zip(renames, objs):
                if isinstance(r["when"], list) and r["when"][1] == k:
                    o.set_name(r["new"])
        dx.create_xref()
        res = real_view(dx)
        early = [r for r in renames if r["when"] != "after"]
        late = [r for r in renames if r["when"] == "after"]
        # a rename made earlier changes the key a later 'after' rename of the same DEX sees: items are distinct, keys too
        px = apply_renames(prog, early)
        fl = flat([px[i] for i in order], [built[i][1] for i in order])
        control = None
        if late:
            for r, o in zip(renames, objs):
                if r["when"] == "after":
                    o.set_name(r["new"])
            v2 = real_view(dx)[0]
            want = _map_view(res[0], late)
            for s in want:
                if sorted(v2[s]) != want[s]:
                    from harness import xref_oracle as O
                    control = (s, O._first_diff(want[s], v2[s]))
                    break
        return fl, res, control
    except Exception as e:  # noqa
        import traceback
        return ("exc", type(e).__name__, (str(e) + " | " + traceback.format_exc().strip().splitlines()[-3].strip())[:300])


def history_work(args):
    from harness import xref_oracle as O
    prop, idx, prog, order, renames = args
    sections = [s for s in PROP_SECTIONS[prop] if s != "strings"] if False else PROP_SECTIONS[prop]
    case = {"prog": prog, "order": list(order), "history": renames}
    out = history_run(prog, order, renames)
    st = {"history_cases": 1}
    for r in renames:
        k = "history_%s_%s" % (r["kind"], r["when"] if isinstance(r["when"], str) else "between_add_and_xref")
        st[k] = st.get(k, 0) + 1
    if out[0] == "exc":
        return idx, None, None, [(case, "the analysis raises %s after a supported rename" % out[1], None, "a finished analysis", out[2])], st
    fl, res, control = out
    v, bad, fa = res
    I = Interner()
    rq = request(fl, I)
    rl = real_line(res, I, sections)
    e = O.expected(fl)
    found = (O.check_c13(e, v, bad) if prop == "C13" else O.check_c14(e, v, bad, fa) if prop == "C14"
             else O.check_c15(e, v, bad) if prop == "C15" else [])
    fails = [(case, what + " (names as they are when create_xref runs; history of renames in the case)", key, rel, detail)
             for what, key, rel, detail in found[:4]]
    if control is not None:
        fails.append((case, "renaming an item after create_xref changed a cross-reference table", None, control[0], control[1]))
    return idx, rq, rl, fails, st


# --------------------------------------------------------------------------- duplicate-class stream (C13, C15)
# One Analysis may hold DEX files that define the SAME class name (legal in an APK; also the same DEX
# parsed twice).  Which copy "wins" in Analysis.classes is the code's business (the later add shadows the
# earlier one) and outside the key-based Lean model, so this stream is oracle-only and judges the part of
# C13 / C15 that does not depend on the winner, on OBJECTS (no names involved):
#   * for every MethodAnalysis the analysis holds: each callee it reports lists it as caller at that
#     offset, and each caller listed reports the callee (from mirrors to);
#   * the call graph built with no filters has an edge exactly where some held MethodAnalysis reports a callee;
#   * every (method, offset) a class / string reports for new-instance, const-class, const-string is
#     reported back by that method resp. is an instruction site (mirror of the class-side and method-side lists).

def gen_dup_program(rng):
    """-> (prog, adds): adds = list of DEX indices to add, in order (an index may repeat: same DEX parsed twice)"""
    import copy
    prog = gen_program(rng)
    while len(prog) < 2:
        prog = gen_program(rng)
    for d in prog:
        d.pop("layout", None) if rng.random() < 0.5 else None
    kind = rng.choice(("identical-copy", "different-body", "same-dex-twice"))
    adds = list(range(len(prog)))
    if kind == "same-dex-twice":
        adds.append(rng.randrange(len(prog)))
    else:
        i, j = rng.sample(range(len(prog)), 2)
        src = rng.choice(prog[i]["classes"])
        have = {c["name"] for c in prog[j]["classes"]}
        if src["name"] not in have:
            if kind == "identical-copy":
                prog[j]["classes"].append(copy.deepcopy(src))
            else:
                donors = [c for d in prog for c in d["classes"] if c["name"] != src["name"]]
                body = copy.deepcopy(rng.choice(donors)) if donors else copy.deepcopy(src)
                body["name"] = src["name"]
                prog[j]["classes"].append(body)
    rng.shuffle(adds)
    return prog, adds, kind


def dup_work(args):
    prop, idx, prog, adds, kind = args
    case = {"prog": prog, "adds": adds, "duplicate": kind}
    st = {"duplicate_class_cases": 1, "duplicate_" + kind.replace("-", "_"): 1}
    try:
        built = [build_dex(d)[0] for d in prog]
        vms = load_vms([built[i] for i in adds])       # one DEX object per add, also for a repeated index
        dx = analyse_real(vms)
        fails = dup_check(dx, prop)
    except Exception as e:  # noqa
        return idx, [(case, "the analysis raises " + type(e).__name__ + " on DEX files that share a class name", None,
                      "a finished analysis", str(e)[:200])], st
    st["duplicate_shadowed_methods_with_callees"] = fails.pop() if fails and isinstance(fails[-1], int) else 0
    return idx, [(case, what, None, rel, detail) for what, rel, detail in fails[:3]], st


def dup_check(dx, prop):
    """object-level mirror / call-graph conditions; the last element of the result is a statistic (int)"""
    out = []
    mas = list(dx.methods.values())
    nm = lambda ma: mkey(ma.get_method())
    # statistic: methods of a shadowed class copy (not the copy Analysis.classes holds) that report callees
    shadowed = 0
    for vm in dx.vms:
        for c in vm.get_classes():
            ca = dx.classes.get(c.get_name())
            if ca is not None and ca.get_vm_class() is not c:
                shadowed += sum(1 for m in c.get_methods() if dx.get_method(m) is not None and dx.get_method(m).get_xref_to())
    if prop == "C13":
        held = {id(ma) for ma in mas}
        edges = set()
        for ma in mas:
            for _, callee, off in ma.get_xref_to():
                if id(callee) not in held:
                    out.append(("a reported callee is a MethodAnalysis the analysis does not hold", "held", [nm(ma), nm(callee), off]))
                if not any(c is ma and o == off for _, c, o in callee.get_xref_from()):
                    out.append(("a reported callee does not list the caller in its caller list", "mirror", [nm(ma), nm(callee), off]))
                edges.add((id(ma.get_method()), id(callee.get_method())))
            for _, caller, off in ma.get_xref_from():
                if not any(c is ma and o == off for _, c, o in caller.get_xref_to()):
                    out.append(("a listed caller does not report the callee", "mirror", [nm(caller), nm(ma), off]))
        cg = dx.get_call_graph()
        got = {(id(a), id(b)) for a, b in cg.edges()}
        names = {id(ma.get_method()): nm(ma) for ma in mas}
        for e in sorted(edges - got, key=repr)[:2]:
            out.append(("a callee is reported but the call graph has no such edge", "cg", [names.get(e[0]), names.get(e[1])]))
        for e in sorted(got - edges, key=repr)[:2]:
            out.append(("the call graph has an edge where no callee is reported", "cg", [names.get(e[0]), names.get(e[1])]))
    if prop == "C15":
        for ma in mas:
            for ca, off in ma.get_xref_new_instance():
                if not any(m is ma and o == off for m, o in ca.get_xref_new_instance()):
                    out.append(("a method's new-instance entry is missing from the class's instantiation list", "newInst", [nm(ma), ca.name, off]))
            for ca, off in ma.get_xref_const_class():
                if not any(m is ma and o == off for m, o in ca.get_xref_const_class()):
                    out.append(("a method's const-class entry is missing from the class's class-reference list", "constCls", [nm(ma), ca.name, off]))
        held = {id(ma) for ma in mas}
        for ca in dx.classes.values():
            for m, off in list(ca.get_xref_new_instance()) + list(ca.get_xref_const_class()):
                if id(m) not in held or not any(c is ca and o == off for c, o in list(m.get_xref_new_instance()) + list(m.get_xref_const_class())):
                    out.append(("a class lists a usage its method does not report", "classuse", [ca.name, nm(m), off]))
        # every const-string site of every added method is in the xrefs of the string it loads, nothing else
        from harness import xref_oracle as O
        want = set()
        for vm in dx.vms:
            for c in vm.get_classes():
                for m in c.get_methods():
                    ma = dx.get_method(m)
                    for off, ins in m.get_instructions_idx():
                        if ins.get_op_value() in O.CONST_STRING:
                            want.add((vm.get_cm_string(ins.get_ref_kind()), id(ma), off))
        got = {(s_, id(m), off) for s_, sa in dx.strings.items() for _, m, off in sa.get_xref_from(True)}
        if want != got:
            out.append(("string xrefs are not exactly the const-string instructions", "strFrom",
                        {"missing": len(want - got), "unexpected": len(got - want)}))
    out.append(shadowed)
    return out


# --------------------------------------------------------------------------- reuse across analyses (C13, C14, C15)
# Parsed DEX objects are kept and 2..3 Analysis objects are built from overlapping selections of them:
# the same object again, a re-parsed copy of a sibling, or a different sibling that declares the same
# classes with other bodies (and fewer fields); create_xref() runs on each.  Every Analysis is judged on
# its own by the usual oracle computed from exactly the DEX files it holds, and every field / method /
# class object it refers to must belong to one of ITS DEX objects (real_view's foreign-* checks).

def make_variant(d, seed):
    """the same classes with other bodies: a seeded sub-list of every method's instructions, some fields dropped"""
    import copy
    import random
    r = random.Random(seed)
    q = copy.deepcopy(d)
    for c in q["classes"]:
        c["fields"] = [f for f in c["fields"] if r.random() < 0.7]
        for m in c["methods"]:
            if m["code"] is not None:
                m["code"] = [it for it in m["code"][:-1] if r.random() < 0.6] + [m["code"][-1]]
    return q


def gen_reuse(rng, variant):
    prog = gen_program(rng, variant=variant)
    while len(prog) < 2:
        prog = gen_program(rng, variant=variant)
    n = len(prog)
    first = list(range(n))
    rng.shuffle(first)
    scen = [[[i, "same", 0] for i in first]]
    for _ in range(rng.choice((1, 1, 2))):
        sel = [i for i in range(n) if rng.random() < 0.8] or [0]
        rng.shuffle(sel)
        a = []
        for i in sel:
            mode = rng.choice(("same", "same", "reparse", "reparse", "variant"))
            a.append([i, mode, rng.randrange(1, 1 << 30) if mode == "variant" else 0])
        if all(x[1] == "same" for x in a) and len(a) > 1:
            a[-1][1] = "reparse"
        scen.append(a)
    return prog, scen


def reuse_work(args):
    from harness import xref_oracle as O
    prop, idx, prog, scen = args
    sections = PROP_SECTIONS[prop]
    st = {"reuse_cases": 1}
    reqs, real, fails = [], [], []
    try:
        built = [build_dex(d) for d in prog]
        base = load_vms([b for b, _ in built])
        for k, a in enumerate(scen):
            vms, descs, pools = [], [], []
            for i, mode, seed in a:
                st["reuse_" + mode] = st.get("reuse_" + mode, 0) + 1
                if mode == "same":
                    vms.append(base[i]); descs.append(prog[i]); pools.append(built[i][1])
                elif mode == "reparse":
                    vms.append(load_vms([built[i][0]])[0]); descs.append(prog[i]); pools.append(built[i][1])
                else:
                    dv = make_variant(prog[i], seed)
                    data, pool = build_dex(dv)
                    vms.append(load_vms([data])[0]); descs.append(dv); pools.append(pool)
            case = {"prog": prog, "reuse": scen, "analysis": k}
            try:
                res = real_view(analyse_real(vms))
            except Exception as e:  # noqa
                fails.append((case, "analysis #%d over reused DEX objects raises %s" % (k + 1, type(e).__name__), None, "", str(e)[:200]))
                continue
            fl = flat(descs, pools)
            I = Interner()
            reqs.append(request(fl, I)); real.append(real_line(res, I, sections))
            v, bad, fa = res
            e = O.expected(fl)
            found = (O.check_c13(e, v, bad) if prop == "C13" else O.check_c14(e, v, bad, fa) if prop == "C14"
                     else O.check_c15(e, v, bad) if prop == "C15" else [])
            for what, key, rel, detail in found[:3]:
                fails.append((case, what + " (analysis #%d of %d built from kept / re-parsed / variant DEX objects)" % (k + 1, len(scen)),
                              key, rel, detail))
    except Exception as e:  # noqa
        fails.append(({"prog": prog, "reuse": scen}, "harness error " + type(e).__name__, None, "", str(e)[:200]))
    return idx, reqs, real, fails, st


def load_corpus_full(prop):
    import json
    from harness.fw import VERIF
    d = os.path.join(VERIF, "corpus", prop)
    out = []
    if os.path.isdir(d):
        for fn in sorted(os.listdir(d)):
            if fn.endswith(".json"):
                out.append((fn, json.load(open(os.path.join(d, fn)))))
    return out


def load_corpus(prop):
    return [(fn, c["prog"]) for fn, c in load_corpus_full(prop) if "history" not in c and "adds" not in c and "reuse" not in c]


def shipped_cases(repo, quick):
    """[(name, list of dex bytes)] from tests/data/APK"""
    from androguard.core.apk import APK
    d = os.path.join(repo, "tests", "data", "APK")
    names = (["TestActivity.apk", "FieldsTest.dex", "AnalysisTest.dex", "Test.dex", "multidex.apk", "TC-debug.apk",
              "InterfaceCls.dex", "StringTests.dex", "ExceptionHandling.dex", "com.politedroid_4.apk"] if quick else
             sorted(f for f in os.listdir(d) if f.endswith((".apk", ".dex")) and os.path.getsize(os.path.join(d, f)) > 0
                    and os.path.getsize(os.path.join(d, f)) < 1000000))
    out = []
    for n in names:
        p = os.path.join(d, n)
        if not os.path.exists(p):
            continue
        try:
            if n.endswith(".dex"):
                out.append((n, [open(p, "rb").read()]))
            else:
                dl = list(APK(p).get_all_dex())
                if dl:
                    out.append((n, dl))
        except Exception:  # noqa  (not an APK this androguard can open: not this property's subject)
            continue
    return out


def shipped_work(args):
    from harness import xref_oracle as O
    prop, name, dexes = args
    sections = PROP_SECTIONS[prop]
    try:
        vms = load_vms(dexes)
        fl = extract_program(vms)
        dx = analyse_real(vms)
        res = real_view(dx)
    except Exception as e:  # noqa
        return name, None, None, [("shipped:" + name, "the analysis raises " + type(e).__name__, None, "", str(e)[:200])], {}
    I = Interner()
    rq = request(fl, I)
    names = [cn for _, cl in fl for cn, _, _ in cl]
    distinct = len(names) == len(set(names))
    v, bad, fa = res
    fails = []
    case = {"shipped": name}
    if distinct:
        e = O.expected(fl)
        found = (O.check_c13(e, v, bad) if prop == "C13" else O.check_c14(e, v, bad, fa) if prop == "C14"
                 else O.check_c15(e, v, bad) if prop == "C15" else [])
        seen = set()
        for what, key, rel, detail in found:
            if (what, key) in seen:
                continue
            seen.add((what, key))
            fails.append((case, what, key, rel, detail))
        if prop == "C16" and len(dexes) > 1:
            try:
                v2, bad2, _ = real_view(analyse_real(load_vms(list(reversed(dexes)))))
                d = O.view_diff(v, v2, SECTIONS)
                if d:
                    fails.append((case, "the analysis differs between the shipped DEX order and its reverse", None, d[0], d[1]))
            except Exception as e2:  # noqa
                fails.append((case, "the analysis raises " + type(e2).__name__ + " in reverse order", None, "", ""))
    st = {"shipped_files": 1, "shipped_instructions": sum(len(code) for _, cl in fl for _, _, ms in cl for _, _, code in ms),
          "shipped_duplicate_class_names_skipped": 0 if distinct else 1}
    return name, rq, real_line(res, I, sections) if distinct else None, fails, st


def run_property(ck, prop):
    import multiprocessing as mp
    from harness.fw import Driver, REPO
    import time as _t
    t0 = _t.time()
    ck.pins_changed(PINS)
    ck.run_gen("xrefops")
    ck.prove(exes=["drv_C13"])
    drv = Driver("drv_C13")
    t1 = _t.time()
    sections = PROP_SECTIONS[prop]
    all_orders = prop == "C16"
    big = (not ck.quick) or ck.escalated
    ngen = {"C13": (1500, 20000), "C14": (1500, 20000), "C15": (1500, 20000), "C16": (700, 8000)}[prop][1 if big else 0]
    nhist = 0 if prop == "C16" else (6000 if big else 600)
    if ck.p_errors:
        ngen *= 2      # a broken obligation: search deeper for a concrete failing input
    cases = [("corpus:" + fn, p) for fn, p in load_corpus(prop)]
    for i in range(ngen):
        cases.append(("gen:%d" % i, gen_program(ck.rng, big=(i % 50 == 49), variant=i)))
    ck.rule = ("generated programs (1..9 classes, 1..4 DEX files, invoke/const-string/new-instance/const-class/field "
               "instructions with internal, external, array and unresolved targets, repeated references) analysed "
               + ("in every permutation of the add order and as one merged DEX" if all_orders else
                  "in forward and reverse add order and as one merged DEX")
               + "; distinct = distinct request line; non-trivial = at least one xref-relevant instruction")
    reqs, real, req2case = [], [], {}
    nviews = 0
    dist = {}
    with mp.Pool(min(16, os.cpu_count() or 4)) as pool:
        results = pool.map(work, [(prop, i, p, all_orders) for i, (_, p) in enumerate(cases)], chunksize=8)
        shipped = shipped_cases(REPO, ck.quick)
        sres = pool.map(shipped_work, [(prop, n, d) for n, d in shipped], chunksize=1)
        # history stream: renames between add and create_xref (and before / after as controls)
        hcases = []
        for fn, cp in load_corpus_full(prop):
            if "history" in cp:
                hcases.append(("corpus:" + fn, cp["prog"], cp.get("order", list(range(len(cp["prog"])))), cp["history"]))
        for i in range(nhist):
            hp = gen_program(ck.rng, big=False, variant=i)
            od = list(range(len(hp)))
            ck.rng.shuffle(od)
            hh = gen_history(ck.rng, hp, od)
            if hh:
                hcases.append(("hist:%d" % i, hp, od, hh))
        hres = pool.map(history_work, [(prop, i, p, od, hh) for i, (_, p, od, hh) in enumerate(hcases)], chunksize=8)
        pres = []
        nreuse = 0 if prop == "C16" else (2500 if big else 250)
        rcases = []
        for fn, cp in load_corpus_full(prop):
            if "reuse" in cp:
                rcases.append(("corpus:" + fn, cp["prog"], cp["reuse"]))
        for i in range(nreuse):
            rp, rs = gen_reuse(ck.rng, i)
            rcases.append(("reuse:%d" % i, rp, rs))
        rres = pool.map(reuse_work, [(prop, i, p_, s_) for i, (_, p_, s_) in enumerate(rcases)], chunksize=4)
        ndup = 0 if prop not in ("C13", "C15") else (4000 if big else 400)
        dcases = []
        for fn, cp in load_corpus_full(prop):
            if "adds" in cp:
                dcases.append(("corpus:" + fn, cp["prog"], cp["adds"], cp.get("duplicate", "corpus")))
        for i in range(ndup):
            dp, da, dk = gen_dup_program(ck.rng)
            dcases.append(("dup:%d" % i, dp, da, dk))
        dres = pool.map(dup_work, [(prop, i, p_, a_, k_) for i, (_, p_, a_, k_) in enumerate(dcases)], chunksize=8)
    for idx, rq, rl, fails, st, nv in results:
        for a, b in zip(rq, rl):
            reqs.append(a); real.append(b)
            req2case[a] = {"prog": cases[idx][1], "name": cases[idx][0]}
        nviews += nv
        for case, what, key, exp, obs in fails:
            case = dict(case, name=cases[idx][0])
            ck.fail(case, what, key, exp, obs)
        for k, v in st.items():
            dist[k] = dist.get(k, 0) + v
    for name, rq, rl, fails, st in sres:
        if rq is not None and rl is not None:
            reqs.append(rq); real.append(rl)
            req2case[rq] = {"shipped": name}
        for case, what, key, exp, obs in fails:
            ck.fail(case if isinstance(case, dict) else {"shipped": name}, what, key, exp, obs)
        for k, v in st.items():
            dist[k] = dist.get(k, 0) + v
    for idx, rq, rl, fails, st in hres:
        if rq is not None:
            reqs.append(rq); real.append(rl)
            req2case[rq] = {"prog": hcases[idx][1], "order": hcases[idx][2], "history": hcases[idx][3], "name": hcases[idx][0]}
        nviews += 1
        for case, what, key, exp, obs in fails:
            ck.fail(dict(case, name=hcases[idx][0]), what, key, exp, obs)
        for k, v in st.items():
            dist[k] = dist.get(k, 0) + v
    for idx, rq, rl, fails, st in rres:
        for a, b in zip(rq, rl):
            reqs.append(a); real.append(b)
            req2case[a] = {"prog": rcases[idx][1], "reuse": rcases[idx][2], "name": rcases[idx][0]}
        nviews += len(rq)
        for case, what, key, exp, obs in fails:
            ck.fail(dict(case, name=rcases[idx][0]), what, key, exp, obs)
        for k, v in st.items():
            dist[k] = dist.get(k, 0) + v
    for idx, fails, st in dres:
        nviews += 1
        for case, what, key, exp, obs in fails:
            ck.fail(dict(case, name=dcases[idx][0]), what + " (DEX files sharing a class name)", key, exp, obs)
        for k, v in st.items():
            dist[k] = dist.get(k, 0) + v
    if dres:
        ck.partial.append("the duplicate-class stream (one Analysis holding DEX files that define the same class name, or the same "
                          "DEX twice) is judged by the object-level oracle only; the key-based Lean model does not cover it")
    for fl_ in pres:
        nviews += 1
        dist["history_probes"] = dist.get("history_probes", 0) + 1
        for case, what, key, exp, obs in fl_:
            ck.fail(case, what, key, exp, obs)
    t2 = _t.time()
    model = [select(l, sections) for l in drv.ask(reqs)]
    ck.notes.append("wall: proof leg (incl. waiting for the build lock) %.0fs, real analysis + oracle %.0fs, model %.0fs"
                    % (t1 - t0, t2 - t1, _t.time() - t2))
    if prop == "C15":       # of the class-level xref_to / xref_from tables only the class-usage entries are C15's (invokes: C13)
        def usage_only(line):
            parts = []
            for sec in line.split("|"):
                name, eq, body = sec.partition("=")
                if name in ("clsTo", "clsFrom") and eq:
                    body = ",".join(it for it in body.split(",") if it.split(":")[2:3] in (["28"], ["34"]))
                parts.append(name + eq + body)
            return "|".join(parts)
        real = [usage_only(l) for l in real]
        model = [usage_only(l) for l in model]
    ck.compare("xref-" + prop, ["%s [sections %s]" % (r, ",".join(sections)) if len(r) < 4000 else r[:4000] + "…" for r in reqs], real, model)
    for m in ck.corr_mismatch:
        for r, c in req2case.items():
            if m["request"].startswith(r[:3999]):
                m["case"] = c
                break
    nontrivial = set()
    for r in reqs:
        if any(t in r.split() for t in ("m", "s", "t", "f")):
            nontrivial.add(hash(r))
    samples = []
    for i in (0, len(reqs) // 2, len(reqs) - 1):
        if 0 <= i < len(reqs):
            samples.append({"request": reqs[i][:300], "real": real[i][:300]})
    ck.cover(evaluations=nviews + len(sres), distinct=nontrivial, samples=samples, dist=dist)
    ck.assumptions.append("Python objects are identified by the key the code registers them under; the harness reports "
                          "every object that is not the registered one (bad=...), so a duplicated stub or misplaced object is visible")
    ck.assumptions.append("DEX parsing and index resolution (C01, C05) are not this model's subject: operands reach the model resolved to names")
    ck.assumptions.append("a stripped type that is empty (Python IndexError) and duplicate class names across DEX files are outside the model")
    if prop == "C14":
        ck.partial.append("C14_full is refuted (C14_refuted): accesses from a class other than the declaring one are recorded in a "
                          "FieldAnalysis held by the accessing class (known finding field-of-other-class, pinned by tests/test_analysis.py::testAPK); "
                          "proved: method_lists_field (full), field_xref_recorded / field_analyses_exact (where the code records), "
                          "field_xref_on_owner_partial and one_field_analysis_partial under FieldAccessesWithinOwnClass")
        ck.notes.append("registered against the tree with fixes/C14-field-in-other-dex.diff applied")
    if prop == "C16":
        ck.notes.append("registered against the tree with fixes/C14-field-in-other-dex.diff applied")
    return drv


def replay_case(ck, rp, prop):
    from harness import xref_oracle as O
    c = rp.get("case") or rp.get("first_divergence", {}).get("case") or {}
    print("replay", {k: v for k, v in c.items() if k != "prog"})
    if "prog" in c and "reuse" in c:
        print("reuse across analyses:", c["reuse"], "failing analysis index", c.get("analysis"))
        r = reuse_work((prop, 0, c["prog"], c["reuse"]))
        for f in r[3]:
            print("  analysis #%s:" % (f[0].get("analysis", 0) + 1), f[1][:150], f[2], f[3], f[4])
        print("  statistics:", r[4])
    elif "prog" in c and "adds" in c:
        print("duplicate-class case:", c.get("duplicate"), "adds", c["adds"])
        r = dup_work((prop, 0, c["prog"], c["adds"], c.get("duplicate", "corpus")))
        for f in r[1]:
            print("  ", f[1], f[3], f[4])
        print("  statistics:", r[2])
    elif "prog" in c and "history" in c:
        print("history (renames):", c["history"], "add order", c.get("order"))
        out = history_run(c["prog"], c.get("order", list(range(len(c["prog"])))), c["history"])
        if out[0] == "exc":
            print("  real: raises", out[1], out[2])
        else:
            fl, (v, bad, fa), control = out
            e = O.expected(fl)
            for s_ in PROP_SECTIONS[prop]:
                print("  %-9s real %s" % (s_, v[s_]))
                if s_ in e and e[s_] != v[s_]:
                    print("  %-9s WANT %s" % ("", e[s_]))
            if bad:
                print("  identity problems:", bad[:5])
            if prop == "C14":
                print("  get_field_analysis:", fa)
            if control:
                print("  after-create_xref rename control:", control)
    elif "prog" in c:
        prog = c["prog"]
        order = c.get("order", list(range(len(prog))))
        for label in ([order] if order != "merged" else []) + ["merged"] + ([c["against"]] if c.get("against") not in (None, "merged") else []):
            views = case_views(prog, [label] if label != "merged" else [], with_merged=(label == "merged"))
            for lab, fl, res in views:
                print("add order", lab)
                if res[0] == "exc":
                    print("  real: raises", res[1], res[2]); continue
                v, bad, fa = res
                e = O.expected(fl)
                for s in PROP_SECTIONS[prop]:
                    if s in e:
                        print("  %-9s real %s" % (s, v[s]))
                        if e[s] != v[s]:
                            print("  %-9s WANT %s" % ("", e[s]))
                    else:
                        print("  %-9s real %s" % (s, v[s]))
                if bad:
                    print("  identity problems:", bad[:5])
                if prop == "C14":
                    print("  get_field_analysis:", fa)
    elif "shipped" in c:
        print(shipped_work((prop, c["shipped"], dict(shipped_cases(__import__("harness.fw").fw.REPO, False)).get(c["shipped"], [])))[3])
    fd = rp.get("first_divergence")
    if fd:
        print("real :", fd.get("real")); print("model:", fd.get("model"))
    return 0
