"""
Framework shared by every property check (DESIGN.md sections 1-4, 9).

A check has three legs:
  P  proof           gen -> lake build of Props/Cxx + driver -> axiom audit + source grep
  T  tie             correspondence: real androguard (in-process) vs the Lean model's driver
  S  search          an independent oracle run against the real code

and one verdict (Check.finish):
  unlisted failing input                       -> VIOLATION property=<id> replay=<file>          exit 1
  P or T broken, no unlisted failing input     -> VIOLATION ... no-failing-input-found          exit 1
  failing input listed in known_findings.jsonl -> KNOWN-FINDING: property=<id> <what>           exit 0
  tool failure / timeout                       -> exit 2, no VIOLATION line
"""
from __future__ import annotations

import fcntl
import hashlib
import json
import os
import random
import re
import subprocess
import sys
import tempfile
import time
import traceback

VERIF = os.path.dirname(os.path.dirname(os.path.abspath(__file__)))
REPO = os.environ.get("VERIF_REPO", "/repo")
LEAN_DIR = os.path.join(VERIF, "lean")
GEN_DIR = os.path.join(LEAN_DIR, "AgVerif", "Gen")
AUDIT_DIR = os.path.join(LEAN_DIR, "AgVerif", "Audit")
BIN_DIR = os.path.join(LEAN_DIR, ".lake", "build", "bin")
ALLOWED_AXIOMS = {"propext", "Classical.choice", "Quot.sound"}
FORBIDDEN = [r"\bsorry\b", r"\badmit\b", r"^\s*axiom\s", r"\bnative_decide\b", r"\bbv_decide\b",
             r"\bimplemented_by\b", r"\bunsafe\s", r"maxHeartbeats\s+0\b", r"\bextern\b"]
TRUSTED_BASE = [
    "Lean 4.33.0 kernel (lake build; thorough tier also leanchecker on the compiled .olean)",
    "axioms allowed: propext, Classical.choice, Quot.sound (audited with #print axioms per theorem)",
    "no sorry/admit/axiom/native_decide/bv_decide/implemented_by/unsafe (source grep each run)",
    "translator gen/*.py (regenerates lean/AgVerif/Gen/*.lean from the working tree of the repository)",
    "correspondence harness harness/*.py + Driver/*.lean (line protocol, canonicalisation)",
    "specifications in lean/AgVerif/Spec/*.lean (hand transcriptions of the format documents)",
    "CPython and third-party libraries are modelled, not verified",
]


class ToolFailure(Exception):
    """the machinery itself failed (exit 2): never a verdict about androguard"""


class StopSearch(Exception):
    """the verdict is settled (an unlisted failing input is on record and the run has already been going on
    for a while): stop generating more cases and go to Check.finish()"""


def quiet_androguard():
    """androguard logs through loguru to stderr; keep check output readable."""
    try:
        from loguru import logger
        logger.remove()
    except Exception:
        pass


def sha(s) -> str:
    if isinstance(s, str):
        s = s.encode()
    return hashlib.sha256(s).hexdigest()[:12]


def strip_lean_comments(src: str) -> str:
    # block comments (nested) then line comments
    out, depth, i = [], 0, 0
    while i < len(src):
        if src.startswith("/-", i):
            depth += 1; i += 2; continue
        if depth and src.startswith("-/", i):
            depth -= 1; i += 2; continue
        if depth == 0:
            out.append(src[i])
        elif src[i] == "\n":
            out.append("\n")
        i += 1
    return "\n".join(l.split("--")[0] for l in "".join(out).split("\n"))


class Driver:
    """the Lean model behind the line protocol (native executable built by lake)"""

    def __init__(self, exe: str):
        self.exe = os.path.join(BIN_DIR, exe)
        if not os.path.exists(self.exe):
            raise ToolFailure(f"driver {self.exe} is not built")

    def ask(self, lines, timeout=3600):
        """lines: list[str] (no newlines inside). returns list[str] of the same length."""
        if not lines:
            return []
        with tempfile.NamedTemporaryFile("w", suffix=".req", delete=False) as f:
            for l in lines:
                assert "\n" not in l
                f.write(l); f.write("\n")
            name = f.name
        try:
            with open(name) as fin:
                p = subprocess.run([self.exe], stdin=fin, capture_output=True, text=True, timeout=timeout)
        except subprocess.TimeoutExpired:
            raise ToolFailure(f"driver {self.exe} timed out")
        finally:
            os.unlink(name)
        if p.returncode != 0:
            raise ToolFailure(f"driver {self.exe} exited {p.returncode}: {p.stderr[-400:]}")
        out = p.stdout.split("\n")
        if out and out[-1] == "":
            out.pop()
        if len(out) != len(lines):
            raise ToolFailure(f"driver {self.exe}: {len(lines)} requests, {len(out)} replies")
        return out


class Check:
    def __init__(self, prop: str, tier: str, seed: int):
        self.prop, self.tier, self.seed = prop, tier, seed
        self.quick = tier == "quick"
        self.t0 = time.time()
        self.rng = random.Random(f"{prop}/{seed}")
        # leg P
        self.obligations: list[str] = []
        self.discharged: list[str] = []
        self.p_errors: list[dict] = []          # broken theorems / build errors
        self.axioms: dict[str, list[str]] = {}
        self.checker_cmd = ""
        # leg T
        self.corr_cases = 0
        self.corr_mismatch: list[dict] = []
        self.corr_streams: dict[str, int] = {}
        # leg S
        self.search_cases = 0
        self.failures: list[dict] = []          # failing inputs on the real code
        # coverage
        self.evaluations = 0
        self.distinct: set = set()
        self.rule = ""
        self.samples: list = []
        self.dist: dict = {}
        self.assumptions: list[str] = []
        self.notes: list[str] = []
        self.partial: list[str] = []
        self.known = load_known(prop)
        self.lines_out: list[str] = []
        self.escalated = False

    # ------------------------------------------------------------------ leg P
    def write_gen(self, name: str, text: str):
        """write lean/AgVerif/Gen/<name>.lean only when its content changed"""
        os.makedirs(GEN_DIR, exist_ok=True)
        path = os.path.join(GEN_DIR, name + ".lean")
        old = open(path).read() if os.path.exists(path) else None
        if old != text:
            with open(path + ".tmp", "w") as f:
                f.write(text)
            os.replace(path + ".tmp", path)

    def run_gen(self, genmod: str):
        """run translator module gen/<genmod>.py (function generate(repo) -> {name: lean text}).
        A translator that cannot read the source any more is a broken proof obligation, not a crash."""
        try:
            mod = __import__(f"gen.{genmod}", fromlist=["generate"])
            files = mod.generate(REPO)
            with build_lock():
                for name, text in files.items():
                    self.write_gen(name, text)
                record_gen_modules(genmod, list(files))
            self._gens_run = getattr(self, "_gens_run", set()) | {genmod}
            return True
        except Exception as e:  # noqa
            self._gens_run = getattr(self, "_gens_run", set()) | {genmod}
            self.p_errors.append({"kind": "translator", "theorem": f"gen/{genmod}.py",
                                  "message": "".join(traceback.format_exception_only(type(e), e))[-2000:]})
            return False

    def regen_closure(self, props_file, exes=()):
        """Regenerate, from the tree under test, every generated module that the property's theorems or drivers import,
        whichever check owns its translator: a Gen file left behind by a run of ANOTHER check (possibly against another
        tree) must never decide this one. The module -> translator map is gen/modules.json (kept up to date by run_gen)."""
        files = [props_file] + [os.path.join(LEAN_DIR, "Driver", e[4:] + ".lean") for e in exes if e.startswith("drv_")]
        need, seen, todo = set(), set(), [f for f in files if os.path.exists(f)]
        while todo:
            f = todo.pop()
            if f in seen:
                continue
            seen.add(f)
            for m in re.finditer(r"^import\s+((?:AgVerif|Driver)\.[\w.]+)", open(f).read(), re.M):
                parts = m.group(1).split(".")
                if parts[:2] == ["AgVerif", "Gen"]:
                    need.add(parts[2])
                q = os.path.join(LEAN_DIR, *parts) + ".lean"
                if os.path.exists(q):
                    todo.append(q)
        try:
            mp = json.load(open(GEN_MODULES))
        except Exception:
            mp = {}
        for g in sorted(need):
            script = mp.get(g)
            if script and script not in getattr(self, "_gens_run", set()):
                self.run_gen(script)

    def prove(self, exes=(), modules=None, extra_modules=()):
        """build Props/<prop> (+ driver executables), audit axioms, grep sources.
        Fills obligations/discharged/p_errors. Returns True when every obligation is discharged."""
        prop = self.prop
        props_mod = f"AgVerif.Props.{prop}"
        props_file = os.path.join(LEAN_DIR, "AgVerif", "Props", f"{prop}.lean")
        src = open(props_file).read()
        code = strip_lean_comments(src)
        ns = re.search(r"^namespace\s+(\S+)", code, re.M)
        ns = ns.group(1) if ns else ""
        names = re.findall(r"^\s*(?:private\s+|protected\s+)?theorem\s+([^\s:({\[]+)", code, re.M)
        self.obligations = [f"{ns}.{n}" if ns else n for n in names]
        targets = [props_mod] + list(extra_modules) + list(exes)
        self.regen_closure(props_file, exes)
        self.checker_cmd = ("cd lean && lake build " + " ".join(targets) +
                            f" && lake env lean AgVerif/Audit/{prop}.lean   # #print axioms")
        with build_lock():
            ok, log = lake_build(targets)
            if not ok:
                # find which theorem(s) broke: map error lines to enclosing theorem
                errs = parse_lean_errors(log)
                for e in errs[:5]:
                    e["theorem"] = enclosing_theorem(e.get("file"), e.get("line")) or e.get("file") or "lake build"
                    self.p_errors.append(dict(kind="build", **e))
                if not errs:
                    self.p_errors.append({"kind": "build", "theorem": "lake build", "message": log[-3000:]})
                # build drivers alone so that T and S can still run
                if exes:
                    ok2, log2 = lake_build(list(exes))
                    if not ok2:
                        self.p_errors.append({"kind": "build", "theorem": "driver", "message": log2[-2000:]})
                return False
            # axiom audit
            os.makedirs(AUDIT_DIR, exist_ok=True)
            audit = os.path.join(AUDIT_DIR, f"{prop}.lean")
            with open(audit, "w") as f:
                f.write(f"import {props_mod}\n" + "".join(f"#print axioms {n}\n" for n in self.obligations))
            p = subprocess.run(["lake", "env", "lean", audit], cwd=LEAN_DIR, capture_output=True, text=True)
            out = p.stdout + p.stderr
            if self.tier == "thorough":
                mods = [props_mod]
                q = subprocess.run(["lake", "env", "leanchecker"] + mods, cwd=LEAN_DIR,
                                   capture_output=True, text=True)
                self.checker_cmd += " && lake env leanchecker " + " ".join(mods)
                if q.returncode != 0:
                    self.p_errors.append({"kind": "leanchecker", "theorem": props_mod,
                                          "message": (q.stdout + q.stderr)[-2000:]})
        found = {}
        for m in re.finditer(r"'([^']+)' (?:depends on axioms: \[([^\]]*)\]|does not depend on any axioms)", out, re.S):
            ax = [a.strip() for a in (m.group(2) or "").replace("\n", " ").split(",") if a.strip()]
            found[m.group(1)] = ax
        for n in self.obligations:
            if n not in found:
                self.p_errors.append({"kind": "audit", "theorem": n, "message": "no #print axioms output: " + out[-500:]})
                continue
            self.axioms[n] = found[n]
            bad = [a for a in found[n] if a not in ALLOWED_AXIOMS]
            if bad:
                self.p_errors.append({"kind": "axioms", "theorem": n, "message": f"depends on {bad}"})
            else:
                self.discharged.append(n)
        # source grep over the import closure of the property module and its drivers (comments stripped)
        for path in lean_closure([props_file] + [os.path.join(LEAN_DIR, "Driver", e[4:] + ".lean") for e in exes if e.startswith("drv_")]):
            body = strip_lean_comments(open(path).read())
            for pat in FORBIDDEN:
                m = re.search(pat, body, re.M)
                if m:
                    self.p_errors.append({"kind": "forbidden", "theorem": os.path.relpath(path, LEAN_DIR),
                                          "message": f"forbidden token {m.group(0)!r}"})
        return not self.p_errors

    # ------------------------------------------------------------------ pins (DESIGN 3.1)
    def pins_changed(self, pins):
        """pins: list of (path relative to the repository, qualified name like 'Class.method' or 'function').
        Compares the normalised-AST hash of each hand-modelled function with gen/pins.json (recorded on the
        tree the model was written for; `tools/mkpins.py` rewrites it). A changed hash is NOT a verdict: it
        only tells the property module to escalate (self.escalated = True -> use thorough sizes and the
        large-size streams even in the quick tier), because the hand-written model may now be stale."""
        import ast
        try:
            recorded = json.load(open(os.path.join(VERIF, "gen", "pins.json")))
        except Exception:
            recorded = {}
        changed = []
        for rel, qual in pins:
            key = f"{rel}::{qual}"
            try:
                tree = ast.parse(open(os.path.join(REPO, rel)).read())
                node = tree
                for part in qual.split("."):
                    node = next(n for n in ast.walk(node) if isinstance(n, (ast.FunctionDef, ast.ClassDef, ast.AsyncFunctionDef)) and n.name == part)
                h = sha(ast.dump(node, include_attributes=False))
            except Exception as e:  # noqa
                h = "missing:" + type(e).__name__
            if recorded.get(key) != h:
                changed.append(key)
            self.dist.setdefault("pins", {})[key] = h
        if changed:
            self.escalated = True
            self.notes.append("modelled functions changed since the model was written (escalated search): " + ", ".join(changed))
        return changed

    # ------------------------------------------------------------------ leg T
    def compare(self, stream: str, requests, real, model, limit=5):
        """correspondence: same request, real androguard's canonical reply vs the model's."""
        assert len(requests) == len(real) == len(model), (len(requests), len(real), len(model))
        n = 0
        for rq, a, b in zip(requests, real, model):
            if a != b:
                n += 1
                if len([m for m in self.corr_mismatch if m["stream"] == stream]) < limit:
                    self.corr_mismatch.append({"stream": stream, "request": rq, "real": a, "model": b})
        self.corr_cases += len(requests)
        self.corr_streams[stream] = self.corr_streams.get(stream, 0) + len(requests)
        return n

    # ------------------------------------------------------------------ leg S
    def fail(self, case, what: str, key: str | None = None, expected=None, observed=None):
        """a failing input found on the REAL code by the independent oracle.
        key: precise signature of the failing case (matched against known_findings.jsonl)."""
        self.failures.append({"case": case, "what": what, "key": key, "expected": expected, "observed": observed})
        if key is None or match_known(self.known, self.failures[-1]) is None:
            self._unlisted = getattr(self, "_unlisted", 0) + 1
            limit = float(os.environ.get("VERIF_STOP_AFTER_S", "150"))
            if (time.time() - self.t0 > limit or self._unlisted >= 5000) and not os.environ.get("VERIF_NO_STOP"):
                self.notes.append("search stopped early: an unlisted failing input was on record and the run had used its time budget")
                raise StopSearch()

    def cover(self, evaluations=0, distinct=(), samples=(), dist=None):
        self.evaluations += evaluations
        self.search_cases += evaluations
        for d in distinct:
            self.distinct.add(d)
        for s in samples:
            if len(self.samples) < 12:
                self.samples.append(s)
        if dist:
            for k, v in dist.items():
                if isinstance(v, (int, float)):
                    self.dist[k] = self.dist.get(k, 0) + v
                else:
                    self.dist[k] = v

    # ------------------------------------------------------------------ verdict
    def say(self, line):
        print(line, flush=True)

    def write_replay(self, kind, payload) -> str:
        os.makedirs(os.path.join(VERIF, "replays"), exist_ok=True)
        body = {"property": self.prop, "kind": kind, "seed": self.seed, "tier": self.tier,
                "replay_cmd": f"./check {self.prop} --replay <this file>", **payload}
        text = json.dumps(body, indent=1, sort_keys=True, default=repr)
        path = os.path.join(VERIF, "replays", f"{self.prop}-{kind}-{sha(text)}.json")
        with open(path, "w") as f:
            f.write(text)
        return os.path.relpath(path, VERIF)

    def finish(self) -> int:
        unlisted, listed = [], {}
        for f in self.failures:
            kf = match_known(self.known, f)
            if kf is not None:
                listed.setdefault(kf["key"], (kf, f))
            else:
                unlisted.append(f)
        for key, (kf, f) in sorted(listed.items()):
            self.say(f"KNOWN-FINDING: property={self.prop} {kf['key']}: {kf['what']}")
        rc = 0
        violations = 0
        if unlisted:
            f = unlisted[0]
            path = self.write_replay("failing-input", {"case": f["case"], "what": f["what"], "key": f["key"],
                                                       "expected": f["expected"], "observed": f["observed"],
                                                       "other_failures": len(unlisted) - 1})
            self.say(f"VIOLATION property={self.prop} replay={path}")
            violations = len(unlisted); rc = 1
        elif self.p_errors:
            e = self.p_errors[0]
            path = self.write_replay("broken-theorem", {"theorem": e.get("theorem"), "errors": self.p_errors[:5],
                                                        "searched_cases": self.search_cases,
                                                        "note": "no failing input found on the real code; the property is no longer shown to hold"})
            self.say(f"VIOLATION property={self.prop} replay={path} no-failing-input-found")
            violations = 1; rc = 1
        elif self.corr_mismatch:
            m = self.corr_mismatch[0]
            path = self.write_replay("broken-correspondence", {"correspondence": m["stream"], "first_divergence": m,
                                                               "more": self.corr_mismatch[1:5],
                                                               "searched_cases": self.search_cases,
                                                               "note": "model and implementation disagree; no failing input found on the real code"})
            self.say(f"VIOLATION property={self.prop} replay={path} no-failing-input-found")
            violations = 1; rc = 1
        self.write_evidence(violations, sorted(listed))
        self.say(f"[{self.prop}] {self.tier} seed={self.seed}: obligations {len(self.discharged)}/{len(self.obligations)}, "
                 f"correspondence {self.corr_cases} cases ({len(self.corr_mismatch)} shown mismatches), "
                 f"search {self.search_cases} cases, failing {len(self.failures)} "
                 f"(known {len(self.failures) - len(unlisted)}), {time.time() - self.t0:.1f}s -> exit {rc}")
        return rc

    def write_evidence(self, violations, known_keys):
        nd = len(self.distinct)
        ev = {
            "property_id": self.prop, "tier": self.tier, "seed": self.seed, "level": "proof",
            "coverage": {
                "obligations": max(len(self.obligations), 0),
                "discharged": len(self.discharged),
                "obligation_names": self.obligations,
                "axioms": self.axioms,
                "checker_cmd": self.checker_cmd or "lake build",
                "trusted_base": TRUSTED_BASE,
                "traces_validated_against_impl": self.corr_cases,
                "correspondence_streams": self.corr_streams,
                "correspondence_mismatches": len(self.corr_mismatch),
                "evaluations": self.evaluations,
                "distinct_nontrivial": nd,
                "rule": self.rule,
                "samples": self.samples or ["(none)"],
                "input_distribution": self.dist,
                "partial": self.partial,
                "known_findings_hit": known_keys,
                "proof_errors": self.p_errors[:5],
                "explanation": "; ".join(self.notes),
            },
            "assumptions": self.assumptions + ["see coverage.trusted_base"],
            "wall_s": round(time.time() - self.t0, 2),
            "violations": violations,
        }
        # evidence/ holds runs against /repo itself; runs against another tree (VERIF_REPO) go to .scratch/
        evdir = os.path.join(VERIF, "evidence") if os.path.realpath(REPO) == "/repo" else os.path.join(VERIF, ".scratch", "evidence-other-tree")
        evdir = os.environ.get("VERIF_EVIDENCE_DIR") or evdir
        os.makedirs(evdir, exist_ok=True)
        path = os.path.join(evdir, f"{self.prop}.json")
        with open(path + ".tmp", "w") as f:
            json.dump(ev, f, indent=1, default=repr)
        os.replace(path + ".tmp", path)


# ---------------------------------------------------------------------- helpers
class build_lock:
    """lake builds and Gen writes are serialised across concurrently running checks"""

    def __enter__(self):
        self.f = open(os.path.join(LEAN_DIR, ".build.lock"), "w")
        fcntl.flock(self.f, fcntl.LOCK_EX)
        return self

    def __exit__(self, *a):
        fcntl.flock(self.f, fcntl.LOCK_UN)
        self.f.close()


GEN_MODULES = os.path.join(VERIF, "gen", "modules.json")


def record_gen_modules(script, names):
    """remember which translator writes which generated module (called under the build lock)"""
    try:
        mp = json.load(open(GEN_MODULES))
    except Exception:
        mp = {}
    if any(mp.get(n) != script for n in names):
        mp.update({n: script for n in names})
        json.dump(mp, open(GEN_MODULES, "w"), indent=1, sort_keys=True)


def lean_closure(files):
    """transitive closure of `import AgVerif.*` / `import Driver.*` starting from files"""
    seen, todo = [], [f for f in files if os.path.exists(f)]
    while todo:
        f = todo.pop()
        if f in seen:
            continue
        seen.append(f)
        for m in re.finditer(r"^import\s+((?:AgVerif|Driver)\.[\w.]+)", open(f).read(), re.M):
            q = os.path.join(LEAN_DIR, *m.group(1).split(".")) + ".lean"
            if os.path.exists(q) and q not in seen:
                todo.append(q)
    return seen


def lake_build(targets, timeout=3000):
    try:
        p = subprocess.run(["lake", "build"] + list(targets), cwd=LEAN_DIR, capture_output=True, text=True,
                           timeout=timeout)
    except subprocess.TimeoutExpired:
        raise ToolFailure("lake build timed out")
    return p.returncode == 0, p.stdout + p.stderr


def parse_lean_errors(log: str):
    errs = []
    for m in re.finditer(r"^error: ([^\s:]+\.lean):(\d+):(\d+): (.*?)(?=^\S+: |\Z)", log, re.M | re.S):
        errs.append({"file": m.group(1), "line": int(m.group(2)), "message": m.group(4).strip()[:1500]})
    return errs


def enclosing_theorem(file, line):
    if not file or not line:
        return None
    path = file if os.path.isabs(file) else os.path.join(LEAN_DIR, file)
    try:
        lines = open(path).read().split("\n")
    except OSError:
        return None
    for i in range(min(line, len(lines)) - 1, -1, -1):
        m = re.match(r"\s*(?:private\s+)?(?:theorem|lemma|def|example|instance)\s*([^\s:({\[]*)", lines[i])
        if m:
            return f"{os.path.relpath(path, LEAN_DIR)}:{m.group(1) or 'example'}"
    return os.path.relpath(path, LEAN_DIR)


def load_known(prop):
    path = os.path.join(VERIF, "known_findings.jsonl")
    out = []
    if os.path.exists(path):
        for l in open(path):
            l = l.strip()
            if not l or l.startswith("#"):
                continue
            d = json.loads(l)
            if d.get("property") == prop and not d.get("fixed"):
                out.append(d)
    return out


def match_known(known, failure):
    """a failure is a known finding only when its precise key is listed"""
    for kf in known:
        if failure.get("key") is not None and kf.get("key") == failure["key"]:
            return kf
    return None


def hexs(b: bytes) -> str:
    return b.hex() if b else "-"


def main(argv):
    import importlib
    if len(argv) < 2:
        print("usage: check <Cxx> quick|thorough | check <Cxx> --replay <file>")
        return 2
    prop = argv[0]
    sys.path.insert(0, REPO)
    quiet_androguard()
    seed = int(os.environ.get("VERIF_SEED", "0") or 0)
    try:
        mod = importlib.import_module(f"harness.props.{prop.lower()}")
    except ModuleNotFoundError as e:
        print(f"no check for {prop}: {e}")
        return 2
    if argv[1] == "--replay":
        rp = json.load(open(argv[2]))
        ck = Check(prop, "quick", rp.get("seed", seed))
        return mod.replay(ck, rp) or 0
    tier = argv[1] if argv[1] in ("quick", "thorough") else os.environ.get("VERIF_TIER", "quick")
    ck = Check(prop, tier, seed)
    try:
        try:
            mod.run(ck)
        except StopSearch:
            pass
        return ck.finish()
    except ToolFailure as e:
        print(f"[{prop}] TOOL FAILURE: {e}", flush=True)
        return 2
    except subprocess.TimeoutExpired as e:
        print(f"[{prop}] TIMEOUT: {e}", flush=True)
        return 2


if __name__ == "__main__":
    sys.exit(main(sys.argv[1:]))
