"""A small Dalvik interpreter for the int/long subset (C21 reference semantics).

Written from the "Dalvik bytecode" document only; shares no code with androguard and none with the
Lean model.  It runs the *bytes* of a method (decoded with the independent linear sweep of
harness.dexasm), so what it executes is what is in the DEX file.

    run(code_bytes, registers, ins, args, arg_types, ret_type, max_steps) -> ('ret', value)
                                                                              | ('exc', 'ArithmeticException')
                                                                              | ('steps', None)

Registers are 32-bit cells; a long lives in a pair (low cell first).  Arguments are placed in the
last `ins` registers in order ('J' takes two cells).  Values returned are Python ints in the signed
range of the return type.
"""
from harness.dexasm import sweep

M32 = 0xFFFFFFFF
M64 = 0xFFFFFFFFFFFFFFFF


def s32(v):
    v &= M32
    return v - (1 << 32) if v >> 31 else v


def s64(v):
    v &= M64
    return v - (1 << 64) if v >> 63 else v


class Arith(Exception):
    pass


def _tdiv(a, b):
    """division rounded towards zero on mathematical integers"""
    q = abs(a) // abs(b)
    return q if (a < 0) == (b < 0) else -q


def _trem(a, b):
    return a - _tdiv(a, b) * b


def _bin(name, a, b, bits):
    """a, b signed operands of width `bits` (for shifts b is the int shift distance)"""
    if name == 'add':
        return a + b
    if name == 'sub':
        return a - b
    if name == 'rsub':
        return b - a
    if name == 'mul':
        return a * b
    if name == 'div':
        if b == 0:
            raise Arith()
        return _tdiv(a, b)
    if name == 'rem':
        if b == 0:
            raise Arith()
        return _trem(a, b)
    if name == 'and':
        return a & b
    if name == 'or':
        return a | b
    if name == 'xor':
        return a ^ b
    mask = 31 if bits == 32 else 63
    if name == 'shl':
        return a << (b & mask)
    if name == 'shr':
        return a >> (b & mask)
    if name == 'ushr':
        return (a & ((1 << bits) - 1)) >> (b & mask)
    raise ValueError(name)


_CMPS = {'eq': lambda a, b: a == b, 'ne': lambda a, b: a != b, 'lt': lambda a, b: a < b,
         'ge': lambda a, b: a >= b, 'gt': lambda a, b: a > b, 'le': lambda a, b: a <= b}


class Machine:
    def __init__(self, code: bytes, registers: int):
        self.ins = {}
        self.payload = {}
        for addr, name, fmt, fields, raw in sweep(code):
            if fmt == 'payload':
                self.payload[addr] = (name, fields)
            else:
                self.ins[addr] = (name, fmt, fields, len(raw) // 2)
        self.nreg = registers

    def run(self, args, arg_types, max_steps=200000):
        r = [0] * self.nreg
        p = self.nreg - sum(2 if t == 'J' else 1 for t in arg_types)
        for v, t in zip(args, arg_types):
            if t == 'J':
                r[p] = v & M32
                r[p + 1] = (v >> 32) & M32
                p += 2
            else:
                r[p] = v & M32
                p += 1

        def gi(k):
            return s32(r[k])

        def gl(k):
            return s64(r[k] | (r[k + 1] << 32))

        def si(k, v):
            r[k] = v & M32

        def sl(k, v):
            r[k] = v & M32
            r[k + 1] = (v >> 32) & M32

        pc = 0
        steps = 0
        try:
            while True:
                steps += 1
                if steps > max_steps:
                    return ('steps', None)
                name, fmt, f, ln = self.ins[pc]
                nxt = pc + ln
                if name == 'nop':
                    pass
                elif name in ('move', 'move/from16', 'move/16'):
                    si(f[0], r[f[1]])
                elif name in ('move-wide', 'move-wide/from16', 'move-wide/16'):
                    sl(f[0], gl(f[1]))
                elif name == 'return':
                    return ('ret', gi(f[0]))
                elif name == 'return-wide':
                    return ('ret', gl(f[0]))
                elif name in ('const/4', 'const/16', 'const'):
                    si(f[0], f[1])
                elif name == 'const/high16':
                    si(f[0], (f[1] & 0xFFFF) << 16)
                elif name in ('const-wide/16', 'const-wide/32', 'const-wide'):
                    sl(f[0], f[1])
                elif name == 'const-wide/high16':
                    sl(f[0], (f[1] & 0xFFFF) << 48)
                elif name in ('goto', 'goto/16', 'goto/32'):
                    nxt = pc + f[0]
                elif name == 'packed-switch':
                    pn, (first, targets) = self.payload[pc + f[1]]
                    assert pn == 'packed-switch-payload'
                    k = gi(f[0]) - first
                    if 0 <= k < len(targets):
                        nxt = pc + targets[k]
                elif name == 'sparse-switch':
                    pn, (keys, targets) = self.payload[pc + f[1]]
                    assert pn == 'sparse-switch-payload'
                    v = gi(f[0])
                    if v in keys:
                        nxt = pc + targets[keys.index(v)]
                elif name == 'cmp-long':
                    a, b = gl(f[1]), gl(f[2])
                    si(f[0], 0 if a == b else (1 if a > b else -1))
                elif name.startswith('if-') and name.endswith('z'):
                    if _CMPS[name[3:5]](gi(f[0]), 0):
                        nxt = pc + f[1]
                elif name.startswith('if-'):
                    if _CMPS[name[3:5]](gi(f[0]), gi(f[1])):
                        nxt = pc + f[2]
                elif name == 'neg-int':
                    si(f[0], -gi(f[1]))
                elif name == 'not-int':
                    si(f[0], ~gi(f[1]))
                elif name == 'neg-long':
                    sl(f[0], -gl(f[1]))
                elif name == 'not-long':
                    sl(f[0], ~gl(f[1]))
                elif name == 'int-to-long':
                    sl(f[0], gi(f[1]))
                elif name == 'long-to-int':
                    si(f[0], gl(f[1]))
                elif name == 'int-to-byte':
                    v = gi(f[1]) & 0xFF
                    si(f[0], v - 0x100 if v & 0x80 else v)
                elif name == 'int-to-short':
                    v = gi(f[1]) & 0xFFFF
                    si(f[0], v - 0x10000 if v & 0x8000 else v)
                elif name == 'int-to-char':
                    si(f[0], gi(f[1]) & 0xFFFF)
                else:
                    parts = name.split('/')
                    head = parts[0].split('-')
                    suffix = parts[1] if len(parts) > 1 else ''
                    if name != 'rsub-int' and len(head) == 2 and head[1] in ('int', 'long') and suffix in ('', '2addr'):
                        op, ty = head
                        if suffix == '2addr':
                            d, x, y = f[0], f[0], f[1]
                        else:
                            d, x, y = f
                        if ty == 'int':
                            si(d, _bin(op, gi(x), gi(y), 32))
                        else:
                            yy = gi(y) if op in ('shl', 'shr', 'ushr') else gl(y)
                            sl(d, _bin(op, gl(x), yy, 64))
                    elif name == 'rsub-int' or (len(head) == 2 and head[1] == 'int' and suffix in ('lit8', 'lit16')):
                        op = head[0]
                        si(f[0], _bin(op, gi(f[1]), f[2], 32))
                    else:
                        raise ValueError('instruction outside the subset: ' + name)
                pc = nxt
        except Arith:
            return ('exc', 'ArithmeticException')


def run(code, registers, args, arg_types, max_steps=200000):
    return Machine(code, registers).run(args, arg_types, max_steps)
