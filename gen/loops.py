"""Translator for C35: the loop inventory of the parsers, read from the AST of the working tree.

For androguard/core/dex/__init__.py, core/axml/__init__.py, core/apk/__init__.py it lists

* `loops`       every `while` statement: (file, enclosing function, "while#k", hash) and every function
                that takes part in a call cycle inside its module — direct or mutual recursion through
                plain calls `f(..)`, calls of nested functions, and `self.f(..)` / `cls.f(..)` calls inside
                one class: (file, function, "rec", hash).
                hash = first 16 hex digits of sha256 over `ast.dump` of the statement / function with
                docstrings and `logger.*(...)` statements removed (no line numbers), so that a NEW loop or a
                CHANGED loop changes this list.  Props/C35.lean proves that every entry is in the hand-written
                coverage table (`loops_covered`); any change breaks that theorem until the entry is re-read.
* `countLoops`  every `for` / comprehension over `range(<non-constant>)` inside a parser constructor or parse
                routine: (file, function, range argument, consumes) where `consumes` says whether the loop body
                reads from the buffer or constructs an item from it on every iteration (`count_loops_consume`),
                and `seeks` whether the body itself repositions the buffer (`seek`), in which case sequential
                consumption is not automatic and the loop must be in the audited list of forward seeks.
* `regexes`     every `re.compile/match/search/sub/subn/fullmatch/findall/finditer/split` call: (file, function,
                pattern text with non-ASCII escaped, or "<dynamic:expr>" when the pattern is not a literal,
                suspicious) where `suspicious` is a conservative syntactic test for catastrophic backtracking over
                the parsed pattern (`re._parser`): a repeat with maximum > 1 whose body can match the empty string,
                or contains a variable repeat / alternation whose first characters overlap with what may follow it
                inside the loop (`(x+)*`, `(x*)*`, `(a|ab)*`, `([.-]+[a-z]*)*`), or two adjacent variable repeats with
                overlapping first sets (`a*a*`).  Props/C35.lean (`regexes_linear`) requires every pattern text to
                be in the hand-audited list of Model/Loops.lean and not suspicious.
* the constants the loop models use: chunk type codes, ARSCHeader.SIZE, the reader's chunk size, the number of
  LEB128 operands DebugInfoItem reads per debug opcode, the fixed record sizes read per iteration.
"""
import ast
import hashlib
import os

FILES = ["androguard/core/dex/__init__.py", "androguard/core/axml/__init__.py", "androguard/core/apk/__init__.py"]
READ_CALLS = {"read", "unpack", "readuleb128", "readuleb128p1", "readsleb128", "get_byte", "read_uint32_le",
              "read_null_terminated_string"}
PARSE_FUNCS = {"__init__", "parse", "_do_next", "_load_elements", "parse_signatures_or_digests",
               "parse_v2_v3_signature", "parse_v3_signing_block", "parse_v2_signing_block"}


def lean_str(s):
    return '"' + s.replace("\\", "\\\\").replace('"', '\\"').replace("\n", " ") + '"'


class _Strip(ast.NodeTransformer):
    """remove docstrings and logger statements (noise for the hash)"""

    def _body(self, body):
        out = []
        for i, st in enumerate(body):
            if isinstance(st, ast.Expr):
                v = st.value
                if isinstance(v, ast.Constant) and isinstance(v.value, str):
                    continue
                if (isinstance(v, ast.Call) and isinstance(v.func, ast.Attribute)
                        and isinstance(v.func.value, ast.Name) and v.func.value.id == "logger"):
                    continue
            out.append(st)
        return out or [ast.Pass()]

    def generic_visit(self, node):
        super().generic_visit(node)
        for fld in ("body", "orelse", "finalbody"):
            b = getattr(node, fld, None)
            if isinstance(b, list) and b and isinstance(b[0], ast.stmt):
                setattr(node, fld, self._body(b))
        return node


def node_hash(node):
    import copy
    n = _Strip().visit(copy.deepcopy(node))
    return hashlib.sha256(ast.dump(n, include_attributes=False).encode()).hexdigest()[:16]


def scan(path, rel):
    tree = ast.parse(open(path, encoding="utf-8").read())
    funcs = {}      # qualname -> (node, class or None, enclosing function qualnames)
    whiles = []     # (qualname, node)
    fors = []       # (qualname, node, iter)

    def walk(node, stack, cls, enclosing):
        for ch in ast.iter_child_nodes(node):
            if isinstance(ch, ast.ClassDef):
                walk(ch, stack + [ch.name], ".".join(stack + [ch.name]), enclosing)
            elif isinstance(ch, (ast.FunctionDef, ast.AsyncFunctionDef)):
                q = ".".join(stack + [ch.name])
                funcs[q] = (ch, cls, list(enclosing))
                walk(ch, stack + [ch.name], cls, enclosing + [q])
            else:
                q = ".".join(stack) if stack else "<module>"
                if isinstance(ch, ast.While):
                    whiles.append((q, ch))
                if isinstance(ch, ast.For):
                    fors.append((q, ch, ch.iter))
                if isinstance(ch, (ast.ListComp, ast.GeneratorExp, ast.SetComp, ast.DictComp)):
                    for g in ch.generators:
                        fors.append((q, ch, g.iter))
                walk(ch, stack, cls, enclosing)

    walk(tree, [], None, [])
    # class -> bases (by simple name, inside the module)
    classes = {}

    def collect_classes(node, stack):
        for ch in ast.iter_child_nodes(node):
            if isinstance(ch, ast.ClassDef):
                classes[".".join(stack + [ch.name])] = [b.id for b in ch.bases if isinstance(b, ast.Name)]
                collect_classes(ch, stack + [ch.name])
            elif isinstance(ch, (ast.FunctionDef, ast.AsyncFunctionDef)):
                collect_classes(ch, stack + [ch.name])

    collect_classes(tree, [])

    def method_of(cls, name, seen=()):
        if cls is None or cls in seen:
            return None
        q = cls + "." + name
        if q in funcs:
            return q
        for b in classes.get(cls, []):
            for c in classes:
                if c == b or c.endswith("." + b):
                    r = method_of(c, name, seen + (cls,))
                    if r:
                        return r
        return None

    edges = {q: set() for q in funcs}
    for q, (fn, cls, enclosing) in funcs.items():
        own_nested = {k for k in funcs if k.startswith(q + ".") and "." not in k[len(q) + 1:]}
        for c in ast.walk(fn):
            if not isinstance(c, ast.Call):
                continue
            f = c.func
            if isinstance(f, ast.Name):
                # nested function of this or an enclosing function, itself, or a module-level function
                cands = [q + "." + f.id] + [e + "." + f.id for e in reversed(enclosing)]
                if q.rsplit(".", 1)[-1] == f.id and cls is None or (q.rsplit(".", 1)[-1] == f.id and q in funcs and
                                                                   any(q == e + "." + f.id for e in enclosing)):
                    cands.insert(0, q)
                cands.append(f.id)
                for k in cands:
                    if k in funcs and (k in own_nested or k == q or "." not in k or any(k.startswith(e + ".") for e in enclosing)):
                        edges[q].add(k)
                        break
            elif isinstance(f, ast.Attribute) and isinstance(f.value, ast.Name) and f.value.id in ("self", "cls"):
                k = method_of(cls, f.attr)
                if k:
                    edges[q].add(k)
    # functions on a cycle (Tarjan-free: reachability, the graph is small per component)
    def reach(src):
        seen, todo = set(), list(edges[src])
        while todo:
            x = todo.pop()
            if x in seen:
                continue
            seen.add(x)
            todo.extend(edges.get(x, ()))
        return seen

    recs = sorted(q for q in funcs if q in reach(q))
    out_loops = []
    counter = {}
    for q, node in whiles:
        k = counter.get(q, 0)
        counter[q] = k + 1
        out_loops.append((rel, q, f"while#{k}", node_hash(node)))
    for q in recs:
        out_loops.append((rel, q, "rec", node_hash(funcs[q][0])))
    out_counts = []
    for q, node, it in fors:
        if not (isinstance(it, ast.Call) and isinstance(it.func, ast.Name) and it.func.id == "range"):
            continue
        if all(isinstance(a, ast.Constant) for a in it.args):
            continue
        if q.rsplit(".", 1)[-1] not in PARSE_FUNCS:
            continue
        # arguments that are only len(..) of something already parsed are bounded by parsed data
        names = set()
        body_nodes = node.body if isinstance(node, ast.For) else [node.elt if hasattr(node, "elt") else node]
        for b in body_nodes:
            for c in ast.walk(b):
                if isinstance(c, ast.Call):
                    f = c.func
                    nm = f.attr if isinstance(f, ast.Attribute) else getattr(f, "id", "")
                    args = [ast.unparse(a) for a in c.args]
                    if nm in READ_CALLS:
                        names.add(nm)
                    elif nm[:1].isupper() and any(a in ("buff", "self.buff", "buff, cm", "cm") or "buff" in a for a in args):
                        names.add("ctor:" + nm)
        bounded = all(isinstance(a, ast.Call) and getattr(a.func, "id", "") == "len" or isinstance(a, ast.Constant)
                      or (isinstance(a, ast.Name) and a.id.isupper()) for a in it.args)
        seeks = any(isinstance(c, ast.Call) and isinstance(c.func, ast.Attribute) and c.func.attr in ("seek", "set_idx")
                    for b in body_nodes for c in ast.walk(b))
        out_counts.append((rel, q, ",".join(ast.unparse(a) for a in it.args), bool(names) or bounded, seeks))
    return tree, funcs, out_loops, out_counts


# ---------------------------------------------------------------------------------- regular expressions
RE_FUNCS = {"compile", "match", "search", "sub", "subn", "fullmatch", "findall", "finditer", "split"}
_UNIVERSE = frozenset(list(range(0, 0x250)) + [0x2000, 0xD7FF, 0xD800, 0xDFFF, 0xE000, 0xFFFD, 0xFFFF, 0x10000, 0x10FFFF])


def _sre():
    try:
        import re._parser as P
        import re._constants as C
    except ImportError:                       # Python < 3.11
        import sre_parse as P
        import sre_constants as C
    return P, C


def _first(seq, C):
    """(set of sample code points that can start a match of seq, seq can match the empty string)"""
    out = set()
    for op, av in seq:
        f, nullable = _first_item(op, av, C)
        out |= f
        if not nullable:
            return out, False
    return out, True


def _first_item(op, av, C):
    if op is C.LITERAL:
        return {av}, False
    if op is C.NOT_LITERAL:
        return set(_UNIVERSE) - {av}, False
    if op is C.ANY:
        return set(_UNIVERSE), False
    if op is C.IN:
        neg, acc = False, set()
        for o, a in av:
            if o is C.NEGATE:
                neg = True
            elif o is C.LITERAL:
                acc.add(a)
            elif o is C.RANGE:
                acc |= {c for c in _UNIVERSE if a[0] <= c <= a[1]}
            else:                              # CATEGORY ...: conservative
                acc |= set(_UNIVERSE)
        return (set(_UNIVERSE) - acc if neg else acc), False
    if op is C.SUBPATTERN:
        return _first(av[-1], C)
    if op is C.BRANCH:
        out, nullable = set(), False
        for alt in av[1]:
            f, n = _first(alt, C)
            out |= f
            nullable = nullable or n
        return out, nullable
    if op in (C.MAX_REPEAT, C.MIN_REPEAT) or getattr(C, "POSSESSIVE_REPEAT", None) is op:
        lo, hi, body = av
        f, n = _first(body, C)
        return f, n or lo == 0
    if op is C.ATOMIC_GROUP if hasattr(C, "ATOMIC_GROUP") else False:
        return _first(av, C)
    if op in (C.AT, C.ASSERT, C.ASSERT_NOT):
        return set(), True
    return set(_UNIVERSE), True               # GROUPREF, ... : conservative


def _is_repeat(op, C):
    return op in (C.MAX_REPEAT, C.MIN_REPEAT)


def _inner_ambiguous(seq, follow, C):
    """inside a loop: is there a choice point whose alternatives overlap with what may follow?"""
    seq = list(seq)
    for i, (op, av) in enumerate(seq):
        rest_f, rest_n = _first(seq[i + 1:], C)
        fol = rest_f | (follow if rest_n else set())
        if _is_repeat(op, C):
            lo, hi, body = av
            bf, _n = _first(body, C)
            if lo != hi and bf & fol:
                return "variable repeat inside a repeated group overlaps with what follows it"
            r = _inner_ambiguous(body, fol | bf, C)
            if r:
                return r
        elif op is C.SUBPATTERN:
            r = _inner_ambiguous(av[-1], fol, C)
            if r:
                return r
        elif op is C.BRANCH:
            firsts = [_first(a, C)[0] for a in av[1]]
            for x in range(len(firsts)):
                for y in range(x + 1, len(firsts)):
                    if firsts[x] & firsts[y]:
                        return "alternatives with overlapping first characters inside a repeated group"
            for a in av[1]:
                r = _inner_ambiguous(a, fol, C)
                if r:
                    return r
    return None


def regex_suspicious(pattern, flags=0):
    """None when the conservative test finds nothing, else a reason"""
    P, C = _sre()
    try:
        tree = P.parse(pattern, flags)
    except Exception as e:  # noqa
        return "unparsable: " + type(e).__name__

    def walk(seq):
        seq = list(seq)
        # adjacent variable repeats with overlapping first sets (possibly across nullable items)
        for i, (op, av) in enumerate(seq):
            if _is_repeat(op, C) and av[0] != av[1]:
                f1, _ = _first(av[2], C)
                for op2, av2 in seq[i + 1:]:
                    f2, n2 = _first_item(op2, av2, C)
                    if _is_repeat(op2, C) and av2[0] != av2[1] and f1 & f2:
                        return "adjacent variable repeats with overlapping first characters"
                    if not n2:
                        break
        for op, av in seq:
            if _is_repeat(op, C):
                lo, hi, body = av
                if hi > 1:
                    bf, bn = _first(body, C)
                    if bn:
                        return "repeated group can match the empty string"
                    r = _inner_ambiguous(body, bf, C)
                    if r:
                        return r
                r = walk(body)
                if r:
                    return r
            elif op is C.SUBPATTERN:
                r = walk(av[-1])
                if r:
                    return r
            elif op is C.BRANCH:
                for a in av[1]:
                    r = walk(a)
                    if r:
                        return r
            elif op in (C.ASSERT, C.ASSERT_NOT):
                r = walk(av[1])
                if r:
                    return r
        return None

    return walk(tree)


def scan_regexes(tree, rel):
    out = []

    def walk(node, stack):
        for ch in ast.iter_child_nodes(node):
            if isinstance(ch, (ast.FunctionDef, ast.AsyncFunctionDef, ast.ClassDef)):
                walk(ch, stack + [ch.name])
                continue
            if isinstance(ch, ast.Call) and isinstance(ch.func, ast.Attribute) and isinstance(ch.func.value, ast.Name) \
                    and ch.func.value.id == "re" and ch.func.attr in RE_FUNCS and ch.args:
                a = ch.args[0]
                q = ".".join(stack) if stack else "<module>"
                if isinstance(a, ast.Constant) and isinstance(a.value, str):
                    why = regex_suspicious(a.value)
                    out.append((rel, q, a.value.encode("unicode_escape").decode("ascii"), why is not None))
                else:
                    out.append((rel, q, "<dynamic:" + ast.unparse(a) + ">", False))
            walk(ch, stack)

    walk(tree, [])
    return out


def const_int(tree, name):
    for n in tree.body:
        if isinstance(n, ast.Assign) and isinstance(n.targets[0], ast.Name) and n.targets[0].id == name:
            v = n.value
            if isinstance(v, ast.Constant) and isinstance(v.value, int):
                return v.value
            return int(eval(compile(ast.Expression(v), "<const>", "eval"), {"__builtins__": {}}))  # literal arithmetic only
    raise ValueError(f"constant {name} not found")


def dbg_operands(tree, dex_tree_consts):
    """number of LEB128 reads per `bcode_value == DBG_X` branch of DebugInfoItem.__init__'s loop"""
    cls = next(n for n in tree.body if isinstance(n, ast.ClassDef) and n.name == "DebugInfoItem")
    init = next(n for n in cls.body if isinstance(n, ast.FunctionDef) and n.name == "__init__")
    loop = next(n for n in ast.walk(init) if isinstance(n, ast.While))
    chain = next(s for s in loop.body if isinstance(s, ast.If))
    table = []
    default = None
    node = chain
    while True:
        t = node.test
        if not (isinstance(t, ast.Compare) and isinstance(t.comparators[0], ast.Name) and isinstance(t.ops[0], ast.Eq)):
            raise ValueError("DebugInfoItem: unexpected test in the opcode chain")
        op = dex_tree_consts(t.comparators[0].id)
        nread = sum(1 for s in node.body for c in ast.walk(s) if isinstance(c, ast.Call)
                    and getattr(c.func, "id", "") in ("readuleb128", "readuleb128p1", "readsleb128"))
        table.append((op, nread))
        if len(node.orelse) == 1 and isinstance(node.orelse[0], ast.If):
            node = node.orelse[0]
        else:
            default = sum(1 for s in node.orelse for c in ast.walk(s) if isinstance(c, ast.Call)
                          and getattr(c.func, "id", "") in ("readuleb128", "readuleb128p1", "readsleb128"))
            break
    end = loop.test
    if not (isinstance(end, ast.Compare) and isinstance(end.ops[0], ast.NotEq) and isinstance(end.comparators[0], ast.Name)):
        raise ValueError("DebugInfoItem: unexpected loop condition")
    return table, default, dex_tree_consts(end.comparators[0].id)


def generate(repo):
    loops, counts, regexes = [], [], []
    trees = {}
    for rel in FILES:
        tree, funcs, l, c = scan(os.path.join(repo, rel), rel)
        trees[rel] = tree
        loops += l
        counts += c
        regexes += scan_regexes(tree, rel)
    dex_t, axml_t = trees[FILES[0]], trees[FILES[1]]
    consts = {k: const_int(axml_t, k) for k in (
        "RES_XML_FIRST_CHUNK_TYPE", "RES_XML_LAST_CHUNK_TYPE", "RES_XML_RESOURCE_MAP_TYPE",
        "RES_XML_START_NAMESPACE_TYPE", "RES_XML_END_NAMESPACE_TYPE", "RES_XML_START_ELEMENT_TYPE",
        "RES_XML_END_ELEMENT_TYPE", "RES_XML_CDATA_TYPE", "RES_TABLE_PACKAGE_TYPE")}
    hdr = next(n for n in axml_t.body if isinstance(n, ast.ClassDef) and n.name == "ARSCHeader")
    size_node = next(n for n in hdr.body if isinstance(n, ast.Assign) and n.targets[0].id == "SIZE")
    hdr_size = int(eval(compile(ast.Expression(size_node.value), "<const>", "eval"), {"__builtins__": {}}))
    table, default, end = dbg_operands(dex_t, lambda name: const_int(dex_t, name))
    lines = ["/- GENERATED by gen/loops.py from the working tree of the repository — do not edit. -/",
             "namespace AgVerif.Gen.Loops", "",
             "/-- (file, function, kind, normalised-AST hash) of every `while` loop and every recursive function -/",
             "def loops : List (String × String × String × String) := ["]
    lines.append(",\n".join("  (%s, %s, %s, %s)" % tuple(map(lean_str, l)) for l in loops))
    lines += ["]", "",
              "/-- (file, function, range argument, body reads from the buffer / is bounded by parsed data,",
              "    body repositions the buffer itself with seek) -/",
              "def countLoops : List (String × String × String × Bool × Bool) := ["]
    lines.append(",\n".join("  (%s, %s, %s, %s, %s)" % (lean_str(a), lean_str(b), lean_str(c), "true" if d else "false",
                                                     "true" if e else "false")
                            for a, b, c, d, e in counts))
    lines += ["]", "",
              "/-- (file, function, pattern text (non-ASCII escaped) or <dynamic:expr>, suspicious shape) of every `re.*` call -/",
              "def regexes : List (String × String × String × Bool) := ["]
    lines.append(",\n".join("  (%s, %s, %s, %s)" % (lean_str(a), lean_str(b), lean_str(c), "true" if d else "false")
                            for a, b, c, d in regexes))
    lines += ["]", ""]
    for k, v in consts.items():
        lines.append(f"def {k} : Nat := {v}")
    lines.append(f"def ARSC_HEADER_SIZE : Nat := {hdr_size}")
    lines.append(f"def DBG_END_SEQUENCE : Nat := {end}")
    lines.append("/-- (debug opcode, number of LEB128 operands read) in the order of the if-chain -/")
    lines.append("def dbgOperands : List (Nat × Nat) := [" + ", ".join(f"({a}, {b})" for a, b in table) + "]")
    lines.append(f"def dbgDefaultOperands : Nat := {default}")
    lines += ["", "end AgVerif.Gen.Loops", ""]
    return {"Loops": "\n".join(lines)}
