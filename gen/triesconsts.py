"""Translator for C08: androguard/core/dex/__init__.py -> lean/AgVerif/Gen/TriesConsts.lean

AST only (no import).  Emits what the C08 model takes from the source as data:
  * the struct formats and read sizes of DalvikCode.__init__ (header, padding) and TryItem.__init__,
  * the padding condition and the conditions under which tries/handlers are read,
  * the reader calls of EncodedCatchHandlerList / EncodedCatchHandler / EncodedTypeAddrPair in order,
  * from determineException: the catch-all type name, every multiplier, the early-exit and the
    catch-all conditions, the index used for the attached handler (`value[1]`).
The model uses `throwable` directly; the theorem `source_constants` of Props/C08.lean states that
every other item is the one the hand-written model transliterates, so a change of any of them in
the source breaks the build of the property module.
"""
import ast
import os
import struct

SRC = "androguard/core/dex/__init__.py"


class Unrecognised(Exception):
    pass


def _top(tree, kind, name):
    for n in tree.body:
        if isinstance(n, kind) and n.name == name:
            return n
    raise Unrecognised(f"{name} not found")


def _init(tree, cls):
    c = _top(tree, ast.ClassDef, cls)
    for n in c.body:
        if isinstance(n, ast.FunctionDef) and n.name == "__init__":
            return n
    raise Unrecognised(f"{cls}.__init__ not found")


def _unpacks(fn):
    """[(format, bytes read)] for every `cm.packer["fmt"].unpack(buff.read(N))` in source order"""
    out = []
    for x in ast.walk(fn):
        if (isinstance(x, ast.Call) and isinstance(x.func, ast.Attribute) and x.func.attr == "unpack"
                and isinstance(x.func.value, ast.Subscript)
                and isinstance(x.func.value.value, ast.Attribute) and x.func.value.value.attr == "packer"):
            fmt = x.func.value.slice
            if not (isinstance(fmt, ast.Constant) and isinstance(fmt.value, str)):
                raise Unrecognised("packer format is not a literal at line %d" % x.lineno)
            arg = x.args[0]
            if not (isinstance(arg, ast.Call) and isinstance(arg.func, ast.Attribute) and arg.func.attr == "read"
                    and isinstance(arg.args[0], ast.Constant) and isinstance(arg.args[0].value, int)):
                raise Unrecognised("unpack argument is not buff.read(<int>) at line %d" % x.lineno)
            out.append((x.lineno, fmt.value, arg.args[0].value))
    return [(f, n) for _, f, n in sorted(out)]


def _calls(fn, names):
    """names of the calls (from `names`) in source order"""
    out = []
    for x in ast.walk(fn):
        if isinstance(x, ast.Call):
            f = x.func
            n = f.id if isinstance(f, ast.Name) else (f.attr if isinstance(f, ast.Attribute) else None)
            if n in names:
                out.append((x.lineno, x.col_offset, n))
    return [n for _, _, n in sorted(out)]


def _ifs(fn):
    return [ast.unparse(x.test) for x in ast.walk(fn) if isinstance(x, ast.If)]


def _fors(fn):
    return [ast.unparse(x.iter) for x in ast.walk(fn) if isinstance(x, (ast.For, ast.comprehension))]


def lean_str(s):
    return '"' + s.replace("\\", "\\\\").replace('"', '\\"') + '"'


def lean_list(xs, f=lean_str):
    return "[" + ", ".join(f(x) for x in xs) + "]"


def extract(repo):
    tree = ast.parse(open(os.path.join(repo, SRC)).read())
    dc = _init(tree, "DalvikCode")
    ti = _init(tree, "TryItem")
    hl = _init(tree, "EncodedCatchHandlerList")
    ch = _init(tree, "EncodedCatchHandler")
    tp = _init(tree, "EncodedTypeAddrPair")
    de = _top(tree, ast.FunctionDef, "determineException")
    d = {}
    d["codeUnpacks"] = _unpacks(dc)
    d["tryUnpacks"] = _unpacks(ti)
    d["codeIfs"] = _ifs(dc)
    d["codeFors"] = _fors(dc)
    d["codeCalls"] = _calls(dc, {"DCode", "TryItem", "EncodedCatchHandlerList"})
    d["listCalls"] = _calls(hl, {"readuleb128", "readsleb128", "readuleb128p1", "EncodedCatchHandler"})
    d["listFors"] = _fors(hl)
    d["handlerCalls"] = _calls(ch, {"readuleb128", "readsleb128", "readuleb128p1", "EncodedTypeAddrPair"})
    d["handlerIfs"] = _ifs(ch)
    d["handlerFors"] = _fors(ch)
    d["pairCalls"] = _calls(tp, {"readuleb128", "readsleb128", "readuleb128p1"})
    strs = [x.value for x in ast.walk(de) if isinstance(x, ast.Constant) and isinstance(x.value, str)
            and x.value.startswith("L") and x.value.endswith(";")]
    if len(strs) != 1:
        raise Unrecognised(f"determineException: expected one type-name literal, found {strs}")
    d["throwable"] = strs[0]
    mults = []
    for x in ast.walk(de):
        if isinstance(x, ast.BinOp):
            if not isinstance(x.op, (ast.Mult, ast.Add, ast.Sub)):
                raise Unrecognised("determineException: operator %s at line %d" % (type(x.op).__name__, x.lineno))
            if isinstance(x.op, ast.Mult):
                k = [o.value for o in (x.left, x.right) if isinstance(o, ast.Constant)]
                if len(k) != 1:
                    raise Unrecognised("determineException: multiplication without a literal at line %d" % x.lineno)
                mults.append((x.lineno, x.col_offset, k[0]))
    d["mults"] = [k for _, _, k in sorted(mults)]
    d["excIfs"] = _ifs(de)
    idx = sorted((x.lineno, x.col_offset, x.slice.value) for x in ast.walk(de)
                 if isinstance(x, ast.Subscript) and isinstance(x.value, ast.Name) and x.value.id == "value"
                 and isinstance(x.slice, ast.Constant))
    d["valueIdx"] = [k for _, _, k in idx]
    # the range expression: [start*2, start*2 + count*2 - 1]
    z = [x for x in ast.walk(de) if isinstance(x, ast.Assign) and isinstance(x.targets[0], ast.Name)
         and x.targets[0].id == "z"]
    if len(z) != 1:
        raise Unrecognised("determineException: assignment to z not found")
    d["rangeExpr"] = ast.unparse(z[0].value)
    return d


def generate(repo):
    d = extract(repo)
    lines = ["/- GENERATED by gen/triesconsts.py from %s — do not edit -/" % SRC,
             "namespace AgVerif.Gen.TriesConsts", ""]

    def emit(name, ty, val):
        lines.append(f"def {name} : {ty} := {val}")

    emit("throwable", "String", lean_str(d["throwable"]))
    emit("codeUnpacks", "List (String × Nat × Nat)",
         lean_list(d["codeUnpacks"], lambda t: "(%s, %d, %d)" % (lean_str(t[0]), t[1], struct.calcsize("<" + t[0]))))
    emit("tryUnpacks", "List (String × Nat × Nat)",
         lean_list(d["tryUnpacks"], lambda t: "(%s, %d, %d)" % (lean_str(t[0]), t[1], struct.calcsize("<" + t[0]))))
    for k in ("codeIfs", "codeFors", "codeCalls", "listCalls", "listFors", "handlerCalls", "handlerIfs", "handlerFors",
              "pairCalls", "excIfs"):
        emit(k, "List String", lean_list(d[k]))
    emit("mults", "List Nat", lean_list(d["mults"], str))
    emit("valueIdx", "List Nat", lean_list(d["valueIdx"], str))
    emit("rangeExpr", "String", lean_str(d["rangeExpr"]))
    lines += ["", "end AgVerif.Gen.TriesConsts", ""]
    return {"TriesConsts": "\n".join(lines)}


if __name__ == "__main__":
    import sys
    print(generate(sys.argv[1] if len(sys.argv) > 1 else "/repo")["TriesConsts"])
