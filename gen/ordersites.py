"""Translator for C22: androguard/decompiler/*.py  ->  lean/AgVerif/Gen/OrderSites.lean

AST scan (no import of androguard) of the decompiler package for every place whose result can
depend on the *iteration order of a hash container*:

  kind "for"     `for x in S` / comprehension `... for x in S`        S statically set-typed
  kind "list"    list(S) tuple(S) enumerate(S) iter(S) next(..S) zip(..S..) reversed(S) L.extend(S)
                 sep.join(S) dict.fromkeys(S) min(S)/max(S) (ties)     S statically set-typed
  kind "pop"     S.pop()                                               S statically set-typed
  kind "sorted"  sorted(S, ...)            (stable sort: ties keep the set's order)
  kind "id"      a call of id(..) / hash(..)   (address-derived values)

"statically set-typed" is a small flow-insensitive inference: set displays and comprehensions,
set()/frozenset() calls, names/attributes assigned from such expressions anywhere in the package
(attributes are tracked by attribute name), `defaultdict(set)` containers and their subscripts /
.get(k, set()) / .pop(k, set()), the set-returning methods (copy, union, intersection, difference,
symmetric_difference) and operators (| & - ^), functions that return a set-typed expression, and
parameters that receive a set-typed argument at some call site inside the package.
dicts are NOT sites: CPython dicts iterate in insertion order whatever the key hashes are.

Also emitted:
  * `orderedSites`  uses of `dict.fromkeys(...)` / dict-as-ordered-set displays `{x: None}` (the repairs
                    of the defect D10 are recognisable by them);
  * `globalMutations` module-level names of the package that are rebound or mutated from inside a
                    function (`global X`, X[...] = , X.append/extend/add/update/pop/setdefault/clear(...)),
                    and class-level mutable attributes: state that could leak from one decompiled
                    method into the next one;
                    functions memoised with lru_cache/cache whose return value is (or may be) a mutable container
                    are listed here too (kind "cached-mutable");
  * `aliasMutations` in-place mutations (.remove/.append/.pop/.sort/…, del, item assignment) of a value fetched
                    from a DvMethod/DvClass attribute of another object (`flags = m.access; flags.remove(..)`);
  * `accessSources` how the `access` lists are produced (util.get_access_*: fresh list per call, not cached) and
                    stored (`self.access = util.get_access_…(…)`): theorem access_lists_are_fresh pins them;
  * `pins`          normalised-AST hashes of the functions that are modelled by hand.

Every site carries the sha256 (first 12 hex digits) of `ast.dump` of the enclosing statement, so that an
edit of a loop body (which is what makes a loop order-insensitive) changes the generated list.
The theorem AgVerif.C22.sites_covered states that every generated site is one of the sites proved
order-irrelevant in Model/Order.lean: a NEW (or edited) hash-iteration site breaks it.
"""
import ast
import hashlib
import os

PKG = "androguard/decompiler"
FILES = ["node.py", "basic_blocks.py", "instruction.py", "graph.py", "dataflow.py", "control_flow.py",
         "writer.py", "dast.py", "decompile.py", "util.py", "decompiler.py", "opcode_ins.py"]
SET_METHODS = {"copy", "union", "intersection", "difference", "symmetric_difference"}
ORDER_CALLS = {"list", "tuple", "enumerate", "iter", "next", "zip", "reversed", "min", "max"}
MUTATORS = {"append", "extend", "add", "update", "pop", "setdefault", "clear", "insert", "remove", "discard",
            "popitem"}
PINNED = [("node.py", "Node.update_attribute_with"), ("node.py", "Interval.compute_end"),
          ("node.py", "Interval.add_node"), ("basic_blocks.py", "BasicBlock.add_variable_declaration"),
          ("control_flow.py", "short_circuit_struct"), ("control_flow.py", "loop_follow"),
          ("control_flow.py", "if_struct"), ("control_flow.py", "switch_struct"),
          ("dataflow.py", "place_declarations"), ("writer.py", "Writer.visit_node"),
          ("graph.py", "dom_lt"), ("graph.py", "split_if_nodes"), ("graph.py", "simplify"),
          ("util.py", "common_dom")]


def h12(node):
    return hashlib.sha256(ast.dump(node).encode()).hexdigest()[:12]


class Scope:
    def __init__(self, qual, node, parent=None):
        self.qual, self.node, self.parent = qual, node, parent
        self.set_names = set()          # local names that are set-typed
        self.dictset_names = set()      # local names that are dicts of sets

    def has_set(self, name):            # closures see the names of the enclosing functions
        return name in self.set_names or (self.parent is not None and self.parent.has_set(name))

    def has_dictset(self, name):
        return name in self.dictset_names or (self.parent is not None and self.parent.has_dictset(name))


class Scanner:
    def __init__(self, trees):
        self.trees = trees                      # file -> ast.Module
        self.set_attrs = set()                  # attribute names assigned a set anywhere
        self.dictset_attrs = set()              # attribute names assigned defaultdict(set)
        self.dictdictset_attrs = set()          # defaultdict(lambda: defaultdict(set))
        self.set_funcs = set()                  # function names returning a set-typed expression
        self.set_params = set()                 # (function name, position or keyword) receiving a set
        self.scopes = {}                        # (file, qual) -> Scope
        self.funcs = []                         # (file, qual, FunctionDef)

    # ---------------------------------------------------------------- collection
    def collect_funcs(self):
        for f, tree in self.trees.items():
            def walk(body, prefix, parent=None):
                for n in body:
                    if isinstance(n, (ast.FunctionDef, ast.AsyncFunctionDef)):
                        q = prefix + n.name
                        self.funcs.append((f, q, n))
                        self.scopes[(f, q)] = Scope(q, n, parent)
                        walk(n.body, q + ".", self.scopes[(f, q)])
                    elif isinstance(n, ast.ClassDef):
                        walk(n.body, prefix + n.name + ".", None)
                    elif isinstance(n, (ast.If, ast.Try, ast.With, ast.For, ast.While)):
                        for fld in ("body", "orelse", "finalbody", "handlers"):
                            sub = getattr(n, fld, [])
                            for s in sub:
                                if isinstance(s, ast.ExceptHandler):
                                    walk(s.body, prefix, parent)
                            walk([s for s in sub if not isinstance(s, ast.ExceptHandler)], prefix, parent)
            walk(tree.body, "")

    @staticmethod
    def own_nodes(fn):
        """nodes of a function body, not descending into nested function definitions"""
        todo = [s for s in fn.body if not isinstance(s, (ast.FunctionDef, ast.AsyncFunctionDef, ast.ClassDef))]
        while todo:
            n = todo.pop()
            yield n
            for c in ast.iter_child_nodes(n):
                if isinstance(c, (ast.FunctionDef, ast.AsyncFunctionDef, ast.ClassDef)):
                    continue
                todo.append(c)

    def is_dictset_ctor(self, e):
        """defaultdict(set) -> 1, defaultdict(lambda: defaultdict(set)) -> 2, else 0"""
        if isinstance(e, ast.Call) and isinstance(e.func, ast.Name) and e.func.id == "defaultdict" and e.args:
            a = e.args[0]
            if isinstance(a, ast.Name) and a.id in ("set", "frozenset"):
                return 1
            if isinstance(a, ast.Lambda) and self.is_dictset_ctor(a.body) == 1:
                return 2
        return 0

    def is_set(self, e, sc):
        if isinstance(e, (ast.Set, ast.SetComp)):
            return True
        if isinstance(e, ast.Call):
            fn = e.func
            if isinstance(fn, ast.Name):
                if fn.id in ("set", "frozenset"):
                    return True
                if fn.id in self.set_funcs:
                    return True
            if isinstance(fn, ast.Attribute):
                if fn.attr in SET_METHODS and self.is_set(fn.value, sc):
                    return True
                if fn.attr in ("get", "pop", "setdefault") and len(e.args) == 2 and self.is_set(e.args[1], sc):
                    return True
                if fn.attr in ("get", "pop") and self.is_dictset(fn.value, sc):
                    return True
                if fn.attr in self.set_funcs:
                    return True
            return False
        if isinstance(e, ast.Name):
            return sc is not None and sc.has_set(e.id)
        if isinstance(e, ast.Attribute):
            return e.attr in self.set_attrs
        if isinstance(e, ast.Subscript):
            return self.is_dictset(e.value, sc)
        if isinstance(e, ast.BinOp) and isinstance(e.op, (ast.BitOr, ast.BitAnd, ast.Sub, ast.BitXor)):
            return self.is_set(e.left, sc) or self.is_set(e.right, sc)
        if isinstance(e, ast.IfExp):
            return self.is_set(e.body, sc) or self.is_set(e.orelse, sc)
        if isinstance(e, ast.BoolOp):
            return any(self.is_set(v, sc) for v in e.values)
        return False

    def is_dictset(self, e, sc):
        if self.is_dictset_ctor(e) == 1:
            return True
        if isinstance(e, ast.Name):
            return sc is not None and sc.has_dictset(e.id)
        if isinstance(e, ast.Attribute):
            return e.attr in self.dictset_attrs
        if isinstance(e, ast.Subscript):      # d[k] of a dict of dicts of sets
            v = e.value
            if isinstance(v, ast.Attribute) and v.attr in self.dictdictset_attrs:
                return True
        return False

    def infer(self):
        """fixpoint over assignments, returns and call-site argument flow"""
        changed = True
        rounds = 0
        while changed and rounds < 12:
            changed = False
            rounds += 1
            for f, q, fn in self.funcs:
                sc = self.scopes[(f, q)]
                args = fn.args.posonlyargs + fn.args.args
                for i, a in enumerate(args):
                    if ((fn.name, i) in self.set_params or (fn.name, a.arg) in self.set_params) \
                            and a.arg not in sc.set_names:
                        sc.set_names.add(a.arg); changed = True
                for n in self.own_nodes(fn):
                    targets, value = [], None
                    if isinstance(n, ast.Assign):
                        targets, value = n.targets, n.value
                    elif isinstance(n, (ast.AnnAssign, ast.AugAssign)) and n.value is not None:
                        targets, value = [n.target], n.value
                    elif isinstance(n, ast.NamedExpr):
                        targets, value = [n.target], n.value
                    if value is not None and isinstance(value, ast.Tuple) and len(targets) == 1 \
                            and isinstance(targets[0], ast.Tuple) and len(targets[0].elts) == len(value.elts):
                        for tt, vv in zip(targets[0].elts, value.elts):
                            if isinstance(tt, ast.Name):
                                if self.is_set(vv, sc) and tt.id not in sc.set_names:
                                    sc.set_names.add(tt.id); changed = True
                                if (self.is_dictset_ctor(vv) == 1 or self.is_dictset(vv, sc)) \
                                        and tt.id not in sc.dictset_names:
                                    sc.dictset_names.add(tt.id); changed = True
                        value = None
                    if value is not None:
                        k = self.is_dictset_ctor(value)
                        isset = self.is_set(value, sc)
                        isds = k == 1 or self.is_dictset(value, sc)
                        for t in targets:
                            # chained `y = x[k] = value` and tuple targets are handled element-wise only for names
                            for tt in ([t] if not isinstance(t, (ast.Tuple, ast.List)) else []):
                                if isinstance(tt, ast.Name):
                                    if isset and tt.id not in sc.set_names:
                                        sc.set_names.add(tt.id); changed = True
                                    if isds and tt.id not in sc.dictset_names:
                                        sc.dictset_names.add(tt.id); changed = True
                                elif isinstance(tt, ast.Attribute):
                                    if isset and tt.attr not in self.set_attrs:
                                        self.set_attrs.add(tt.attr); changed = True
                                    if isds and tt.attr not in self.dictset_attrs:
                                        self.dictset_attrs.add(tt.attr); changed = True
                                    if k == 2 and tt.attr not in self.dictdictset_attrs:
                                        self.dictdictset_attrs.add(tt.attr); changed = True
                    if isinstance(n, ast.Return) and n.value is not None and self.is_set(n.value, sc):
                        if fn.name not in self.set_funcs:
                            self.set_funcs.add(fn.name); changed = True
                    if isinstance(n, ast.Call):
                        name = n.func.id if isinstance(n.func, ast.Name) else (
                            n.func.attr if isinstance(n.func, ast.Attribute) else None)
                        if name and not (name in ORDER_CALLS or name in ("set", "frozenset", "sorted", "len", "any", "all")):
                            off = 1 if isinstance(n.func, ast.Attribute) else 0   # methods: self is position 0
                            for i, a in enumerate(n.args):
                                if self.is_set(a, sc):
                                    for key in ((name, i + off), (name, i)) if off else ((name, i),):
                                        if self.known_func(name) and key not in self.set_params:
                                            self.set_params.add(key); changed = True
                            for kw in n.keywords:
                                if kw.arg and self.is_set(kw.value, sc) and self.known_func(name) \
                                        and (name, kw.arg) not in self.set_params:
                                    self.set_params.add((name, kw.arg)); changed = True
                    # `for x in S:` where S is a set of sets is not tracked (none in the package)

    def known_func(self, name):
        return any(fn.name == name for _, _, fn in self.funcs)

    # ---------------------------------------------------------------- sites
    def sites(self):
        out = []
        for f, q, fn in self.funcs:
            sc = self.scopes[(f, q)]
            stmts = {}

            def index(body):
                for s in body:
                    for n in ast.walk(s):
                        stmts.setdefault(id(n), s)
            # innermost enclosing *statement* of every node
            loops = {}

            def index_stmt(s, loop):
                if isinstance(s, (ast.For, ast.While)):
                    loop = s
                for c in ast.iter_child_nodes(s):
                    if isinstance(c, (ast.FunctionDef, ast.AsyncFunctionDef, ast.ClassDef)):
                        continue
                    if isinstance(c, ast.stmt):
                        index_stmt(c, loop)
                    else:
                        for n in ast.walk(c):
                            if isinstance(n, ast.stmt):
                                continue
                            stmts[id(n)] = s
                            loops[id(n)] = loop
            for s in fn.body:
                index_stmt(s, None)

            def add(kind, expr, at, stmt):
                out.append({"file": f, "func": q, "kind": kind, "expr": ast.unparse(expr),
                            "hash": h12(stmt), "line": at.lineno})

            for n in self.own_nodes(fn):
                if isinstance(n, ast.For) and self.is_set(n.iter, sc):
                    add("for", n.iter, n, n)
                if isinstance(n, (ast.ListComp, ast.GeneratorExp, ast.DictComp, ast.SetComp)):
                    for g in n.generators:
                        if self.is_set(g.iter, sc):
                            add("for", g.iter, n, stmts.get(id(n), n))
                if isinstance(n, ast.Call):
                    fnn = n.func
                    st = stmts.get(id(n), n)
                    if isinstance(fnn, ast.Name):
                        if fnn.id in ORDER_CALLS:
                            for a in n.args:
                                if self.is_set(a, sc):
                                    add("list", a, n, st)
                        if fnn.id == "sorted" and n.args and self.is_set(n.args[0], sc):
                            add("sorted", n.args[0], n, st)
                        if fnn.id in ("id", "hash"):
                            add("id", n, n, st)
                    elif isinstance(fnn, ast.Attribute):
                        if fnn.attr == "pop" and not n.args and self.is_set(fnn.value, sc):
                            # what is done with the popped element decides: hash the enclosing loop
                            add("pop", fnn.value, n, loops.get(id(n)) or fn)
                        if fnn.attr in ("extend", "join", "fromkeys") and n.args and self.is_set(n.args[0], sc):
                            add("list", n.args[0], n, st)
                if isinstance(n, ast.Starred) and self.is_set(n.value, sc):
                    add("list", n.value, n, stmts.get(id(n), n))
        out.sort(key=lambda s: (FILES.index(s["file"]), s["line"], s["kind"], s["expr"]))
        return out

    def ordered_sites(self):
        out = []
        for f, q, fn in self.funcs:
            for n in self.own_nodes(fn):
                if isinstance(n, ast.Call) and isinstance(n.func, ast.Attribute) and n.func.attr == "fromkeys" \
                        and isinstance(n.func.value, ast.Name) and n.func.value.id == "dict":
                    out.append((f, q, "fromkeys", n.lineno))
                if isinstance(n, ast.Dict) and n.keys and all(
                        isinstance(v, ast.Constant) and v.value is None for v in n.values) and not all(
                        isinstance(k, ast.Constant) for k in n.keys):
                    out.append((f, q, "dict-as-set", n.lineno))
                if isinstance(n, ast.Assign) and isinstance(n.value, ast.List) and not n.value.elts:
                    for t in n.targets:
                        if isinstance(t, ast.Attribute) and t.attr == "var_to_declare":
                            out.append((f, q, "list-as-set", n.lineno))
        out.sort(key=lambda s: (FILES.index(s[0]), s[3]))
        # one entry per (file, function, kind)
        seen, res = set(), []
        for f, q, k, _ in out:
            if (f, q, k) not in seen:
                seen.add((f, q, k)); res.append((f, q, k))
        return res

    def global_mutations(self):
        out = []
        for f, tree in self.trees.items():
            modnames = set()
            for n in tree.body:
                if isinstance(n, ast.Assign):
                    for t in n.targets:
                        if isinstance(t, ast.Name):
                            modnames.add(t.id)
                elif isinstance(n, ast.AnnAssign) and isinstance(n.target, ast.Name):
                    modnames.add(n.target.id)
            # class-level mutable attributes
            for n in ast.walk(tree):
                if isinstance(n, ast.ClassDef):
                    for s in n.body:
                        if isinstance(s, ast.Assign) and isinstance(s.value, (ast.List, ast.Dict, ast.Set, ast.ListComp,
                                                                              ast.DictComp, ast.SetComp, ast.Call)):
                            if isinstance(s.value, ast.Call) and not (
                                    isinstance(s.value.func, ast.Name) and s.value.func.id in
                                    ("list", "dict", "set", "defaultdict", "OrderedDict", "deque")):
                                continue
                            for t in s.targets:
                                if isinstance(t, ast.Name):
                                    out.append((f, n.name, "class-attr", t.id))
            for ff, q, fn in self.funcs:
                if ff != f:
                    continue
                local = {a.arg for a in fn.args.posonlyargs + fn.args.args + fn.args.kwonlyargs}
                if fn.args.vararg:
                    local.add(fn.args.vararg.arg)
                if fn.args.kwarg:
                    local.add(fn.args.kwarg.arg)
                glob = set()
                for n in self.own_nodes(fn):
                    if isinstance(n, ast.Global):
                        glob.update(n.names)
                        for name in n.names:
                            out.append((f, q, "global", name))
                    if isinstance(n, (ast.Assign, ast.AugAssign, ast.AnnAssign, ast.For, ast.With, ast.NamedExpr)):
                        tg = n.targets if isinstance(n, ast.Assign) else [getattr(n, "target", None)]
                        for t in tg:
                            for x in ast.walk(t) if t is not None else ():
                                if isinstance(x, ast.Name) and isinstance(x.ctx, ast.Store):
                                    local.add(x.id)
                local -= glob
                for n in self.own_nodes(fn):
                    if isinstance(n, (ast.Assign, ast.AugAssign)):
                        tg = n.targets if isinstance(n, ast.Assign) else [n.target]
                        for t in tg:
                            if isinstance(t, ast.Subscript) and isinstance(t.value, ast.Name) \
                                    and t.value.id in modnames and t.value.id not in local:
                                out.append((f, q, "setitem", t.value.id))
                    if isinstance(n, ast.Call) and isinstance(n.func, ast.Attribute) and n.func.attr in MUTATORS \
                            and isinstance(n.func.value, ast.Name) and n.func.value.id in modnames \
                            and n.func.value.id not in local:
                        out.append((f, q, "mutate", n.func.value.id))
        # module-level caches: a memoised function hands the SAME object to every caller; when that object
        # is a mutable container, whatever one decompiled method does to it is seen by the next one
        for f, q, fn in self.funcs:
            if self.cache_decorated(fn) and self.returns_mutable(fn):
                out.append((f, q, "cached-mutable", fn.name))
        res = []
        for x in out:
            if x not in res:
                res.append(x)
        return res

    @staticmethod
    def cache_decorated(fn):
        for d in fn.decorator_list:
            e = d.func if isinstance(d, ast.Call) else d
            name = e.id if isinstance(e, ast.Name) else (e.attr if isinstance(e, ast.Attribute) else "")
            if name in ("lru_cache", "cache", "cached_property", "memoize", "memoized", "cached"):
                return True
        return False

    @staticmethod
    def immutable_expr(e):
        if isinstance(e, (ast.Constant, ast.JoinedStr, ast.Compare, ast.BoolOp, ast.UnaryOp)):
            return True
        if isinstance(e, ast.Tuple):
            return all(Scanner.immutable_expr(x) for x in e.elts)
        if isinstance(e, ast.BinOp):          # '%s' % x, a + 1 …: str/int/tuple arithmetic makes a new value
            return Scanner.immutable_expr(e.left) or isinstance(e.left, ast.Name)
        if isinstance(e, ast.Call):
            fn = e.func
            name = fn.id if isinstance(fn, ast.Name) else (fn.attr if isinstance(fn, ast.Attribute) else "")
            return name in ("str", "int", "bool", "float", "tuple", "frozenset", "len", "format", "join",
                            "bytes", "hex", "repr")
        return False

    def returns_mutable(self, fn):
        """conservative: True unless every return value is recognisably immutable"""
        rets = [n for n in self.own_nodes(fn) if isinstance(n, ast.Return) and n.value is not None]
        return any(not self.immutable_expr(r.value) for r in rets)

    def dv_attrs(self):
        """names of the attributes DvMethod / DvClass objects carry (self.X = … in decompile.py)"""
        out = set()
        for f, q, fn in self.funcs:
            if f == "decompile.py" and q.split(".")[0] in ("DvMethod", "DvClass"):
                for n in self.own_nodes(fn):
                    if isinstance(n, (ast.Assign, ast.AnnAssign, ast.AugAssign)):
                        tg = n.targets if isinstance(n, ast.Assign) else [n.target]
                        for t in tg:
                            if isinstance(t, ast.Attribute) and isinstance(t.value, ast.Name) and t.value.id == "self":
                                out.add(t.attr)
        return out

    def alias_mutations(self):
        """in-place mutation of a value fetched from an attribute of ANOTHER object (`flags = m.access;
        flags.remove(..)`, `m.access.append(..)`, `del m.x[..]`, `m.x[..] = ..`) where the attribute is one a
        DvMethod/DvClass carries: such a value may be shared with other methods.  (file, func, attr, op)"""
        attrs = self.dv_attrs()
        out = []

        def fetched(e):          # `<not self>.<attr>` -> attr
            if isinstance(e, ast.Attribute) and e.attr in attrs and not (
                    isinstance(e.value, ast.Name) and e.value.id == "self"):
                return e.attr
            return None
        for f, q, fn in self.funcs:
            alias = {}
            for n in self.own_nodes(fn):
                if isinstance(n, ast.Assign) and len(n.targets) == 1 and isinstance(n.targets[0], ast.Name):
                    a = fetched(n.value)
                    if a:
                        alias[n.targets[0].id] = a
            def src(e):
                if isinstance(e, ast.Name) and e.id in alias:
                    return alias[e.id]
                return fetched(e)
            for n in self.own_nodes(fn):
                if isinstance(n, ast.Call) and isinstance(n.func, ast.Attribute) and n.func.attr in (
                        MUTATORS | {"sort", "reverse", "__setitem__", "__delitem__"}):
                    a = src(n.func.value)
                    if a:
                        out.append((f, q, a, n.func.attr))
                if isinstance(n, ast.Delete):
                    for t in n.targets:
                        if isinstance(t, ast.Subscript) and src(t.value):
                            out.append((f, q, src(t.value), "del"))
                if isinstance(n, (ast.Assign, ast.AugAssign)):
                    tg = n.targets if isinstance(n, ast.Assign) else [n.target]
                    for t in tg:
                        if isinstance(t, ast.Subscript) and src(t.value):
                            out.append((f, q, src(t.value), "setitem"))
                        if isinstance(n, ast.AugAssign) and isinstance(t, ast.Name) and src(t):
                            out.append((f, q, src(t), "augassign"))
        res = []
        for x in out:
            if x not in res:
                res.append(x)
        return res

    def access_sources(self):
        """where the `access` lists come from: each producer (util.get_access_*) must build a NEW list on every
        call (no cache decorator, every return a list display / comprehension / list(..) call), and each
        `self.access = …` of DvMethod/DvClass must be a direct call of a producer.  (file, func, what)"""
        out = []
        producers = set()
        for f, q, fn in self.funcs:
            if f == "util.py" and fn.name.startswith("get_access_"):
                rets = [n.value for n in self.own_nodes(fn) if isinstance(n, ast.Return) and n.value is not None]
                fresh = bool(rets) and all(
                    isinstance(r, (ast.List, ast.ListComp)) or (
                        isinstance(r, ast.Call) and isinstance(r.func, ast.Name) and r.func.id in ("list", "sorted"))
                    for r in rets)
                kind = "cached" if self.cache_decorated(fn) else ("fresh-list" if fresh else "not-fresh")
                out.append((f, q, kind))
                producers.add(fn.name)
        for f, q, fn in self.funcs:
            if f == "decompile.py" and q.split(".")[0] in ("DvMethod", "DvClass"):
                for n in self.own_nodes(fn):
                    if isinstance(n, ast.Assign):
                        for t in n.targets:
                            if isinstance(t, ast.Attribute) and t.attr == "access" and isinstance(t.value, ast.Name) \
                                    and t.value.id == "self":
                                v = n.value
                                name = v.func.attr if isinstance(v, ast.Call) and isinstance(v.func, ast.Attribute) \
                                    else (v.func.id if isinstance(v, ast.Call) and isinstance(v.func, ast.Name) else "")
                                out.append((f, q, "call:" + name if name in producers else "other:" + ast.unparse(v)[:40]))
        return out

    def process_reinit(self):
        """guard structure at the top of DvMethod.process(): the register -> variable mapping must be
        re-created by an UNCONDITIONAL `self._init_variables()` statement of the function body that comes
        before the first use of `self.var_to_name` (the `construct(...)` call); the only thing allowed to
        precede it is the early return for methods without code.  Also: `_init_variables` itself assigns
        `self.lparams` and `self.var_to_name` at the top level of its body.
        -> [(what, shape)]; a shape this function does not recognise raises (broken obligation)."""
        byq = {(f, q): fn for f, q, fn in self.funcs}
        proc = byq.get(("decompile.py", "DvMethod.process"))
        init = byq.get(("decompile.py", "DvMethod._init_variables"))
        if proc is None or init is None:
            raise RuntimeError("DvMethod.process / DvMethod._init_variables not found")

        def is_reinit(st):
            return isinstance(st, ast.Expr) and isinstance(st.value, ast.Call) and \
                ast.unparse(st.value.func) == "self._init_variables" and not st.value.args

        def uses_vmap(st):
            return any(isinstance(n, ast.Attribute) and n.attr == "var_to_name" for n in ast.walk(st))
        shape, before = None, []
        for st in proc.body:
            if is_reinit(st):
                shape = "unconditional"
                break
            if any(is_reinit(n) for n in ast.walk(st) if isinstance(n, ast.stmt)):
                cond = ast.unparse(st.test) if isinstance(st, (ast.If, ast.While)) else type(st).__name__
                shape = "guarded:" + cond
                break
            if uses_vmap(st):
                shape = "after-first-use"
                break
            if isinstance(st, ast.Expr) and isinstance(st.value, (ast.Constant, ast.Call)):
                continue                       # docstring, logger call
            if isinstance(st, ast.If) and ast.unparse(st.test) == "self.start_block is None" \
                    and isinstance(st.body[-1], ast.Return) and not st.orelse:
                before.append("return-if-no-code")
                continue
            raise RuntimeError("DvMethod.process: unrecognised statement before the re-initialisation: "
                               + ast.unparse(st)[:80])
        if shape is None:
            raise RuntimeError("DvMethod.process: no call of self._init_variables()")
        top = []
        for st in init.body:
            if isinstance(st, ast.Assign):
                for t in st.targets:
                    if isinstance(t, ast.Attribute) and isinstance(t.value, ast.Name) and t.value.id == "self":
                        top.append(t.attr)
        return [("DvMethod.process", shape), ("DvMethod.process:before", ",".join(before) or "-"),
                ("DvMethod._init_variables:resets", ",".join(sorted(set(top) & {"lparams", "var_to_name"})))]

    def pins(self):
        out = []
        byq = {(f, q): fn for f, q, fn in self.funcs}
        for f, q in PINNED:
            fn = byq.get((f, q))
            out.append((f, q, h12(fn) if fn is not None else "missing"))
        return out


def scan(repo):
    trees = {}
    for f in FILES:
        p = os.path.join(repo, PKG, f)
        with open(p, encoding="utf-8") as fh:
            trees[f] = ast.parse(fh.read(), filename=p)
    # every python file of the package must be in FILES: a new module must not escape the scan
    present = sorted(x for x in os.listdir(os.path.join(repo, PKG)) if x.endswith(".py") and x != "__init__.py")
    missing = [x for x in present if x not in FILES]
    if missing:
        raise RuntimeError("decompiler modules not covered by the order-site scan: %s" % missing)
    sc = Scanner(trees)
    sc.collect_funcs()
    sc.infer()
    return sc


def lstr(s):
    return '"' + s.replace("\\", "\\\\").replace('"', '\\"') + '"'


def generate(repo):
    sc = scan(repo)
    sites = sc.sites()
    L = ["/- GENERATED by gen/ordersites.py from androguard/decompiler/*.py — do not edit. -/",
         "namespace AgVerif.Gen.OrderSites", "",
         "/-- one place of the decompiler whose result can depend on the iteration order of a hash container -/",
         "structure Site where",
         "  file : String", "  func : String", "  kind : String", "  expr : String", "  hash : String",
         "  deriving DecidableEq, Repr", "",
         "def sites : List Site := ["]
    L += [",\n".join("  ⟨%s, %s, %s, %s, %s⟩" % (lstr(s["file"]), lstr(s["func"]), lstr(s["kind"]), lstr(s["expr"]),
                                                    lstr(s["hash"])) for s in sites)]
    L += ["]", "", "/-- repairs in place: ordered containers where a hash container used to be -/",
          "def orderedSites : List (String × String × String) := ["]
    L += [",\n".join("  (%s, %s, %s)" % tuple(map(lstr, s)) for s in sc.ordered_sites())]
    L += ["]", "", "/-- module-level / class-level state that functions of the package mutate -/",
          "def globalMutations : List (String × String × String × String) := ["]
    L += [",\n".join("  (%s, %s, %s, %s)" % tuple(map(lstr, s)) for s in sc.global_mutations())]
    L += ["]", "", "/-- in-place mutations of values fetched from DvMethod/DvClass attributes of another object -/",
          "def aliasMutations : List (String × String × String × String) := ["]
    L += [",\n".join("  (%s, %s, %s, %s)" % tuple(map(lstr, s)) for s in sc.alias_mutations())]
    L += ["]", "", "/-- producers of the `access` lists and the assignments that store them -/",
          "def accessSources : List (String × String × String) := ["]
    L += [",\n".join("  (%s, %s, %s)" % tuple(map(lstr, s)) for s in sc.access_sources())]
    L += ["]", "", "/-- guard structure of the variable re-initialisation at the top of DvMethod.process() -/",
          "def processReinit : List (String × String) := ["]
    L += [",\n".join("  (%s, %s)" % tuple(map(lstr, s)) for s in sc.process_reinit())]
    L += ["]", "", "/-- normalised-AST hashes of the hand-modelled functions -/",
          "def pins : List (String × String × String) := ["]
    L += [",\n".join("  (%s, %s, %s)" % tuple(map(lstr, s)) for s in sc.pins())]
    L += ["]", "", "end AgVerif.Gen.OrderSites", ""]
    return {"OrderSites": "\n".join(L)}


if __name__ == "__main__":
    import sys
    repo = sys.argv[1] if len(sys.argv) > 1 else "/repo"
    sc = scan(repo)
    for s in sc.sites():
        print("%-16s %-44s %-7s %-12s %4d  %s" % (s["file"], s["func"], s["kind"], s["hash"], s["line"], s["expr"]))
    print("ordered:", sc.ordered_sites())
    print("global :", sc.global_mutations())
    print("alias  :", sc.alias_mutations())
    print("access :", sc.access_sources())
    print("reinit :", sc.process_reinit())
    print("set attrs:", sorted(sc.set_attrs), "dictset attrs:", sorted(sc.dictset_attrs), sorted(sc.dictdictset_attrs))
    print("set funcs:", sorted(sc.set_funcs), "set params:", sorted(sc.set_params, key=str))
