"""Translator for C36: the SHAPE of the identifier loop of Session.__init__ (androguard/session.py)
-> lean/AgVerif/Gen/SessionLoop.lean, by AST, on every run.

The model's `stepRetry` assumes: the count `self.session_id = len(self.table_session)` and the insert
sit in an UNBOUNDED loop (`while True`), left by `break` right after a successful insert; the only
exception caught is IntegrityError; its handler rolls back (so the write lock is released) and falls
through to the next iteration (no raise / break / return), i.e. the rollback precedes the re-count.
Extracted facts:
  hasLoop                 the count is inside a loop of __init__
  loopBound               none = `while True` (no else) ; some k = `for _ in range(k)` (k an int literal or a
                          class-level int literal referenced as self.X / Session.X / X)
  caught                  exception names of the handlers of the try around the insert
  breakOnSuccess          the try body is `insert(...)` followed by `break`
  rollbackBeforeRecount   every handler contains a `.rollback()` call and no raise/break/return/continue-less exit
An unrecognised shape (count not found, loop that is neither of the two, unresolvable bound, insert
outside a try while inside a loop …) raises: the obligation is then reported as broken.
"""
import ast
import os

REL = os.path.join("androguard", "session.py")


def _is_count(node):
    """self.session_id = len(self.table_session)"""
    return (isinstance(node, ast.Assign) and len(node.targets) == 1
            and isinstance(node.targets[0], ast.Attribute) and node.targets[0].attr == "session_id"
            and isinstance(node.value, ast.Call) and isinstance(node.value.func, ast.Name) and node.value.func.id == "len"
            and len(node.value.args) == 1 and isinstance(node.value.args[0], ast.Attribute)
            and node.value.args[0].attr == "table_session")


def _is_insert_stmt(node):
    return (isinstance(node, ast.Expr) and isinstance(node.value, ast.Call)
            and isinstance(node.value.func, ast.Attribute) and node.value.func.attr == "insert"
            and isinstance(node.value.func.value, ast.Attribute) and node.value.func.value.attr == "table_session")


def _contains(node, pred):
    return any(pred(n) for n in ast.walk(node))


def _class_int(cls, name):
    for n in cls.body:
        if isinstance(n, ast.Assign) and any(isinstance(t, ast.Name) and t.id == name for t in n.targets):
            v = ast.literal_eval(n.value)
            if isinstance(v, int) and not isinstance(v, bool):
                return v
        if isinstance(n, ast.AnnAssign) and isinstance(n.target, ast.Name) and n.target.id == name and n.value is not None:
            v = ast.literal_eval(n.value)
            if isinstance(v, int) and not isinstance(v, bool):
                return v
    raise ValueError(f"loop bound {name} is not a class-level int literal")


def _bound(expr, cls, tree):
    if isinstance(expr, ast.Constant) and isinstance(expr.value, int) and not isinstance(expr.value, bool):
        return expr.value
    if isinstance(expr, ast.Attribute) and isinstance(expr.value, ast.Name) and expr.value.id in ("self", cls.name, "cls"):
        return _class_int(cls, expr.attr)
    if isinstance(expr, ast.Name):
        for n in tree.body:
            if isinstance(n, ast.Assign) and any(isinstance(t, ast.Name) and t.id == expr.id for t in n.targets):
                v = ast.literal_eval(n.value)
                if isinstance(v, int) and not isinstance(v, bool):
                    return v
    raise ValueError("loop bound is not resolvable to an int literal: " + ast.unparse(expr))


def facts(repo: str) -> dict:
    src = open(os.path.join(repo, REL)).read()
    tree = ast.parse(src)
    cls = next(n for n in tree.body if isinstance(n, ast.ClassDef) and n.name == "Session")
    init = next(n for n in cls.body if isinstance(n, ast.FunctionDef) and n.name == "__init__")
    counts = [n for n in ast.walk(init) if _is_count(n)]
    if len(counts) != 1:
        raise ValueError(f"expected exactly one `self.session_id = len(self.table_session)` in Session.__init__, found {len(counts)}")
    # innermost loop of __init__ that contains the count
    loops = [n for n in ast.walk(init) if isinstance(n, (ast.While, ast.For)) and _contains(n, _is_count)]
    inserts = [n for n in ast.walk(init) if _is_insert_stmt(n)]
    if len(inserts) != 1:
        raise ValueError(f"expected exactly one table_session.insert(...) statement, found {len(inserts)}")
    if not loops:
        # the unfixed code: count then insert, no loop
        return {"hasLoop": False, "loopBound": None, "caught": [], "breakOnSuccess": False, "rollbackBeforeRecount": False}
    loop = min(loops, key=lambda n: sum(1 for _ in ast.walk(n)))
    if isinstance(loop, ast.While):
        if not (isinstance(loop.test, ast.Constant) and loop.test.value is True) or loop.orelse:
            raise ValueError("identifier loop is a `while` that is not `while True` without else: " + ast.unparse(loop.test))
        bound = None
    else:
        it = loop.iter
        if not (isinstance(it, ast.Call) and isinstance(it.func, ast.Name) and it.func.id == "range" and len(it.args) == 1 and not it.keywords):
            raise ValueError("identifier loop is a `for` over something else than range(k): " + ast.unparse(it))
        bound = _bound(it.args[0], cls, tree)
        if bound < 0:
            raise ValueError("negative loop bound")
    # the count must be a direct statement of the loop body, the insert inside a try that is a direct statement too
    if not any(s is counts[0] for s in loop.body):
        raise ValueError("the count is not a direct statement of the loop body")
    tries = [s for s in loop.body if isinstance(s, ast.Try) and _contains(s, _is_insert_stmt)]
    if len(tries) != 1 or loop.body.index(tries[0]) < loop.body.index(counts[0]):
        raise ValueError("the insert is not inside one try statement after the count in the loop body")
    t = tries[0]
    if t.orelse or t.finalbody:
        raise ValueError("try around the insert has else/finally: shape not recognised")
    body = t.body
    break_on_success = (len(body) == 2 and _is_insert_stmt(body[0]) and isinstance(body[1], ast.Break))
    caught = []
    rollback = bool(t.handlers)
    for h in t.handlers:
        if h.type is None:
            caught.append("BaseException(bare)")
        elif isinstance(h.type, ast.Tuple):
            caught += [ast.unparse(e) for e in h.type.elts]
        else:
            caught.append(ast.unparse(h.type))
        has_rb = _contains(ast.Module(body=h.body, type_ignores=[]),
                           lambda n: isinstance(n, ast.Call) and isinstance(n.func, ast.Attribute) and n.func.attr == "rollback")
        leaves = _contains(ast.Module(body=h.body, type_ignores=[]),
                           lambda n: isinstance(n, (ast.Raise, ast.Break, ast.Return)))
        rollback = rollback and has_rb and not leaves
    # nothing after the try in the loop body may re-count or insert
    after = loop.body[loop.body.index(t) + 1:]
    if any(_contains(s, _is_count) or _contains(s, _is_insert_stmt) for s in after):
        raise ValueError("statements after the try count or insert again: shape not recognised")
    return {"hasLoop": True, "loopBound": bound, "caught": caught, "breakOnSuccess": break_on_success,
            "rollbackBeforeRecount": rollback}


def generate(repo: str) -> dict:
    f = facts(repo)
    b = "none" if f["loopBound"] is None else f"some {f['loopBound']}"
    lb = lambda x: "true" if x else "false"
    caught = "[" + ", ".join('"' + c.replace('"', "'") + '"' for c in f["caught"]) + "]"
    text = f"""/- GENERATED by gen/sessionloop.py from {REL} (AST of Session.__init__) — do not edit. -/
namespace AgVerif.Gen.SessionLoop

/-- the count `self.session_id = len(self.table_session)` sits inside a loop -/
def hasLoop : Bool := {lb(f['hasLoop'])}

/-- none: `while True`;  some k: `for _ in range(k)` -/
def loopBound : Option Nat := {b}

/-- exception names caught around the insert -/
def caught : List String := {caught}

/-- the try body is `insert(...)` then `break` -/
def breakOnSuccess : Bool := {lb(f['breakOnSuccess'])}

/-- every handler rolls back and falls through to the next iteration (the re-count) -/
def rollbackBeforeRecount : Bool := {lb(f['rollbackBeforeRecount'])}

end AgVerif.Gen.SessionLoop
"""
    return {"SessionLoop": text}


if __name__ == "__main__":
    import sys
    r = sys.argv[1] if len(sys.argv) > 1 else "/repo"
    print(facts(r))
