"""Translator for C17: which hook table each rename setter writes, which caches it refreshes and in
which order, and which hook table each reader consults.

androguard/core/dex/__init__.py  ->  lean/AgVerif/Gen/RenameCfg.lean  (AgVerif.Rename.Cfg)

Read from the AST of the working tree (no import).  The statement sequence of
  ClassDefItem.set_name + ClassManager.set_hook_class_name      -> clsProg
  EncodedMethod.set_name + ClassManager.set_hook_method_name    -> methProg
  EncodedField.set_name + ClassManager.set_hook_field_name      -> fldProg
is turned into a list of `Act` (AgVerif/Model/Rename.lean), which the model interprets.  Every
statement must be recognised: an unknown statement in one of these bodies raises (the run then
reports a broken obligation instead of silently proving theorems about a stale model).  The small
reader functions (get_string, get_type, get_item_name, the reload methods, the STRING branch of
get_kind) are compared with the shapes the model transliterates.
"""
import ast
import os

PATH = os.path.join("androguard", "core", "dex", "__init__.py")


class Shape(ValueError):
    pass


def _src(node) -> str:
    return ast.unparse(node).strip()


def _norm(code: str) -> str:
    return ast.unparse(ast.parse(code)).strip()


def _body(fn):
    """statements without the docstring"""
    b = list(fn.body)
    if b and isinstance(b[0], ast.Expr) and isinstance(b[0].value, ast.Constant) and isinstance(b[0].value.value, str):
        b = b[1:]
    return b


def _find(tree):
    classes = {}
    funcs = {}
    for node in tree.body:
        if isinstance(node, ast.ClassDef):
            classes[node.name] = {f.name: f for f in node.body if isinstance(f, ast.FunctionDef)}
        elif isinstance(node, ast.FunctionDef):
            funcs[node.name] = node
    return classes, funcs


def _need(classes, cls, fn):
    try:
        return classes[cls][fn]
    except KeyError:
        raise Shape(f"{cls}.{fn} not found")


def _mentions(node, names):
    for n in ast.walk(node):
        if isinstance(n, ast.Attribute) and n.attr in names:
            return True
    return False


HOOKY = {"reload", "hook_strings", "hook_names", "hook_types", "set_hook_string", "load"}


def _python_export_only(stmt) -> bool:
    """try/if blocks that only maintain the `C`/`M`/`F` python-export attributes"""
    return not _mentions(stmt, HOOKY)


def prog_class(fn):
    acts = []
    for st in _body(fn):
        s = _src(st)
        if s == "python_export = True":
            continue
        if s == "_type = self.__manage_item[TypeMapItem.TYPE_ID_ITEM].get(class_def.get_class_idx())":
            continue
        if s == "self.set_hook_string(_type, value)":
            acts.append("hookString"); continue
        if s == "self.hook_types[class_def.get_class_idx()] = value":
            acts.append("hookItem"); continue
        if s == "class_def.reload()":
            acts.append("reloadClassDef"); continue
        if s == "self.__manage_item[TypeMapItem.METHOD_ID_ITEM].reload()":
            acts.append("reloadAllMethodIds"); continue
        if s == "self.__manage_item[TypeMapItem.FIELD_ID_ITEM].reload()":
            acts.append("reloadAllFieldIds"); continue
        if s == _norm("for i in class_def.get_methods():\n    i.reload()"):
            acts.append("reloadOwnMethods"); continue
        if s == _norm("for i in class_def.get_fields():\n    i.reload()"):
            acts.append("reloadOwnFields"); continue
        if isinstance(st, (ast.Try, ast.If)) and _python_export_only(st):
            continue
        raise Shape("set_hook_class_name: unrecognised statement: " + s.split("\n")[0])
    return acts


def prog_member(fn, kind):
    """kind = 'method' | 'field'"""
    enc = "encoded_" + kind
    acts = []
    table = {"method": "METHOD_ID_ITEM", "field": "FIELD_ID_ITEM"}[kind]
    for st in _body(fn):
        s = _src(st)
        if s == "python_export = True":
            continue
        if s == f"{kind} = self.__manage_item[TypeMapItem.{table}].get({enc}.get_{kind}_idx())":
            continue
        if s == f"self.set_hook_string({kind}.get_name_idx(), value)":
            acts.append("hookString"); continue
        if s == f"self.hook_names[{kind}] = value":
            acts.append("hookItem"); continue
        if s == f"class_def = self.__manage_item[TypeMapItem.CLASS_DEF_ITEM].get_class_idx({kind}.get_class_idx())":
            continue
        if isinstance(st, ast.If) and _src(st.test) == "class_def is not None":
            if _mentions(st, HOOKY):
                raise Shape(f"set_hook_{kind}_name: the python-export block touches hooks or caches")
            # the block starts by calling encoded_x.get_name(), which loads the encoded item
            first = _src(st.body[0]) if st.body else ""
            if f"{enc}.get_name()" in first:
                acts.append("touchEnc")
            elif f"{enc}.get_name()" in s or f"{enc}.get_descriptor()" in s or f"{enc}.get_class_name()" in s:
                raise Shape(f"set_hook_{kind}_name: lazy load at an unexpected place")
            continue
        if s == f"{kind}.reload()":
            acts.append("reloadId"); continue
        if isinstance(st, ast.Expr) and isinstance(st.value, ast.Call) and _src(st.value.func) == "logger.debug":
            continue
        raise Shape(f"set_hook_{kind}_name: unrecognised statement: " + s.split("\n")[0])
    return acts


def prog_set_name(fn, setter, inner, own_reload):
    acts = []
    called = False
    for st in _body(fn):
        s = _src(st)
        if s == f"self.CM.{setter}(self, value)":
            acts += inner; called = True; continue
        if s == "self.reload()":
            acts.append(own_reload); continue
        raise Shape(f"set_name ({setter}): unrecognised statement: " + s.split("\n")[0])
    if not called:
        raise Shape(f"set_name no longer calls {setter}")
    return acts


def _assigns(fn):
    """{target source: value source} of the simple assignments at the top level of fn"""
    out = {}
    for st in _body(fn):
        if isinstance(st, ast.Assign) and len(st.targets) == 1:
            out[_src(st.targets[0])] = _src(st.value)
    return out


def extract(repo):
    path = os.path.join(repo, PATH)
    tree = ast.parse(open(path).read(), path)
    classes, funcs = _find(tree)
    cm = "ClassManager"
    cfg = {}
    cls_inner = prog_class(_need(classes, cm, "set_hook_class_name"))
    meth_inner = prog_member(_need(classes, cm, "set_hook_method_name"), "method")
    fld_inner = prog_member(_need(classes, cm, "set_hook_field_name"), "field")
    cfg["clsProg"] = prog_set_name(_need(classes, "ClassDefItem", "set_name"), "set_hook_class_name", cls_inner, "reloadClassDef")
    cfg["methProg"] = prog_set_name(_need(classes, "EncodedMethod", "set_name"), "set_hook_method_name", meth_inner, "reloadEnc")
    cfg["fldProg"] = prog_set_name(_need(classes, "EncodedField", "set_name"), "set_hook_field_name", fld_inner, "reloadEnc")

    # --- readers ---------------------------------------------------------------------------
    b = [_src(s) for s in _body(_need(classes, cm, "set_hook_string"))]
    if b != ["self.hook_strings[idx] = value"]:
        raise Shape("set_hook_string changed: " + repr(b))
    b = [_src(s) for s in _body(_need(classes, cm, "get_string"))]
    if b != [_norm("if idx in self.hook_strings:\n    return self.hook_strings[idx]"), "return self.get_raw_string(idx)"]:
        raise Shape("ClassManager.get_string changed: " + repr(b))
    b = [_src(s) for s in _body(_need(classes, cm, "get_type"))]
    head = ["_type = self.get_type_ref(idx)", _norm("if _type == -1:\n    return 'AG:ITI: invalid type'")]
    if b == head + ["return self.get_string(_type)"]:
        cfg["typeUsesHook"] = False
    elif b == head + [_norm("if idx in self.hook_types:\n    return self.hook_types[idx]"), "return self.get_string(_type)"]:
        cfg["typeUsesHook"] = True
    else:
        raise Shape("ClassManager.get_type changed: " + repr(b))
    has_item_name = "get_item_name" in classes[cm]
    if has_item_name:
        b = [_src(s) for s in _body(classes[cm]["get_item_name"])]
        if b != [_norm("if item in self.hook_names:\n    return self.hook_names[item]"), "return self.get_string(item.name_idx)"]:
            raise Shape("ClassManager.get_item_name changed: " + repr(b))
    for cls, key, rest in (("MethodIdItem", "methUsesHook",
                            {"self.class_idx_value": "self.CM.get_type(self.class_idx)",
                             "self.proto_idx_value": "self.CM.get_proto(self.proto_idx)"}),
                           ("FieldIdItem", "fldUsesHook",
                            {"self.class_idx_value": "self.CM.get_type(self.class_idx)",
                             "self.type_idx_value": "self.CM.get_type(self.type_idx)"})):
        a = _assigns(_need(classes, cls, "reload"))
        nm = a.pop("self.name_idx_value", None)
        if nm == "self.CM.get_string(self.name_idx)":
            cfg[key] = False
        elif nm == "self.CM.get_item_name(self)" and has_item_name:
            cfg[key] = True
        else:
            raise Shape(f"{cls}.reload: name_idx_value = {nm}")
        if a != rest:
            raise Shape(f"{cls}.reload changed: {a}")
        g = [_src(s) for s in _body(_need(classes, cls, "get_name"))]
        if g[-1] != "return self.name_idx_value":
            raise Shape(f"{cls}.get_name changed")
    a = _assigns(_need(classes, "ClassDefItem", "reload"))
    if a.get("self.name") != "self.CM.get_type(self.class_idx)" or a.get("self.sname") != "self.CM.get_type(self.superclass_idx)":
        raise Shape("ClassDefItem.reload changed")
    if [_src(s) for s in _body(_need(classes, "ClassDefItem", "get_name"))] != ["return self.name"]:
        raise Shape("ClassDefItem.get_name changed")
    a = _assigns(_need(classes, "EncodedField", "reload"))
    if a != {"name": "self.CM.get_field(self.field_idx)", "self.class_name": "name[0]", "self.name": "name[2]", "self.proto": "name[1]"}:
        raise Shape("EncodedField.reload changed: %r" % a)
    fn = _need(classes, "EncodedMethod", "reload")
    a = _assigns(fn)
    if a.get("v") != "self.CM.get_method(self.method_idx)":
        raise Shape("EncodedMethod.reload changed")
    inner = None
    for st in _body(fn):
        if isinstance(st, ast.If):
            inner = {_src(x.targets[0]): _src(x.value) for x in st.body if isinstance(x, ast.Assign)}
    if inner != {"self.class_name": "v[0]", "self.name": "v[1]", "self.proto": "''.join((i for i in v[2]))"}:
        raise Shape("EncodedMethod.reload changed: %r" % inner)
    for cls in ("EncodedMethod", "EncodedField"):
        g = [_src(s) for s in _body(_need(classes, cls, "get_name"))]
        if g != [_norm("if not self.loaded:\n    self.load()"), "return self.name"]:
            raise Shape(f"{cls}.get_name changed")
        g = [_src(s) for s in _body(_need(classes, cls, "load"))]
        if g != [_norm("if self.loaded:\n    return"), "self.reload()", "self.loaded = True"]:
            raise Shape(f"{cls}.load changed")
    # get_kind: the STRING branch
    gk = funcs.get("get_kind")
    if gk is None:
        raise Shape("get_kind not found")
    found = None
    for n in ast.walk(gk):
        if isinstance(n, ast.If) and _src(n.test) == "kind == Kind.STRING":
            found = [_src(s) for s in n.body]
    if found == ["return cm.get_string(value)"]:
        cfg["constUsesStringHook"] = True
    elif found == ["return cm.get_raw_string(value)"]:
        cfg["constUsesStringHook"] = False
    else:
        raise Shape("get_kind STRING branch changed: %r" % found)
    return cfg


def lean_bool(b):
    return "true" if b else "false"


def generate(repo):
    cfg = extract(repo)

    def prog(k):
        return "[" + ", ".join("." + a for a in cfg[k]) + "]"
    text = ("/- GENERATED by gen/renamecfg.py from androguard/core/dex/__init__.py (statement sequence of the\n"
            "   rename setters; which hook table each reader consults). Do not edit. -/\n"
            "import AgVerif.Model.Rename\n"
            "namespace AgVerif.Gen.RenameCfg\nopen AgVerif.Rename\n\n"
            "def cfg : Cfg :=\n"
            "  { clsProg := %s,\n    methProg := %s,\n    fldProg := %s,\n"
            "    typeUsesHook := %s,\n    methUsesHook := %s,\n    fldUsesHook := %s,\n"
            "    constUsesStringHook := %s }\n\n"
            "end AgVerif.Gen.RenameCfg\n"
            % (prog("clsProg"), prog("methProg"), prog("fldProg"),
               lean_bool(cfg["typeUsesHook"]), lean_bool(cfg["methUsesHook"]), lean_bool(cfg["fldUsesHook"]),
               lean_bool(cfg["constUsesStringHook"])))
    return {"RenameCfg": text}


if __name__ == "__main__":
    import sys
    print(generate(sys.argv[1] if len(sys.argv) > 1 else "/repo")["RenameCfg"])
