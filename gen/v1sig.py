"""Translator for C32: androguard/core/apk/__init__.py -> lean/AgVerif/Gen/V1SigTables.lean

Reads (AST only, no import) the v1 (JAR) signature functions of class APK and emits every constant,
table and comparison operator the Lean model AgVerif.V1Sig and the theorems of Props/C32 depend on:

  get_hash_algorithm                     the digest table  name -> (hashlib function, cryptography hash class)
  get_certificate_der                    `min_sdk_version is None or int(min_sdk_version) <op> <const>` (signer selection),
                                         which branch takes `[signer_infos[0]]` and which `signer_infos`,
                                         the exception classes swallowed around verify_signer_info_against_sig_file,
                                         how the name of the .SF file is derived from the signature block name
  verify_signer_info_against_sig_file    contentType / messageDigest OIDs, `max_sdk_version is None or int(..) <op> <const>`,
                                         the byte the signed-attributes dump is re-tagged with
  verify_signature                       the exception classes swallowed around public_key.verify
  get_signature_names / get_signatures   the regular expression, and how the .SF name is derived
A shape this translator does not recognise makes it fail (broken obligation, deeper search), never a silent default.
`pins()` returns normalised-AST hashes of the hand-modelled functions (a changed hash only escalates the run).
"""
import ast
import hashlib
import os
import re

SRC = "androguard/core/apk/__init__.py"
CMP = {ast.Lt: "lt", ast.LtE: "le", ast.Gt: "gt", ast.GtE: "ge", ast.Eq: "eq", ast.NotEq: "ne"}
MODELLED = ["get_certificate_der", "verify_signer_info_against_sig_file", "verify_signature", "get_hash_algorithm",
            "find_certificate", "get_certificate", "get_certificates_v1", "get_signature_names"]


class Unrecognised(Exception):
    pass


def _apk_class(repo):
    tree = ast.parse(open(os.path.join(repo, SRC), encoding="utf-8").read())
    for n in tree.body:
        if isinstance(n, ast.ClassDef) and n.name == "APK":
            return n
    raise Unrecognised("class APK not found")


def _fn(cls, name):
    for n in cls.body:
        if isinstance(n, ast.FunctionDef) and n.name == name:
            return n
    raise Unrecognised(f"APK.{name} not found")


def _strip_doc(fn):
    body = fn.body
    if body and isinstance(body[0], ast.Expr) and isinstance(body[0].value, ast.Constant) and isinstance(body[0].value.value, str):
        body = body[1:]
    return body


def _sdk_test(test, var):
    """`<var> is None or int(<var>) <op> <const>` -> (op, const)"""
    if not (isinstance(test, ast.BoolOp) and isinstance(test.op, ast.Or) and len(test.values) == 2):
        raise Unrecognised(f"sdk test on {var}: {ast.unparse(test)}")
    a, b = test.values
    if ast.unparse(a) != f"{var} is None":
        raise Unrecognised(f"sdk test on {var}, first clause: {ast.unparse(a)}")
    if not (isinstance(b, ast.Compare) and len(b.ops) == 1 and ast.unparse(b.left) == f"int({var})"
            and isinstance(b.comparators[0], ast.Constant) and type(b.comparators[0].value) is int
            and type(b.ops[0]) in CMP):
        raise Unrecognised(f"sdk test on {var}, second clause: {ast.unparse(b)}")
    return CMP[type(b.ops[0])], b.comparators[0].value


def _handler_names(h):
    t = h.type
    elts = t.elts if isinstance(t, ast.Tuple) else [t]
    out = []
    for e in elts:
        if not isinstance(e, ast.Name):
            raise Unrecognised("except clause with a non-name: " + ast.unparse(t))
        out.append(e.id)
    return out


def _sf_rule(expr_src, var):
    """recognise the two ways the code derives the .SF name"""
    s = expr_src.replace('"', "'").replace(" ", "")
    if s == f"os.path.splitext({var})[0]+'.SF'":
        return "splitext"
    if s in (f"{var}.rsplit('.',1)[0]+'.SF'", f"'{{}}.SF'.format({var}.rsplit('.',1)[0])"):
        return "rsplit"
    raise Unrecognised("derivation of the .SF name: " + expr_src)


def extract(repo):
    cls = _apk_class(repo)
    info = {}
    # ---- get_hash_algorithm
    f = _fn(cls, "get_hash_algorithm")
    dicts = [s for s in ast.walk(f) if isinstance(s, ast.Assign) and isinstance(s.value, ast.Dict)
             and ast.unparse(s.targets[0]) == "hash_algorithms"]
    if len(dicts) != 1:
        raise Unrecognised("get_hash_algorithm: one dict literal `hash_algorithms` expected")
    table = {}
    for k, v in zip(dicts[0].value.keys, dicts[0].value.values):
        if not (isinstance(k, ast.Constant) and isinstance(k.value, str) and isinstance(v, ast.Tuple) and len(v.elts) == 2
                and isinstance(v.elts[0], ast.Name) and isinstance(v.elts[1], ast.Attribute)
                and ast.unparse(v.elts[1].value) == "hashes"):
            raise Unrecognised("hash_algorithms entry: " + ast.unparse(k) + ": " + ast.unparse(v))
        table[k.value] = (v.elts[0].id, v.elts[1].attr)          # dict literal: the last duplicate key wins
    src = ast.unparse(f)
    if "signer_info['digest_algorithm']['algorithm'].native" not in src or "if digest_algorithm not in hash_algorithms" not in src \
            or "return hash_algorithms[digest_algorithm]" not in src:
        raise Unrecognised("get_hash_algorithm: lookup shape changed")
    info["hash"] = sorted(table.items())

    # ---- get_certificate_der
    f = _fn(cls, "get_certificate_der")
    body = _strip_doc(f)
    sel = [s for s in body if isinstance(s, ast.If) and any(
        isinstance(x, ast.Assign) and ast.unparse(x.targets[0]) == "unverified_signer_infos_to_try" for x in ast.walk(s))]
    if len(sel) != 1:
        raise Unrecognised("get_certificate_der: signer selection `if` not found")
    sel = sel[0]
    info["minOp"], info["minConst"] = _sdk_test(sel.test, "min_sdk_version")

    def assigned(stmts):
        a = [s for s in stmts if isinstance(s, ast.Assign) and ast.unparse(s.targets[0]) == "unverified_signer_infos_to_try"]
        if len(a) != 1:
            raise Unrecognised("signer selection branch")
        return ast.unparse(a[0].value)
    t, e = assigned(sel.body), assigned(sel.orelse)
    if (t, e) == ("[signer_infos[0]]", "signer_infos"):
        info["thenFirstOnly"] = True
    elif (t, e) == ("signer_infos", "[signer_infos[0]]"):
        info["thenFirstOnly"] = False
    else:
        raise Unrecognised(f"signer selection branches: {t} / {e}")
    loops = [s for s in body if isinstance(s, ast.For)]
    if len(loops) != 1 or ast.unparse(loops[0].iter) != "unverified_signer_infos_to_try":
        raise Unrecognised("get_certificate_der: loop over the signer infos")
    tries = [s for s in loops[0].body if isinstance(s, ast.Try)]
    if len(tries) != 1 or len(tries[0].handlers) != 1 or "verify_signer_info_against_sig_file" not in ast.unparse(tries[0].body):
        raise Unrecognised("get_certificate_der: try around verify_signer_info_against_sig_file")
    info["outerCaught"] = _handler_names(tries[0].handlers[0])
    hb = tries[0].handlers[0].body
    if not (isinstance(hb[-1], ast.Return) and ast.unparse(hb[-1]) == "return None"):
        raise Unrecognised("get_certificate_der: the except clause no longer returns None")
    sfa = [s for s in body if isinstance(s, ast.Assign) and ast.unparse(s.targets[0]) == "sf_filename"]
    if len(sfa) != 1:
        raise Unrecognised("get_certificate_der: sf_filename")
    info["sfRuleDer"] = _sf_rule(ast.unparse(sfa[0].value), "filename")
    empties = [s for s in body if isinstance(s, ast.If) and ast.unparse(s.test) == "not signer_infos"]
    if len(empties) != 1 or ast.unparse(empties[0].body[-1]) != "return None" or body.index(empties[0]) > body.index(sel):
        raise Unrecognised("get_certificate_der: `if not signer_infos: return None` before the selection")

    # ---- verify_signer_info_against_sig_file
    f = _fn(cls, "verify_signer_info_against_sig_file")
    consts = {}
    for s in ast.walk(f):
        if isinstance(s, ast.Assign) and isinstance(s.value, ast.Constant) and isinstance(s.value.value, str) \
                and isinstance(s.targets[0], ast.Name):
            consts[s.targets[0].id] = s.value.value
    for k in ("content_type_oid", "message_digest_oid"):
        if k not in consts or not re.fullmatch(r"\d+(\.\d+)+", consts[k]):
            raise Unrecognised(f"verify_signer_info_against_sig_file: {k}")
    info["ctOid"], info["mdOid"] = consts["content_type_oid"], consts["message_digest_oid"]
    mx = [s for s in ast.walk(f) if isinstance(s, ast.If) and "max_sdk_version" in ast.unparse(s.test)]
    if len(mx) != 1:
        raise Unrecognised("verify_signer_info_against_sig_file: max_sdk_version test")
    info["maxOp"], info["maxConst"] = _sdk_test(mx[0].test, "max_sdk_version")
    tags = [s for s in ast.walk(f) if isinstance(s, ast.Assign) and ast.unparse(s.targets[0]) == "signed_attrs_dump"
            and isinstance(s.value, ast.BinOp)]
    if len(tags) != 1:
        raise Unrecognised("verify_signer_info_against_sig_file: re-tagging of the signed attributes")
    bo = tags[0].value
    if not (isinstance(bo.op, ast.Add) and isinstance(bo.left, ast.Constant) and isinstance(bo.left.value, bytes)
            and len(bo.left.value) == 1 and ast.unparse(bo.right) == "signed_attrs_dump[1:]"):
        raise Unrecognised("re-tagging expression: " + ast.unparse(bo))
    info["retag"] = bo.left.value[0]

    # ---- verify_signature
    f = _fn(cls, "verify_signature")
    tries = [s for s in ast.walk(f) if isinstance(s, ast.Try)]
    if len(tries) != 1 or len(tries[0].handlers) != 1:
        raise Unrecognised("verify_signature: one try with one handler expected")
    info["innerCaught"] = _handler_names(tries[0].handlers[0])
    if any(isinstance(x, (ast.Return, ast.Raise)) for h in tries[0].handlers for x in ast.walk(h)):
        raise Unrecognised("verify_signature: the handler is expected to fall through")
    kinds = []
    for s in ast.walk(tries[0]):
        if isinstance(s, ast.Call) and isinstance(s.func, ast.Name) and s.func.id == "isinstance" \
                and ast.unparse(s.args[0]) == "public_key":
            kinds.append(ast.unparse(s.args[1]))
    info["keyKinds"] = kinds

    # ---- get_signature_names / get_signatures
    for name in ("get_signature_names", "get_signatures"):
        f = _fn(cls, name)
        rx = [s for s in ast.walk(f) if isinstance(s, ast.Call) and ast.unparse(s.func) == "re.compile"]
        if len(rx) != 1 or not (isinstance(rx[0].args[0], ast.Constant) and isinstance(rx[0].args[0].value, str)):
            raise Unrecognised(f"{name}: re.compile of a literal")
        info["rx_" + name] = rx[0].args[0].value
        if ".search(" not in ast.unparse(f):
            raise Unrecognised(f"{name}: the expression is no longer applied with .search")
    m = re.fullmatch(r"\\A(META-INF/)\(\?s:\.\)\*\\\.\(([A-Z|]+)\)\\Z", info["rx_get_signature_names"])
    if not m:
        raise Unrecognised("signature name expression: " + info["rx_get_signature_names"])
    info["sigPrefix"], info["sigExts"] = m.group(1), m.group(2).split("|")
    f = _fn(cls, "get_signature_names")
    tests = [s for s in ast.walk(f) if isinstance(s, ast.If) and ".SF" in ast.unparse(s.test)]
    if len(tests) != 1 or not (isinstance(tests[0].test, ast.Compare) and isinstance(tests[0].test.ops[0], ast.In)
                               and ast.unparse(tests[0].test.comparators[0]) == "self.get_files()"):
        raise Unrecognised("get_signature_names: `<sf name> in self.get_files()`")
    info["sfRuleNames"] = _sf_rule(ast.unparse(tests[0].test.left), "i")
    return info


def pins(repo):
    cls = _apk_class(repo)
    out = {}
    for n in MODELLED:
        f = _fn(cls, n)
        g = ast.FunctionDef(name=f.name, args=f.args, body=_strip_doc(f) or [ast.Pass()], decorator_list=[], lineno=0, col_offset=0)
        out[n] = hashlib.sha256(ast.dump(g, include_attributes=False).encode()).hexdigest()[:16]
    return out


def _s(x):
    return '"' + x.replace("\\", "\\\\").replace('"', '\\"') + '"'


def generate(repo):
    i = extract(repo)
    L = []
    L.append("-- GENERATED by gen/v1sig.py from androguard/core/apk/__init__.py (class APK). Do not edit.")
    L.append("namespace AgVerif.Gen.V1SigTables")
    L.append("")
    L.append("/-- get_hash_algorithm: digest name ↦ (hashlib function, cryptography `hashes` class) -/")
    L.append("def hashAlgorithms : List (String × String × String) := [")
    L.append(",\n".join(f"  ({_s(k)}, {_s(a)}, {_s(b)})" for k, (a, b) in i["hash"]))
    L.append("]")
    L.append("")
    L.append("/-- get_certificate_der: `min_sdk_version is None or int(min_sdk_version) <minOp> <minConst>` -/")
    L.append(f"def minOp : String := {_s(i['minOp'])}")
    L.append(f"def minConst : Int := {i['minConst']}")
    L.append("/-- true: the branch taken when the test holds tries `[signer_infos[0]]`, the other one all -/")
    L.append(f"def thenFirstOnly : Bool := {'true' if i['thenFirstOnly'] else 'false'}")
    L.append("/-- exception classes after which get_certificate_der returns None -/")
    L.append(f"def outerCaught : List String := [{', '.join(_s(x) for x in i['outerCaught'])}]")
    L.append("/-- exception classes swallowed around public_key.verify (verify_signature) -/")
    L.append(f"def innerCaught : List String := [{', '.join(_s(x) for x in i['innerCaught'])}]")
    L.append(f"def keyKinds : List String := [{', '.join(_s(x) for x in i['keyKinds'])}]")
    L.append("")
    L.append("/-- verify_signer_info_against_sig_file -/")
    L.append(f"def contentTypeOid : String := {_s(i['ctOid'])}")
    L.append(f"def messageDigestOid : String := {_s(i['mdOid'])}")
    L.append(f"def maxOp : String := {_s(i['maxOp'])}")
    L.append(f"def maxConst : Int := {i['maxConst']}")
    L.append(f"def retagByte : Nat := {i['retag']}")
    L.append("")
    L.append("/-- get_signature_names / get_signatures -/")
    L.append(f"def sigPrefix : String := {_s(i['sigPrefix'])}")
    L.append(f"def sigExts : List String := [{', '.join(_s(x) for x in i['sigExts'])}]")
    L.append(f"def sigRegex : String := {_s(i['rx_get_signature_names'])}")
    L.append(f"def sigRegexData : String := {_s(i['rx_get_signatures'])}")
    L.append("/-- how the .SF name is derived: \"rsplit\" (cut at the last dot) or \"splitext\" (os.path.splitext) -/")
    L.append(f"def sfRuleNames : String := {_s(i['sfRuleNames'])}")
    L.append(f"def sfRuleDer : String := {_s(i['sfRuleDer'])}")
    L.append("")
    L.append("end AgVerif.Gen.V1SigTables")
    return {"V1SigTables": "\n".join(L) + "\n"}


if __name__ == "__main__":
    import sys
    r = sys.argv[1] if len(sys.argv) > 1 else "/repo"
    print(generate(r)["V1SigTables"])
    print(pins(r))
