"""Self-test of the translator: translate gen/py2lean_selftest_src.py to Lean and attach, for every
test function and every argument tuple of a grid, the result CPython computes (any exception =
`none`) as an `example … := by decide`.  A difference between the translator's (or the prelude's)
reading of Python and CPython's on these programs breaks the build of AgVerif.Gen.PySelfTest, which
Proof/PyInt.lean imports -- and with it every `gen_*_eq` theorem (C03, C27, C30)."""
import io
import itertools
import os
import struct

from gen.py2lean import Func, translate, T_BYTES, T_STR, T_LIST

HERE = os.path.dirname(os.path.abspath(__file__))
SRC = "py2lean_selftest_src.py"
INTS = [-300, -129, -8, -3, -1, 0, 1, 2, 3, 5, 6, 7, 10, 27, 97, 255, 256, 70000]
SMALL = [-9, -2, -1, 0, 1, 2, 3, 7, 12]
BIG = [2 ** 63 - 1, 2 ** 63, -2 ** 63, -2 ** 63 - 1, 2 ** 70 + 5]
STREAMS = [[], [0], [1], [2, 9], [1, 2], [3, 4, 6], [3, 4, 5], [3, 4, 5, 6], [255, 255, 255, 255], [0, 0], [1, 1, 2, 200], [7, 44, 1]]
STRS = ["", "a", "ab", "xyz", "€\U0001F600!"]

SPECS = [
    (Func("t_robust"), [(a,) for a in range(-7, 40)]),
    (Func("t_arith"), list(itertools.product(SMALL, SMALL))),
    (Func("t_divlit"), [(a,) for a in INTS + BIG]),
    (Func("t_bits"), list(itertools.product(SMALL + [255, -256, 2 ** 40], SMALL + [2 ** 33 - 1]))),
    (Func("t_shift"), list(itertools.product(SMALL + [2 ** 40 + 1], [-1, 0, 1, 5, 33]))),
    (Func("t_cmp"), list(itertools.product([-1, 0, 1, 2], repeat=3))),
    (Func("t_elif"), [(a,) for a in INTS]),
    (Func("t_for"), [(a,) for a in range(-12, 20)]),
    (Func("t_while", fuels=["30"]), [(a,) for a in list(range(-4, 30)) + [97, 871]]),
    (Func("t_while_continue", fuels=["Int.toNat a + 1"]), [(a,) for a in range(-3, 15)]),
    (Func("t_for_while", fuels=["Int.toNat a + 1"]), [(a,) for a in range(-2, 9)]),
    (Func("t_minmax"), list(itertools.product(SMALL[::2], SMALL[1::2], SMALL[::3]))),
    (Func("t_bool"), list(itertools.product([-1, 0, 1], repeat=2))),
    (Func("t_shadow"), [(a,) for a in INTS]),
    (Func("t_unary"), [(a,) for a in INTS + BIG]),
    (Func("t_maxsize"), [(a,) for a in INTS + BIG]),
    (Func("t_mod_var"), list(itertools.product(SMALL + [100, -100], SMALL))),
    (Func("t_read", stream="buff"), [(s,) for s in STREAMS]),
    (Func("t_call", stream="buff"), [(s,) for s in STREAMS]),
    (Func("t_bytes", ret=T_BYTES), [(a,) for a in [-1, 0, 1, 55, 56, 100, 255, 256]]),
    (Func("t_str", ret=T_STR), [(a,) for a in [-1, 0, 1, 65, 0x20ac, 0x10FFFF, 0x110000]]),
    (Func("t_list", ret=T_LIST), list(itertools.product([-1, 0, 5], [0, 9]))),
    (Func("t_index", types={"s": T_STR}), list(itertools.product(STRS, [0, 3]))),
]


class _Packer:
    def __getitem__(self, k):
        return struct.Struct("<" + k)


class _CM:
    packer = _Packer()


def lean_int(v):
    return f"({v})" if v < 0 else str(v)


def lean_val(v):
    if isinstance(v, bool):
        raise TypeError("bool result")
    if isinstance(v, int):
        return lean_int(v)
    if isinstance(v, str):
        return "[" + ", ".join(str(ord(c)) for c in v) + "]"
    if isinstance(v, (bytes, bytearray, list)):
        return "[" + ", ".join(lean_int(int(x)) for x in v) + "]"
    raise TypeError(type(v).__name__)


def lean_arg(a):
    if isinstance(a, str):
        return "[" + ", ".join(str(ord(c)) for c in a) + "]"
    if isinstance(a, list):
        return "[" + ", ".join(str(x) for x in a) + "]"
    return lean_int(a)


def generate(repo):
    specs = [s for s, _ in SPECS]
    text = translate(HERE, SRC, "PySelfTest", specs)["PySelfTest"]
    ns = {}
    src = open(os.path.join(HERE, SRC), encoding="utf-8").read()
    exec(compile(src, SRC, "exec"), ns)
    out = ["", "/-! ### what CPython computes (`none` = an exception) -/"]
    n = 0
    for spec, grid in SPECS:
        fn = ns[spec.name]
        for args in grid:
            if spec.stream is not None:
                buf = io.BytesIO(bytes(args[0]))
                try:
                    r = fn(_CM(), buf)
                    exp = f"some ({lean_val(r)}, {lean_arg(list(buf.read()))})"
                except Exception:  # noqa
                    exp = "none"
            else:
                try:
                    first = fn.__code__.co_varnames[:1]
                    r = fn(_CM(), *args) if first == ("cm",) else fn(*args)
                    exp = f"some {lean_val(r)}"
                except Exception:  # noqa
                    exp = "none"
            out.append(f"example : {spec.lean_name} {' '.join(lean_arg(a) for a in args)} = {exp} := by decide")
            n += 1
    out.append(f"/-- number of (function, argument) pairs checked against CPython -/\ndef selfTestCases : Nat := {n}")
    end = "end AgVerif.Gen.PySelfTest"
    i = text.rindex(end)
    return {"PySelfTest": text[:i] + "\n".join(out) + "\n\n" + text[i:]}
