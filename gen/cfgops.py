"""Translator for C10 / C11 / C12 / C40 (control-flow graph model) -> lean/AgVerif/Gen/CfgOps.lean

Two techniques (DESIGN.md 3.1):

* reflection: `androguard.core.analysis.analysis.BasicOPCODES` as computed at import time from
  `dex.BRANCH_DEX_OPCODES` (regular expressions) x `dex.DALVIK_OPCODES_FORMAT` (mnemonics);
* AST extraction (source text of the tree under test, no import) of every opcode test the model
  depends on:
    - the four opcode cases of `dex.determineNext` (return/throw, goto, if, switch) and the payload
      alignment constant of its padding,
    - the special-instruction test of `DEXBasicBlock.push`,
    - the four opcode tests of `Analysis._create_xref` (class use, invoke, string, field),
    - the shape of `EncodedMethod.get_instructions_idx` (a pure generator; read strictly).
  Each test expression is translated to a Lean `Nat → Bool` definition.

What is read semantically rather than textually (behaviour-preserving rewrites keep the generated file):
  * the opcode local is whatever name holds `….get_op_value()`;
  * the cases may be an `if/elif` chain, consecutive `if`s whose bodies end in return/continue/raise, or a mix;
  * tests: and/or/not, chained comparisons, `in` over a tuple/list/set or `range(a, b)`; an inverted guard
    `if <not a switch>: return []` in front of the switch code; operands are constant integer
    expressions (literals, module-level integer constants, arithmetic on them, `ord('c')`);
  * the padding of the switch payload lookup: locals are substituted, one level of a private module-level
    straight-line helper is inlined, and the resulting expression — which must depend on the encoded offset
    only through `% K` — is compared with `0 if n % A == 0 else A - n % A` on three full periods, which
    proves equality for all integers (so `-n % 4` is accepted, `n % 4` or `4 - n % 4` are not).
Everything else (another number of cases, a case that returns something else, a payload lookup that is not
base + padding, a memoising get_instructions_idx, …) raises.

A shape that can no longer be read raises; fw records a broken obligation, not a crash.
"""
import ast
import importlib
import os
import sys

DEX = "androguard/core/dex/__init__.py"
ANA = "androguard/core/analysis/analysis.py"


class Unreadable(ValueError):
    pass


CONSTS = {}          # module-level integer constants of the file being read (name -> int)


def module_consts(tree):
    """NAME = <constant integer expression> at module level (later assignment wins, as at import time)"""
    out = {}
    for st in tree.body:
        if isinstance(st, ast.Assign) and len(st.targets) == 1 and isinstance(st.targets[0], ast.Name):
            try:
                out[st.targets[0].id] = _int(st.value, out)
            except Unreadable:
                out.pop(st.targets[0].id, None)
    return out


def _int(node, consts=None):
    """value of a constant integer expression: literals, module-level integer constants, unary minus,
    + - * // % << >> | & of such, `ord('c')`"""
    consts = CONSTS if consts is None else consts
    if isinstance(node, ast.Constant) and isinstance(node.value, int) and not isinstance(node.value, bool):
        return node.value
    if isinstance(node, ast.Name) and node.id in consts:
        return consts[node.id]
    if isinstance(node, ast.UnaryOp) and isinstance(node.op, ast.USub):
        return -_int(node.operand, consts)
    if isinstance(node, ast.Call) and isinstance(node.func, ast.Name) and node.func.id == "ord" and len(node.args) == 1 \
            and isinstance(node.args[0], ast.Constant) and isinstance(node.args[0].value, str) and len(node.args[0].value) == 1:
        return ord(node.args[0].value)
    if isinstance(node, ast.BinOp):
        a, b = _int(node.left, consts), _int(node.right, consts)
        ops = {ast.Add: lambda: a + b, ast.Sub: lambda: a - b, ast.Mult: lambda: a * b, ast.LShift: lambda: a << b,
               ast.RShift: lambda: a >> b, ast.BitOr: lambda: a | b, ast.BitAnd: lambda: a & b}
        if type(node.op) in ops:
            return ops[type(node.op)]()
        if isinstance(node.op, (ast.FloorDiv, ast.Mod)) and b != 0:
            return a // b if isinstance(node.op, ast.FloorDiv) else a % b
    raise Unreadable("expected a constant integer expression, got " + ast.dump(node)[:120])


def _atom(node, var):
    if isinstance(node, ast.Name) and node.id == var:
        return "op"
    v = _int(node)
    if v < 0:
        raise Unreadable("negative constant in an opcode test")
    return "0x%x" % v


def lean_test(node, var="op_value"):
    """Python boolean test over the local `var` -> Lean Bool expression over `op : Nat`.
    Accepted: and / or / not, chained comparisons (== != < <= > >=) of `var` with constant integer
    expressions, `var in (…)` / `[…]` / `{…}` of such (and `not in`)."""
    if isinstance(node, ast.BoolOp):
        j = " || " if isinstance(node.op, ast.Or) else " && "
        return "(" + j.join(lean_test(v, var) for v in node.values) + ")"
    if isinstance(node, ast.UnaryOp) and isinstance(node.op, ast.Not):
        inner = node.operand
        flip = {ast.In: ast.NotIn, ast.NotIn: ast.In, ast.Eq: ast.NotEq, ast.NotEq: ast.Eq}
        if isinstance(inner, ast.UnaryOp) and isinstance(inner.op, ast.Not):
            return lean_test(inner.operand, var)                      # not not t
        if isinstance(inner, ast.Compare) and len(inner.ops) == 1 and type(inner.ops[0]) in flip:
            return lean_test(ast.Compare(left=inner.left, ops=[flip[type(inner.ops[0])]()],
                                         comparators=inner.comparators), var)   # not (a not in S) = a in S
        return "(!%s)" % lean_test(inner, var)
    if isinstance(node, ast.Compare):
        parts = []
        left = node.left
        for op, right in zip(node.ops, node.comparators):
            if isinstance(op, (ast.In, ast.NotIn)):
                if isinstance(right, ast.Call) and isinstance(right.func, ast.Name) and right.func.id == "range" \
                        and not right.keywords and len(right.args) in (1, 2):
                    lo = "0x0" if len(right.args) == 1 else _atom(right.args[0], var)   # range(n) = range(0, n)
                    hi = _atom(right.args[-1], var)
                    e = "((Nat.ble %s %s) && (Nat.blt %s %s))" % (lo, _atom(left, var), _atom(left, var), hi)
                elif isinstance(right, (ast.Tuple, ast.List, ast.Set)):
                    elems = ", ".join(_atom(e, var) for e in right.elts)
                    e = "(List.elem %s [%s])" % (_atom(left, var), elems)
                else:
                    raise Unreadable("`in` over something that is not a literal collection or range(a, b)")
                parts.append(e if isinstance(op, ast.In) else "(!%s)" % e)
            else:
                a, b = _atom(left, var), _atom(right, var)
                if isinstance(op, ast.Eq):
                    parts.append("(%s == %s)" % (a, b))
                elif isinstance(op, ast.NotEq):
                    parts.append("(%s != %s)" % (a, b))
                elif isinstance(op, ast.LtE):
                    parts.append("(Nat.ble %s %s)" % (a, b))
                elif isinstance(op, ast.Lt):
                    parts.append("(Nat.blt %s %s)" % (a, b))
                elif isinstance(op, ast.GtE):
                    parts.append("(Nat.ble %s %s)" % (b, a))
                elif isinstance(op, ast.Gt):
                    parts.append("(Nat.blt %s %s)" % (b, a))
                else:
                    raise Unreadable("comparison operator " + type(op).__name__)
            left = right
        return parts[0] if len(parts) == 1 else "(" + " && ".join(parts) + ")"
    raise Unreadable("test expression " + ast.dump(node)[:200])


def find_def(tree, name, cls=None):
    body = tree.body
    if cls is not None:
        for n in body:
            if isinstance(n, ast.ClassDef) and n.name == cls:
                body = n.body
                break
        else:
            raise Unreadable("class %s not found" % cls)
    for n in body:
        if isinstance(n, ast.FunctionDef) and n.name == name:
            return n
    raise Unreadable("def %s not found" % name)


def op_var(stmts):
    """the local that holds `<something>.get_op_value()` (whatever it is called), looked up in `stmts`"""
    names = []
    for st in stmts:
        if isinstance(st, ast.Assign) and len(st.targets) == 1 and isinstance(st.targets[0], ast.Name) \
                and isinstance(st.value, ast.Call) and isinstance(st.value.func, ast.Attribute) \
                and st.value.func.attr == "get_op_value" and not st.value.args:
            names.append(st.targets[0].id)
    if len(set(names)) != 1:
        raise Unreadable("expected exactly one local holding get_op_value(), found %r" % names)
    return names[0]


def _mentions(node, var):
    return any(isinstance(x, ast.Name) and x.id == var for x in ast.walk(node))


def _leaves(body):
    """does control never fall out of the end of this statement list? (last statement returns/continues/raises)"""
    return bool(body) and isinstance(body[-1], (ast.Return, ast.Continue, ast.Raise))


def case_chain(stmts, var):
    """the ordered opcode cases [(test, body)] of a statement list: an `if / elif / elif …` chain, or the
    same written as consecutive `if`s whose bodies end in return / continue / raise (early exits), or a
    mixture; the two forms are equivalent because control cannot fall from such a body into the next test.
    Statements between the cases that do not mention `var` in a test are allowed only before the first case."""
    cases = []
    started = False
    for k, st in enumerate(stmts):
        if isinstance(st, ast.If) and _mentions(st.test, var):
            started = True
            cur = st
            while True:
                cases.append((cur.test, cur.body))
                if len(cur.orelse) == 1 and isinstance(cur.orelse[0], ast.If) and _mentions(cur.orelse[0].test, var):
                    cur = cur.orelse[0]
                    continue
                break
            if cur.orelse:
                return cases, cur.orelse              # a final else: the default
            if not all(_leaves(b) for _, b in cases):
                return cases, stmts[k + 1:]           # ordinary chain followed by other code
            continue                                  # early-exit form: the next `if` is the next case
        if started:
            return cases, stmts[k:]
    if not cases:
        raise Unreadable("no opcode case over `%s`" % var)
    return cases, []


def _returns_list_len(body):
    """length of the list literal returned by the last statement, or None"""
    last = body[-1]
    if isinstance(last, ast.Return) and isinstance(last.value, ast.List):
        return len(last.value.elts)
    return None


# ---- the switch payload padding, read as a function of the encoded byte offset ------------------------
def _flat_sum(node):
    """terms of a sum (a + b + c …), each as an ast.dump string, sorted"""
    if isinstance(node, ast.BinOp) and isinstance(node.op, ast.Add):
        return sorted(_flat_sum(node.left) + _flat_sum(node.right))
    return [ast.dump(node)]


class _Subst(ast.NodeTransformer):
    def __init__(self, env):
        self.env = env

    def visit_Name(self, node):
        if isinstance(node.ctx, ast.Load) and node.id in self.env:
            return self.env[node.id]
        return node


def _inline_call(call, helpers, depth=0):
    """a call to a module-level helper `f(args…)` whose body is `name = expr` lines and one final `return expr`
    (a docstring is skipped) is replaced by the returned expression with parameters and locals substituted"""
    fn = helpers[call.func.id]
    if call.keywords or len(call.args) != len(fn.args.args) or fn.args.vararg or fn.args.kwarg or fn.args.kwonlyargs:
        raise Unreadable("cannot inline the call of %s" % fn.name)
    env = {a.arg: arg for a, arg in zip(fn.args.args, call.args)}
    for st in fn.body:
        if isinstance(st, ast.Expr) and isinstance(st.value, ast.Constant) and isinstance(st.value.value, str):
            continue
        if isinstance(st, ast.Assign) and len(st.targets) == 1 and isinstance(st.targets[0], ast.Name):
            env[st.targets[0].id] = _resolve(st.value, env, helpers, depth + 1)
            continue
        if isinstance(st, ast.Return) and st is fn.body[-1] and st.value is not None:
            return _resolve(st.value, env, helpers, depth + 1)
        raise Unreadable("helper %s is not straight-line (assignments + return)" % fn.name)
    raise Unreadable("helper %s does not return" % fn.name)


def _resolve(expr, env, helpers, depth=0):
    """substitute single-assignment locals and inline (one level of) private module-level helpers"""
    import copy
    e = _Subst(env).visit(copy.deepcopy(expr))
    if depth <= 1:
        class In(ast.NodeTransformer):
            def visit_Call(self, node):
                self.generic_visit(node)
                if isinstance(node.func, ast.Name) and node.func.id in helpers:
                    return _inline_call(node, helpers, depth)
                return node
        e = In().visit(e)
    return e


def _eval_pad(node, n):
    """evaluate a padding expression at N = n; N may only occur below a `% K` (K a positive constant), so
    that the expression is periodic in N"""
    if isinstance(node, ast.Name) and node.id == "__N__":
        return n
    if isinstance(node, ast.IfExp):
        return _eval_pad(node.body, n) if _eval_pad(node.test, n) else _eval_pad(node.orelse, n)
    if isinstance(node, ast.UnaryOp) and isinstance(node.op, ast.USub):
        return -_eval_pad(node.operand, n)
    if isinstance(node, ast.UnaryOp) and isinstance(node.op, ast.Not):
        return not _eval_pad(node.operand, n)
    if isinstance(node, ast.BinOp) and isinstance(node.op, (ast.Add, ast.Sub, ast.Mult, ast.Mod)):
        a, b = _eval_pad(node.left, n), _eval_pad(node.right, n)
        return a + b if isinstance(node.op, ast.Add) else a - b if isinstance(node.op, ast.Sub) else \
            a * b if isinstance(node.op, ast.Mult) else a % b
    if isinstance(node, ast.Compare) and len(node.ops) == 1 and isinstance(node.ops[0], (ast.Eq, ast.NotEq)):
        a, b = _eval_pad(node.left, n), _eval_pad(node.comparators[0], n)
        return (a == b) if isinstance(node.ops[0], ast.Eq) else (a != b)
    return _int(node)


def _moduli(node, under_mod, out):
    """collect the constant moduli; raise if N occurs outside every `% K`"""
    if isinstance(node, ast.Name) and node.id == "__N__":
        if not under_mod:
            raise Unreadable("the padding depends on the offset itself, not only on its residue")
        return
    if isinstance(node, ast.BinOp) and isinstance(node.op, ast.Mod):
        k = _int(node.right)
        if k <= 0:
            raise Unreadable("modulus of the padding is not a positive constant")
        out.append(k)
        _moduli(node.left, True, out)
        return
    for ch in ast.iter_child_nodes(node):
        _moduli(ch, under_mod, out)


def padding_alignment(sw_body, helpers):
    """From the switch case of determineNext: the argument of `get_ins_off(…)` must be BASE + P where P (after
    substituting locals and inlining a private helper) is a function of BASE alone, built from constants,
    + - * % (positive constant modulus), unary minus, == / != and conditional expressions, with BASE only
    below a `%`.  Such a P is periodic in BASE (a polynomial with integer coefficients keeps its residue
    mod K when BASE grows by K), so comparing it with the model's `0 if n % A == 0 else A - n % A` on three
    full periods proves them equal for every integer.  Returns A."""
    import math
    env = {}
    arg = None
    for st in sw_body:
        for x in ast.walk(st):
            if isinstance(x, ast.Call) and isinstance(x.func, ast.Attribute) and x.func.attr == "get_ins_off":
                if arg is not None or len(x.args) != 1:
                    raise Unreadable("more than one payload lookup in the switch case")
                arg = x.args[0]
        if isinstance(st, ast.Assign) and len(st.targets) == 1 and isinstance(st.targets[0], ast.Name) and arg is None:
            name = st.targets[0].id
            if name in env and ast.dump(env[name]) != ast.dump(_resolve(st.value, {k: v for k, v in env.items() if k != name}, helpers)):
                raise Unreadable("local %s of the switch case is assigned twice with different values" % name)
            env[name] = _resolve(st.value, env, helpers)
    if arg is None:
        raise Unreadable("the switch case of determineNext no longer looks the payload up")
    # split the lookup offset into its terms BEFORE substituting, to find the padding term
    def terms(node):
        if isinstance(node, ast.BinOp) and isinstance(node.op, ast.Add):
            return terms(node.left) + terms(node.right)
        return [node]
    ts = [_resolve(t, env, helpers) for t in terms(arg)]
    ts = [u for t in ts for u in terms(t)] if False else ts
    pads = [t for t in ts if any(isinstance(x, ast.BinOp) and isinstance(x.op, ast.Mod) for x in ast.walk(t))]
    if len(pads) != 1:
        raise Unreadable("cannot find the padding term in the payload lookup offset")
    pad = pads[0]
    base = sorted(d for t in ts if t is not pad for d in _flat_sum(t))
    if not base:
        raise Unreadable("payload lookup offset has no base")
    # every maximal sum inside the padding that equals BASE becomes the symbol N

    class ToN(ast.NodeTransformer):
        def visit(self, node):
            if isinstance(node, ast.expr) and _flat_sum(node) == base:
                return ast.Name(id="__N__", ctx=ast.Load())
            return self.generic_visit(node)
    padn = ToN().visit(pad)
    for x in ast.walk(padn):
        if isinstance(x, (ast.Call, ast.Attribute, ast.Subscript)) or (isinstance(x, ast.Name) and x.id != "__N__" and x.id not in CONSTS):
            raise Unreadable("the padding is not a function of the encoded payload offset alone")
    ks = []
    _moduli(padn, False, ks)
    if not ks:
        raise Unreadable("payload alignment (a `% K`) not found in determineNext")
    period = 1
    for k in ks:
        period = period * k // math.gcd(period, k)
    for align in sorted(set(ks + [period])):
        if all(_eval_pad(padn, n) == (0 if n % align == 0 else align - n % align) for n in range(-period, 2 * period)):
            return align
    raise Unreadable("the padding is not `distance to the next multiple of K`")


def private_helpers(tree):
    return {n.name: n for n in tree.body if isinstance(n, ast.FunctionDef) and n.name.startswith("_")}


def extract_next(repo):
    tree = ast.parse(open(os.path.join(repo, DEX)).read())
    CONSTS.clear()
    CONSTS.update(module_consts(tree))
    fn = find_def(tree, "determineNext")
    var = op_var(fn.body)
    chain, rest = case_chain(fn.body, var)
    if len(chain) != 4:
        raise Unreadable("determineNext has %d opcode cases (model knows 4)" % len(chain))
    (t_exit, b_exit), (t_goto, b_goto), (t_if, b_if), (t_sw, b_sw) = chain
    if len(b_sw) == 1 and isinstance(b_sw[0], ast.Return) and isinstance(b_sw[0].value, ast.List) \
            and not b_sw[0].value.elts and rest and isinstance(rest[-1], ast.Return):
        # inverted guard `if <not a switch>: return []` followed by the switch code:
        # the same as `if not <not a switch>: <switch code>` with the default `return []`
        t_sw, b_sw, rest = ast.UnaryOp(op=ast.Not(), operand=t_sw), rest, []
    if not (len(rest) <= 1 and all(isinstance(st, ast.Return) and isinstance(st.value, ast.List) and not st.value.elts
                                   for st in rest)):
        raise Unreadable("determineNext's default is no longer `return []`")
    # recognise each case by what its body returns, so that a re-ordering is noticed
    r = b_exit[-1]
    if not (_returns_list_len(b_exit) == 1 and _int_or_none(r.value.elts[0]) == -1):
        raise Unreadable("first case of determineNext no longer returns [-1]")
    if _returns_list_len(b_goto) != 1:
        raise Unreadable("second case of determineNext no longer returns one target")
    if _returns_list_len(b_if) != 2:
        raise Unreadable("third case of determineNext no longer returns two targets")
    if not isinstance(b_sw[-1], ast.Return):
        raise Unreadable("fourth case of determineNext no longer returns")
    align = padding_alignment(b_sw, private_helpers(tree))
    return {"isExit": lean_test(t_exit, var), "isGoto": lean_test(t_goto, var), "isIf": lean_test(t_if, var),
            "isSwitch": lean_test(t_sw, var)}, align


def _int_or_none(node):
    try:
        return _int(node)
    except Unreadable:
        return None


def extract_push(repo):
    tree = ast.parse(open(os.path.join(repo, ANA)).read())
    CONSTS.clear()
    CONSTS.update(module_consts(tree))
    fn = find_def(tree, "push", "DEXBasicBlock")
    var = op_var(fn.body)
    chain, _ = case_chain(fn.body, var)
    if len(chain) != 1:
        raise Unreadable("DEXBasicBlock.push has %d opcode cases (model knows 1)" % len(chain))
    if not any(isinstance(x, ast.Attribute) and x.attr == "get_ins_off" for st in chain[0][1] for x in ast.walk(st)):
        raise Unreadable("DEXBasicBlock.push no longer links the payload in its opcode case")
    return lean_test(chain[0][0], var)


def extract_xref(repo):
    tree = ast.parse(open(os.path.join(repo, ANA)).read())
    CONSTS.clear()
    CONSTS.update(module_consts(tree))
    fn = find_def(tree, "_create_xref", "Analysis")
    loop = None
    for node in ast.walk(fn):
        if isinstance(node, ast.For) and isinstance(node.iter, ast.Call) and \
                isinstance(node.iter.func, ast.Attribute) and node.iter.func.attr == "get_instructions_idx":
            loop = node
    if loop is None:
        raise Unreadable("_create_xref no longer walks get_instructions_idx()")
    var = op_var(loop.body)
    chain, rest = case_chain(loop.body, var)
    if len(chain) != 4 or rest:
        raise Unreadable("_create_xref has %d opcode cases (model knows 4) / trailing code" % len(chain))
    names = ["isXrefClass", "isXrefMethod", "isXrefString", "isXrefField"]
    return {n: lean_test(t, var) for n, (t, _) in zip(names, chain)}


def extract_idx_pure(repo):
    """EncodedMethod.get_instructions_idx must be a pure generator over the CURRENT instruction list:
    no attribute of `self` (or of anything else) is stored, nothing is memoised; it walks
    `self.get_code().get_bc().get_instructions()`, yields `(idx, ins)` and advances idx by
    `ins.get_length()`.  Any other shape raises (the model's `withOff` is then not what the code does)."""
    tree = ast.parse(open(os.path.join(repo, DEX)).read())
    fn = find_def(tree, "get_instructions_idx", "EncodedMethod")
    for x in ast.walk(fn):
        if isinstance(x, (ast.Attribute, ast.Subscript)) and isinstance(x.ctx, (ast.Store, ast.Del)):
            raise Unreadable("get_instructions_idx stores into an attribute/subscript (memoisation?)")
        if isinstance(x, ast.Call) and isinstance(x.func, ast.Name) and x.func.id in ("setattr", "delattr"):
            raise Unreadable("get_instructions_idx calls setattr")
        if isinstance(x, (ast.Global, ast.Nonlocal, ast.YieldFrom)):
            raise Unreadable("get_instructions_idx uses global/nonlocal/yield from")
    loops = [x for x in ast.walk(fn) if isinstance(x, ast.For)]
    if len(loops) != 1:
        raise Unreadable("get_instructions_idx has %d loops (model knows 1)" % len(loops))
    loop = loops[0]
    it = loop.iter
    chain = []
    while isinstance(it, ast.Call) and isinstance(it.func, ast.Attribute):
        chain.append(it.func.attr)
        it = it.func.value
    if chain != ["get_instructions", "get_bc", "get_code"] or not (isinstance(it, ast.Name) and it.id == "self"):
        raise Unreadable("get_instructions_idx no longer iterates self.get_code().get_bc().get_instructions()")
    if not (isinstance(loop.target, ast.Name) and len(loop.body) == 2):
        raise Unreadable("loop body of get_instructions_idx changed")
    y, inc = loop.body
    ins = loop.target.id
    ok_y = (isinstance(y, ast.Expr) and isinstance(y.value, ast.Yield) and isinstance(y.value.value, ast.Tuple)
            and len(y.value.value.elts) == 2 and all(isinstance(e, ast.Name) for e in y.value.value.elts)
            and y.value.value.elts[1].id == ins)
    if not ok_y:
        raise Unreadable("get_instructions_idx no longer yields (idx, ins)")
    idx = y.value.value.elts[0].id
    ok_inc = (isinstance(inc, ast.AugAssign) and isinstance(inc.op, ast.Add) and isinstance(inc.target, ast.Name)
              and inc.target.id == idx and isinstance(inc.value, ast.Call) and isinstance(inc.value.func, ast.Attribute)
              and inc.value.func.attr == "get_length" and isinstance(inc.value.func.value, ast.Name)
              and inc.value.func.value.id == ins)
    if not ok_inc:
        raise Unreadable("get_instructions_idx no longer advances idx by ins.get_length()")
    init = [st for st in fn.body if isinstance(st, ast.Assign) and len(st.targets) == 1
            and isinstance(st.targets[0], ast.Name) and st.targets[0].id == idx]
    if len(init) != 1 or _int(init[0].value) != 0:
        raise Unreadable("get_instructions_idx no longer starts at offset 0")
    return True


def reflect_basic(repo):
    if repo not in sys.path:
        sys.path.insert(0, repo)
    mod = importlib.import_module("androguard.core.analysis.analysis")
    src = os.path.realpath(mod.__file__)
    if not src.startswith(os.path.realpath(repo) + os.sep):
        raise Unreadable("androguard was imported from %s, not from %s" % (src, repo))
    ops = sorted(mod.BasicOPCODES)
    if not all(isinstance(o, int) and o >= 0 for o in ops):
        raise Unreadable("BasicOPCODES contains a non-integer")
    return ops


def generate(repo):
    nxt, align = extract_next(repo)
    push = extract_push(repo)
    xref = extract_xref(repo)
    ops = reflect_basic(repo)
    extract_idx_pure(repo)
    L = ["/- GENERATED by gen/cfgops.py from %s and %s. Do not edit. -/" % (DEX, ANA),
         "namespace AgVerif.Gen.CfgOps", "",
         "/-- `analysis.BasicOPCODES` as computed at import time (sorted) -/",
         "def basicOps : List Nat := [%s]" % ", ".join("0x%02x" % o for o in ops), ""]
    doc = {"isExit": "determineNext, case 1: `return [-1]`", "isGoto": "determineNext, case 2: goto",
           "isIf": "determineNext, case 3: if", "isSwitch": "determineNext, case 4: packed/sparse switch"}
    for k in ("isExit", "isGoto", "isIf", "isSwitch"):
        L += ["/-- %s -/" % doc[k], "def %s (op : Nat) : Bool := %s" % (k, nxt[k]), ""]
    L += ["/-- determineNext: `(off + cur_idx) %% %d` -/" % align, "def payloadAlign : Nat := %d" % align, "",
          "/-- DEXBasicBlock.push: instructions that get a `special_ins` entry -/",
          "def isSpecial (op : Nat) : Bool := %s" % push, ""]
    for k, v in xref.items():
        L += ["/-- Analysis._create_xref opcode test -/", "def %s (op : Nat) : Bool := %s" % (k, v), ""]
    L += ["/-- EncodedMethod.get_instructions_idx was read (AST) as a pure generator: it stores nothing, walks",
          "    self.get_code().get_bc().get_instructions(), yields (idx, ins), idx starts at 0 and grows by",
          "    ins.get_length() — i.e. `AgVerif.Cfg.withOff 0` of the current instruction list -/",
          "def idxPairsPure : Bool := true", ""]
    L += ["end AgVerif.Gen.CfgOps", ""]
    return {"CfgOps": "\n".join(L)}


if __name__ == "__main__":
    print(generate(sys.argv[1] if len(sys.argv) > 1 else "/repo")["CfgOps"])
