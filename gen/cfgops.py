"""Translator for C10 / C11 / C12 / C40 (control-flow graph model) -> lean/AgVerif/Gen/CfgOps.lean

Two techniques (DESIGN.md 3.1):

* reflection: `androguard.core.analysis.analysis.BasicOPCODES` as computed at import time from
  `dex.BRANCH_DEX_OPCODES` (regular expressions) x `dex.DALVIK_OPCODES_FORMAT` (mnemonics);
* AST extraction (source text of the tree under test, no import) of every opcode test the model
  depends on:
    - the `if / elif` chain of `dex.determineNext` (return/throw, goto, if, switch) and the payload
      alignment constant of its `% 4`,
    - the special-instruction test of `DEXBasicBlock.push`,
    - the four opcode tests of `Analysis._create_xref` (class use, invoke, string, field).
  Each test expression (comparisons of `op_value` with integer literals joined by and/or, chained
  comparisons, `in (…)`) is translated to a Lean `Nat → Bool` definition.

A shape that can no longer be read raises; fw records a broken obligation, not a crash.
"""
import ast
import importlib
import os
import sys

DEX = "androguard/core/dex/__init__.py"
ANA = "androguard/core/analysis/analysis.py"


class Unreadable(ValueError):
    pass


def _int(node):
    if isinstance(node, ast.Constant) and isinstance(node.value, int) and not isinstance(node.value, bool):
        return node.value
    raise Unreadable("expected an integer literal, got " + ast.dump(node))


def _atom(node, var):
    if isinstance(node, ast.Name) and node.id == var:
        return "op"
    return "0x%x" % _int(node)


def lean_test(node, var="op_value"):
    """Python boolean test over `var` -> Lean Bool expression over `op : Nat`"""
    if isinstance(node, ast.BoolOp):
        j = " || " if isinstance(node.op, ast.Or) else " && "
        return "(" + j.join(lean_test(v, var) for v in node.values) + ")"
    if isinstance(node, ast.Compare):
        parts = []
        left = node.left
        for op, right in zip(node.ops, node.comparators):
            if isinstance(op, (ast.In, ast.NotIn)):
                if not isinstance(right, (ast.Tuple, ast.List, ast.Set)):
                    raise Unreadable("`in` over something that is not a literal collection")
                elems = ", ".join("0x%x" % _int(e) for e in right.elts)
                e = "(List.elem %s [%s])" % (_atom(left, var), elems)
                parts.append(e if isinstance(op, ast.In) else "(!%s)" % e)
            else:
                a, b = _atom(left, var), _atom(right, var)
                if isinstance(op, ast.Eq):
                    parts.append("(%s == %s)" % (a, b))
                elif isinstance(op, ast.NotEq):
                    parts.append("(%s != %s)" % (a, b))
                elif isinstance(op, ast.LtE):
                    parts.append("(Nat.ble %s %s)" % (a, b))
                elif isinstance(op, ast.Lt):
                    parts.append("(Nat.blt %s %s)" % (a, b))
                elif isinstance(op, ast.GtE):
                    parts.append("(Nat.ble %s %s)" % (b, a))
                elif isinstance(op, ast.Gt):
                    parts.append("(Nat.blt %s %s)" % (b, a))
                else:
                    raise Unreadable("comparison operator " + type(op).__name__)
            left = right
        return parts[0] if len(parts) == 1 else "(" + " && ".join(parts) + ")"
    raise Unreadable("test expression " + ast.dump(node)[:200])


def find_def(tree, name, cls=None):
    body = tree.body
    if cls is not None:
        for n in body:
            if isinstance(n, ast.ClassDef) and n.name == cls:
                body = n.body
                break
        else:
            raise Unreadable("class %s not found" % cls)
    for n in body:
        if isinstance(n, ast.FunctionDef) and n.name == name:
            return n
    raise Unreadable("def %s not found" % name)


def if_chain(fn, var="op_value"):
    """[(test, body)] of the first `if` statement of `fn` whose test mentions `var`, following elif"""
    for st in fn.body:
        if isinstance(st, ast.If) and any(isinstance(x, ast.Name) and x.id == var for x in ast.walk(st.test)):
            out = []
            cur = st
            while True:
                out.append((cur.test, cur.body))
                if len(cur.orelse) == 1 and isinstance(cur.orelse[0], ast.If):
                    cur = cur.orelse[0]
                else:
                    break
            return out
    raise Unreadable("no if-chain over %s in %s" % (var, fn.name))


def _returns_list_len(body):
    """length of the list literal returned by the last statement, or None"""
    last = body[-1]
    if isinstance(last, ast.Return) and isinstance(last.value, ast.List):
        return len(last.value.elts)
    return None


def extract_next(repo):
    tree = ast.parse(open(os.path.join(repo, DEX)).read())
    fn = find_def(tree, "determineNext")
    chain = if_chain(fn)
    if len(chain) != 4:
        raise Unreadable("determineNext has %d opcode cases (model knows 4)" % len(chain))
    (t_exit, b_exit), (t_goto, b_goto), (t_if, b_if), (t_sw, b_sw) = chain
    # recognise each case by what its body returns, so that a re-ordering is noticed
    r = b_exit[-1]
    if not (_returns_list_len(b_exit) == 1 and isinstance(r.value.elts[0], ast.UnaryOp)
            and isinstance(r.value.elts[0].op, ast.USub) and _int(r.value.elts[0].operand) == 1):
        raise Unreadable("first case of determineNext no longer returns [-1]")
    if _returns_list_len(b_goto) != 1:
        raise Unreadable("second case of determineNext no longer returns one target")
    if _returns_list_len(b_if) != 2:
        raise Unreadable("third case of determineNext no longer returns two targets")
    if not any(isinstance(x, ast.Attribute) and x.attr == "get_ins_off" for st in b_sw for x in ast.walk(st)):
        raise Unreadable("fourth case of determineNext no longer looks the payload up")
    align = None
    for st in b_sw:
        for x in ast.walk(st):
            if isinstance(x, ast.BinOp) and isinstance(x.op, ast.Mod):
                align = _int(x.right)
    if align is None:
        raise Unreadable("payload alignment (% 4) not found in determineNext")
    subs = [_int(x.left) for st in b_sw for x in ast.walk(st)
            if isinstance(x, ast.BinOp) and isinstance(x.op, ast.Sub) and isinstance(x.left, ast.Constant)]
    if subs != [align]:
        raise Unreadable("padding is no longer `%d - remaining`" % align)
    return {"isExit": lean_test(t_exit), "isGoto": lean_test(t_goto), "isIf": lean_test(t_if),
            "isSwitch": lean_test(t_sw)}, align


def extract_push(repo):
    tree = ast.parse(open(os.path.join(repo, ANA)).read())
    fn = find_def(tree, "push", "DEXBasicBlock")
    chain = if_chain(fn)
    if len(chain) != 1:
        raise Unreadable("DEXBasicBlock.push has %d opcode cases (model knows 1)" % len(chain))
    return lean_test(chain[0][0])


def extract_xref(repo):
    tree = ast.parse(open(os.path.join(repo, ANA)).read())
    fn = find_def(tree, "_create_xref", "Analysis")
    chain = None
    for node in ast.walk(fn):
        if isinstance(node, ast.For) and isinstance(node.iter, ast.Call) and \
                isinstance(node.iter.func, ast.Attribute) and node.iter.func.attr == "get_instructions_idx":
            chain = if_chain(node)
    if chain is None:
        raise Unreadable("_create_xref no longer walks get_instructions_idx()")
    if len(chain) != 4:
        raise Unreadable("_create_xref has %d opcode cases (model knows 4)" % len(chain))
    names = ["isXrefClass", "isXrefMethod", "isXrefString", "isXrefField"]
    return {n: lean_test(t) for n, (t, _) in zip(names, chain)}


def extract_idx_pure(repo):
    """EncodedMethod.get_instructions_idx must be a pure generator over the CURRENT instruction list:
    no attribute of `self` (or of anything else) is stored, nothing is memoised; it walks
    `self.get_code().get_bc().get_instructions()`, yields `(idx, ins)` and advances idx by
    `ins.get_length()`.  Any other shape raises (the model's `withOff` is then not what the code does)."""
    tree = ast.parse(open(os.path.join(repo, DEX)).read())
    fn = find_def(tree, "get_instructions_idx", "EncodedMethod")
    for x in ast.walk(fn):
        if isinstance(x, (ast.Attribute, ast.Subscript)) and isinstance(x.ctx, (ast.Store, ast.Del)):
            raise Unreadable("get_instructions_idx stores into an attribute/subscript (memoisation?)")
        if isinstance(x, ast.Call) and isinstance(x.func, ast.Name) and x.func.id in ("setattr", "delattr"):
            raise Unreadable("get_instructions_idx calls setattr")
        if isinstance(x, (ast.Global, ast.Nonlocal, ast.YieldFrom)):
            raise Unreadable("get_instructions_idx uses global/nonlocal/yield from")
    loops = [x for x in ast.walk(fn) if isinstance(x, ast.For)]
    if len(loops) != 1:
        raise Unreadable("get_instructions_idx has %d loops (model knows 1)" % len(loops))
    loop = loops[0]
    it = loop.iter
    chain = []
    while isinstance(it, ast.Call) and isinstance(it.func, ast.Attribute):
        chain.append(it.func.attr)
        it = it.func.value
    if chain != ["get_instructions", "get_bc", "get_code"] or not (isinstance(it, ast.Name) and it.id == "self"):
        raise Unreadable("get_instructions_idx no longer iterates self.get_code().get_bc().get_instructions()")
    if not (isinstance(loop.target, ast.Name) and len(loop.body) == 2):
        raise Unreadable("loop body of get_instructions_idx changed")
    y, inc = loop.body
    ins = loop.target.id
    ok_y = (isinstance(y, ast.Expr) and isinstance(y.value, ast.Yield) and isinstance(y.value.value, ast.Tuple)
            and len(y.value.value.elts) == 2 and all(isinstance(e, ast.Name) for e in y.value.value.elts)
            and y.value.value.elts[1].id == ins)
    if not ok_y:
        raise Unreadable("get_instructions_idx no longer yields (idx, ins)")
    idx = y.value.value.elts[0].id
    ok_inc = (isinstance(inc, ast.AugAssign) and isinstance(inc.op, ast.Add) and isinstance(inc.target, ast.Name)
              and inc.target.id == idx and isinstance(inc.value, ast.Call) and isinstance(inc.value.func, ast.Attribute)
              and inc.value.func.attr == "get_length" and isinstance(inc.value.func.value, ast.Name)
              and inc.value.func.value.id == ins)
    if not ok_inc:
        raise Unreadable("get_instructions_idx no longer advances idx by ins.get_length()")
    init = [st for st in fn.body if isinstance(st, ast.Assign) and len(st.targets) == 1
            and isinstance(st.targets[0], ast.Name) and st.targets[0].id == idx]
    if len(init) != 1 or _int(init[0].value) != 0:
        raise Unreadable("get_instructions_idx no longer starts at offset 0")
    return True


def reflect_basic(repo):
    if repo not in sys.path:
        sys.path.insert(0, repo)
    mod = importlib.import_module("androguard.core.analysis.analysis")
    src = os.path.realpath(mod.__file__)
    if not src.startswith(os.path.realpath(repo) + os.sep):
        raise Unreadable("androguard was imported from %s, not from %s" % (src, repo))
    ops = sorted(mod.BasicOPCODES)
    if not all(isinstance(o, int) and o >= 0 for o in ops):
        raise Unreadable("BasicOPCODES contains a non-integer")
    return ops


def generate(repo):
    nxt, align = extract_next(repo)
    push = extract_push(repo)
    xref = extract_xref(repo)
    ops = reflect_basic(repo)
    extract_idx_pure(repo)
    L = ["/- GENERATED by gen/cfgops.py from %s and %s. Do not edit. -/" % (DEX, ANA),
         "namespace AgVerif.Gen.CfgOps", "",
         "/-- `analysis.BasicOPCODES` as computed at import time (sorted) -/",
         "def basicOps : List Nat := [%s]" % ", ".join("0x%02x" % o for o in ops), ""]
    doc = {"isExit": "determineNext, case 1: `return [-1]`", "isGoto": "determineNext, case 2: goto",
           "isIf": "determineNext, case 3: if", "isSwitch": "determineNext, case 4: packed/sparse switch"}
    for k in ("isExit", "isGoto", "isIf", "isSwitch"):
        L += ["/-- %s -/" % doc[k], "def %s (op : Nat) : Bool := %s" % (k, nxt[k]), ""]
    L += ["/-- determineNext: `(off + cur_idx) %% %d` -/" % align, "def payloadAlign : Nat := %d" % align, "",
          "/-- DEXBasicBlock.push: instructions that get a `special_ins` entry -/",
          "def isSpecial (op : Nat) : Bool := %s" % push, ""]
    for k, v in xref.items():
        L += ["/-- Analysis._create_xref opcode test -/", "def %s (op : Nat) : Bool := %s" % (k, v), ""]
    L += ["/-- EncodedMethod.get_instructions_idx was read (AST) as a pure generator: it stores nothing, walks",
          "    self.get_code().get_bc().get_instructions(), yields (idx, ins), idx starts at 0 and grows by",
          "    ins.get_length() — i.e. `AgVerif.Cfg.withOff 0` of the current instruction list -/",
          "def idxPairsPure : Bool := true", ""]
    L += ["end AgVerif.Gen.CfgOps", ""]
    return {"CfgOps": "\n".join(L)}


if __name__ == "__main__":
    print(generate(sys.argv[1] if len(sys.argv) > 1 else "/repo")["CfgOps"])
