"""Translator for C21: the per-instruction translation of the DAD decompiler, obtained by REFLECTION.

For every opcode of the int/long subset the real translation function `INSTRUCTION_SET[opcode]`
(androguard/decompiler/opcode_ins.py) is called on a real, decoded instruction object (built from bytes with
androguard's own Instruction classes) with distinct register numbers and, for literal-carrying opcodes, with EVERY
literal of the 4- and 8-bit encodings and a boundary + pseudo-random sample of the 16/32/64-bit ones.  What it builds
(expression class, operator text, operand order, operand kinds, recorded types, cast text, constant value as a
function of the literal) is serialised into one row per opcode and literal sign class, together with the `Op` table
and the Java text the real `Writer` prints for the expression.

    -> lean/AgVerif/Gen/Translate.lean :  AgVerif.Gen.Translate.rows / opTable

The constant operand must be `lit` or `-lit` uniformly over a sign class, otherwise generation fails (a broken
obligation): the theorems quantify over all literals of the class.
"""
import importlib
import os
import random
import re
import struct
import sys

SCOPE = ([0x12, 0x13, 0x14, 0x15, 0x16, 0x17, 0x18, 0x19, 0x31] + list(range(0x32, 0x3E)) + [0x7B, 0x7C, 0x7D, 0x7E]
         + [0x81, 0x84, 0x8D, 0x8E, 0x8F] + list(range(0x90, 0xA6)) + list(range(0xB0, 0xC6)) + list(range(0xD0, 0xE3)))

A, B, C = 1, 2, 3


def lean_str(s: str) -> str:
    return '"' + s.replace("\\", "\\\\").replace('"', '\\"') + '"'


def _load(repo):
    # reflection needs the modules of THIS repo: drop cached androguard modules loaded from elsewhere
    want = os.path.realpath(os.path.join(repo, "androguard"))
    loaded = sys.modules.get("androguard")
    if loaded is not None and os.path.realpath(os.path.dirname(loaded.__file__)) != want:
        for k in [k for k in sys.modules if k == "androguard" or k.startswith("androguard.")]:
            del sys.modules[k]
    if repo not in sys.path:
        sys.path.insert(0, repo)
    dex = importlib.import_module("androguard.core.dex")
    oi = importlib.import_module("androguard.decompiler.opcode_ins")
    ir = importlib.import_module("androguard.decompiler.instruction")
    wr = importlib.import_module("androguard.decompiler.writer")
    if os.path.realpath(os.path.dirname(os.path.dirname(os.path.dirname(oi.__file__)))) != os.path.realpath(repo):
        raise ValueError("androguard was imported from %s, not from %s" % (oi.__file__, repo))
    return dex, oi, ir, wr


def encode(fmt_cls: str, op: int, lit: int) -> bytes:
    """bytes of the instruction with registers A/B/C = 1/2/3 and the given literal (format by class name)"""
    u = lambda *units: struct.pack("<%dH" % len(units), *[x & 0xFFFF for x in units])
    if fmt_cls == "Instruction12x":
        return u(op | (A << 8) | (B << 12))
    if fmt_cls == "Instruction11n":
        return u(op | (A << 8) | ((lit & 0xF) << 12))
    if fmt_cls in ("Instruction21s", "Instruction21h", "Instruction21t"):
        return u(op | (A << 8), lit)
    if fmt_cls == "Instruction31i":
        return u(op | (A << 8), lit, lit >> 16)
    if fmt_cls == "Instruction51l":
        return u(op | (A << 8), lit, lit >> 16, lit >> 32, lit >> 48)
    if fmt_cls == "Instruction23x":
        return u(op | (A << 8), B | (C << 8))
    if fmt_cls == "Instruction22b":
        return u(op | (A << 8), B | ((lit & 0xFF) << 8))
    if fmt_cls in ("Instruction22s", "Instruction22t"):
        return u(op | (A << 8) | (B << 12), lit)
    raise ValueError("format %s is not handled by gen/translate.py" % fmt_cls)


def literals(fmt_cls, op, rng):
    """(raw literal to encode, decoded literal the Dalvik specification assigns to it)"""
    if fmt_cls == "Instruction11n":
        return [(v, v) for v in range(-8, 8)]
    if fmt_cls == "Instruction22b":
        return [(v, v) for v in range(-128, 128)]
    if fmt_cls in ("Instruction21s", "Instruction22s", "Instruction21h"):
        vs = set(range(-300, 301)) | {32767, -32768, 32766, -32767, 256, -256, 4096, -4096, 0x5555, -0x5556}
        for _ in range(1500):
            vs.add(rng.randrange(-32768, 32768))
        sh = 0 if fmt_cls != "Instruction21h" else (16 if op == 0x15 else 48)
        return [(v, v << sh) for v in sorted(vs)]
    if fmt_cls in ("Instruction31i", "Instruction51l"):
        bits = 32 if fmt_cls == "Instruction31i" else 64
        vs = {0, 1, -1, 2 ** (bits - 1) - 1, -2 ** (bits - 1), 2 ** 31 - 1, -2 ** 31, 2 ** 31 if bits == 64 else 5, 255, -256}
        for k in range(1, bits):
            vs.add(2 ** k % 2 ** (bits - 1)); vs.add(-(2 ** k) % -(2 ** (bits - 1)) if k < bits - 1 else -1)
        for _ in range(2000):
            k = rng.randrange(1, bits + 1)
            vs.add(rng.randrange(-(1 << (k - 1)), 1 << (k - 1)))
        return [(v, v) for v in sorted(vs)]
    return [(0, 0)]


class Obs:
    """what one call built, with the literal abstracted"""

    def __init__(self):
        self.kind = self.op = self.ty = self.cty = self.cls = ""
        self.dst = 0
        self.a = self.b = ""
        self.text = ""

    def key(self):
        return (self.kind, self.cls, self.op, self.ty, self.dst, self.a, self.b, self.cty, self.text)


def describe_arg(x, lit, ir):
    if isinstance(x, ir.Constant):
        if x.cst != x.cst2:
            raise ValueError("Constant with different cst/cst2")
        if x.cst == lit and x.cst == -lit:
            return "lit0", x.type, x.cst
        if x.cst == lit:
            return "lit", x.type, x.cst
        if x.cst == -lit:
            return "-lit", x.type, x.cst
        raise ValueError("constant %r is neither the literal %r nor its negation" % (x.cst, lit))
    if isinstance(x, ir.Variable) and type(x) is ir.Variable:
        return "r%d" % x.v, "", None
    raise ValueError("unexpected operand %r" % (x,))


def observe(fn, ins, lit, ir, wr):
    vmap = {}
    e = fn(ins, vmap)
    o = Obs()
    for v in vmap.values():
        v.declared = True
    w = wr.Writer(None, None)
    if isinstance(e, ir.AssignExpression):
        o.dst = e.lhs
        rhs = e.rhs
        o.cls = type(rhs).__name__
        if isinstance(rhs, ir.Constant):
            o.kind = "const"
            o.a, o.cty, _ = describe_arg(rhs, lit, ir)
            o.ty = rhs.get_type()
        elif isinstance(rhs, ir.BinaryCompExpression):
            o.kind, o.op, o.ty = "cmp", rhs.op, rhs.type
            o.a = describe_arg(rhs.var_map[rhs.arg1], lit, ir)[0]
            o.b = describe_arg(rhs.var_map[rhs.arg2], lit, ir)[0]
        elif isinstance(rhs, ir.BinaryExpression):
            o.kind, o.op, o.ty = "bin", rhs.op, rhs.type
            # the operands as the constructor received them (var_map is keyed by .v: `cN` for constants)
            a1, a2 = rhs.var_map[rhs.arg1], rhs.var_map[rhs.arg2]
            o.a, c1, _ = describe_arg(a1, lit, ir)
            o.b, c2, _ = describe_arg(a2, lit, ir)
            o.cty = c1 or c2
        elif isinstance(rhs, ir.CastExpression):
            o.kind, o.op, o.ty = "cast", rhs.op, rhs.type
            o.a = describe_arg(rhs.var_map[rhs.arg], lit, ir)[0]
        elif isinstance(rhs, ir.UnaryExpression):
            o.kind, o.op, o.ty = "un", rhs.op, rhs.type
            o.a = describe_arg(rhs.var_map[rhs.arg], lit, ir)[0]
        else:
            raise ValueError("unexpected right-hand side %s" % type(rhs).__name__)
        rhs.visit(w)
    elif isinstance(e, ir.ConditionalExpression):
        o.kind, o.op, o.cls = "cond", e.op, type(e).__name__
        o.a = describe_arg(e.var_map[e.arg1], lit, ir)[0]
        o.b = describe_arg(e.var_map[e.arg2], lit, ir)[0]
        e.visit(w)
    elif isinstance(e, ir.ConditionalZExpression):
        o.kind, o.op, o.cls = "condz", e.op, type(e).__name__
        o.a = describe_arg(e.var_map[e.arg], lit, ir)[0]
        # the writer needs a type for the operand to choose between `0` and `null`; a register tested by if-*z in this
        # subset is an int (set by the instruction that defined it)
        e.var_map[e.arg].type = "I"
        e.visit(w)
    else:
        raise ValueError("unexpected expression %s" % type(e).__name__)
    text = str(w)
    # abstract the literal in the printed text
    if lit is not None and ("lit" in (o.a, o.b) or "-lit" in (o.a, o.b) or "lit0" in (o.a, o.b)):
        shown = lit if "lit" in (o.a, o.b) or "lit0" in (o.a, o.b) else -lit
        for cand in ("%dL" % shown, "%d" % shown):
            pat = r"(?<![A-Za-z0-9_])" + re.escape(cand) + r"(?![A-Za-z0-9_])"
            if re.search(pat, text):
                text = re.sub(pat, "#L" if cand.endswith("L") else "#", text, count=1)
                break
        else:
            raise ValueError("literal %r not found in the printed text %r" % (shown, text))
    o.text = text
    return o



# ---------------------------------------------------------------------------------------------- writer contexts
# How the Writer prints a CONSTANT operand in every expression context it can distinguish (after register propagation
# an operand of any expression may be a Constant): operator, side, type of the other operand, type of the constant.
# Each context is printed by the real Writer for a COMPLETE small range of values and the boundaries; the text is lexed
# with a Java lexer (below) and abstracted to a lexeme template plus the kind and value of its one literal.
BIN_OPS = ["+", "-", "*", "/", "%", "&", "|", "^", "<<", ">>", ">>>"]
REL_OPS = ["==", "!=", "<", ">=", ">", "<="]
CTX_I = (list(range(0, 256)) + list(range(-128, 0)) +
         [256, 257, -129, -255, -256, 32767, 32768, -32768, -32769, 65535, 65536, 65537, 0x7FFFFFFF, 0x7FFFFFFE, -0x80000000,
          -0x7FFFFFFF, 0x40000000, 1 << 24, 1000, -1000, 123456789, -123456789])
CTX_J = CTX_I + [1 << 31, (1 << 31) + 1, -(1 << 31) - 1, 1 << 32, (1 << 32) - 1, -(1 << 32), (1 << 63) - 1, -(1 << 63),
                 -(1 << 63) + 1, 1 << 62, 0x0123456789ABCDEF, -0x0123456789ABCDEF]
OFFSET = 1 << 63


def context_specs():
    specs = [("ibin", op, "r") for op in BIN_OPS] + [("ibin", "-", "l"), ("ibin", "+", "l")]
    specs += [("jbin", op, "r") for op in ("+", "-", "&")] + [("jshift", "<<", "r")]
    specs += [("cond", op, t) for t in "ICBS" for op in REL_OPS]
    specs += [("condcast", op, "(char)") for op in REL_OPS]
    specs += [("condl", op, "I") for op in REL_OPS]
    specs += [("const", "", "I"), ("const", "", "J"), ("un", "-", "I"), ("un", "~", "I"), ("un", "-", "J")]
    specs += [("cast", "(long)", "J"), ("cast", "(int)", "I"), ("cast", "(byte)", "B"), ("cast", "(char)", "C"), ("cast", "(short)", "S")]
    return specs


def context_is_long(spec):
    family, op, aux = spec
    return family == "jbin" or (family in ("const", "un") and aux == "J") or (family == "cast" and op == "(int)")


def build_context(ir, spec, v):
    """the real IR expression of a context with constant v"""
    family, op, aux = spec

    def var(t):
        x = ir.Variable(1)
        x.type = t
        x.declared = True
        return x
    if family == "ibin":
        c = ir.Constant(v, "I")
        return ir.BinaryExpression(op, var("I"), c, "I") if aux == "r" else ir.BinaryExpression(op, c, var("I"), "I")
    if family == "jbin":
        return ir.BinaryExpression(op, var("J"), ir.Constant(v, "J"), "J")
    if family == "jshift":
        return ir.BinaryExpression(op, var("J"), ir.Constant(v, "I"), "J")
    if family == "cond":
        return ir.ConditionalExpression(op, var(aux), ir.Constant(v, "I"))
    if family == "condcast":
        # what register propagation does: the operand stays under the key of the variable it replaced
        e = ir.ConditionalExpression(op, var("I"), ir.Constant(v, "I"))
        e.var_map[e.arg1] = ir.CastExpression(aux, "C", var("I"))
        return e
    if family == "condl":
        return ir.ConditionalExpression(op, ir.Constant(v, "I"), var("I"))
    if family == "const":
        return ir.Constant(v, aux)
    if family == "un":
        return ir.UnaryExpression(op, ir.Constant(v, aux), aux)
    if family == "cast":
        return ir.CastExpression(op, aux, ir.Constant(v, "J" if op == "(int)" else "I"))
    raise ValueError(spec)


def context_text(ir, wr, spec, v):
    w = wr.Writer(None, None)
    build_context(ir, spec, v).visit(w)
    return str(w)


_LEX = re.compile(r"""\s*(?:
    (?P<chr>'(?:[^'\\\n]|\\[btnfr"'\\]|\\u[0-9a-fA-F]{4})')
  | (?P<num>(?<![\w)])-?\d+L?(?![\w.]))
  | (?P<id>[A-Za-z_][\w.]*)
  | (?P<op>>>>=?|>>=?|<<=?|[=!<>]=|&&|\|\||[-+*/%&|^~<>=(),?:])
)""", re.X)


def java_lex(text):
    """lexemes of the printed fragment, or None when the text is not lexically Java (e.g. an unclosed char literal)"""
    out, i = [], 0
    text = text.rstrip()
    while i < len(text):
        m = _LEX.match(text, i)
        if not m or m.end() == i:
            return None
        kind = m.lastgroup
        out.append((kind, m.group(kind)))
        i = m.end()
    return out


_ESC = {"b": 8, "t": 9, "n": 10, "f": 12, "r": 13, '"': 34, "'": 39, "\\": 92}


def abstract_literal(text):
    """(template lexemes with '#' for the literal, kind int|long|char|bad, value)"""
    toks = java_lex(text)
    if toks is None:
        return (["<not-java>", text], "bad", 0)
    lits = [(k, t) for k, t in toks if k in ("num", "chr")]
    if len(lits) != 1:
        return (["<literals:%d>" % len(lits), text], "bad", 0)
    k, t = lits[0]
    if k == "chr":
        body = t[1:-1]
        val = ord(body) if len(body) == 1 else (int(body[2:], 16) if body[1] == "u" else _ESC[body[1]])
        kind = "char"
    else:
        kind = "long" if t.endswith("L") else "int"
        val = int(t.rstrip("L"))
    return ([("#" if kk in ("num", "chr") else tt) for kk, tt in toks], kind, val)


def reflect_contexts(ir, wr):
    """rows: (family, op, aux, template, kind, [values], [literal values]) — one row per distinct (template, kind) of a context"""
    rows = []
    for spec in context_specs():
        groups = {}
        order = []
        for v in (CTX_J if context_is_long(spec) else CTX_I):
            try:
                tpl, kind, val = abstract_literal(context_text(ir, wr, spec, v))
            except Exception as e:  # noqa
                tpl, kind, val = (["<raised:%s>" % type(e).__name__], "bad", 0)
            key = (tuple(tpl), kind)
            if key not in groups:
                groups[key] = ([], [])
                order.append(key)
            groups[key][0].append(v)
            groups[key][1].append(val)
        for key in order:
            rows.append((spec[0], spec[1], spec[2], list(key[0]), key[1], groups[key][0], groups[key][1]))
    return rows



# ---------------------------------------------------------------------------------------------- two-level contexts
# ((x op1 c1) op2 c2) and (c1 op1 (x op2 c2)): what register propagation leaves when both constants come from registers.
# A Writer that rewrites such a nest (folding, re-association) changes the lexeme template or the literals of a row.
OPS2_I = ["+", "-", "*", "&", "|", "^", "<<", ">>", ">>>"]
OPS2_J = ["+", "-", "*", "&"]
PAIR_I = [0x7FFFFFFF, -0x80000000, 1 << 30, -(1 << 30), -0x7FFFFFFF, 1, -1, 0, 1500000000, -1500000000]
PAIR_J = [(1 << 63) - 1, -(1 << 63), 1 << 62, -(1 << 62), -(1 << 63) + 1, 1, -1, 0, 1 << 31, 6000000000000000000]


def context2_specs():
    specs = []
    for shape in ("A", "B"):
        specs += [(shape, o1, o2, "I") for o1 in OPS2_I for o2 in OPS2_I]
        specs += [(shape, o1, o2, "J") for o1 in OPS2_J for o2 in OPS2_J]
    return specs


def pairs_of(ty):
    base = PAIR_I if ty == "I" else PAIR_J
    return [(a, b) for a in base for b in base]


def build_context2(ir, spec, c1, c2):
    shape, o1, o2, ty = spec

    def var(n=1):
        x = ir.Variable(n)
        x.type = ty
        x.declared = True
        return x
    if shape == "A":      # ((x o1 c1) o2 c2)
        inner = ir.BinaryExpression(o1, var(), ir.Constant(c1, ty), ty)
        outer = ir.BinaryExpression(o2, var(7), ir.Constant(c2, ty), ty)
        outer.var_map[outer.arg1] = inner          # as register propagation leaves it
        return outer
    inner = ir.BinaryExpression(o2, var(), ir.Constant(c2, ty), ty)       # (c1 o1 (x o2 c2))
    outer = ir.BinaryExpression(o1, ir.Constant(c1, ty), var(7), ty)
    outer.var_map[outer.arg2] = inner
    return outer


def context2_text(ir, wr, spec, c1, c2):
    w = wr.Writer(None, None)
    build_context2(ir, spec, c1, c2).visit(w)
    return str(w)


def abstract_literals(text, n):
    """(template with '#', kinds joined by ',', [values]) for a text that must contain exactly n literals"""
    toks = java_lex(text)
    if toks is None:
        return (["<not-java>", text], "bad", [0] * n)
    lits = [(k, t) for k, t in toks if k in ("num", "chr")]
    if len(lits) != n:
        return (["<literals:%d>" % len(lits)] + [("#" if kk in ("num", "chr") else tt) for kk, tt in toks], "bad", [0] * n)
    kinds, vals = [], []
    for k, t in lits:
        if k == "chr":
            kinds.append("char"); vals.append(ord(t[1]) if len(t) == 3 else -1)
        else:
            kinds.append("long" if t.endswith("L") else "int"); vals.append(int(t.rstrip("L")))
    return ([("#" if kk in ("num", "chr") else tt) for kk, tt in toks], ",".join(kinds), vals)


def reflect_contexts2(ir, wr):
    """rows: (shape, op1, op2, ty, template, kinds, [(c1, c2)], [(l1, l2)]) — one per distinct (template, kinds) of a context"""
    rows = []
    for spec in context2_specs():
        groups, order = {}, []
        for c1, c2 in pairs_of(spec[3]):
            try:
                tpl, kinds, vals = abstract_literals(context2_text(ir, wr, spec, c1, c2), 2)
            except Exception as e:  # noqa
                tpl, kinds, vals = (["<raised:%s>" % type(e).__name__], "bad", [0, 0])
            key = (tuple(tpl), kinds)
            if key not in groups:
                groups[key] = ([], [])
                order.append(key)
            groups[key][0].append((c1, c2))
            groups[key][1].append((vals[0], vals[1]))
        for key in order:
            rows.append(spec + (list(key[0]), key[1], groups[key][0], groups[key][1]))
    return rows


def generate(repo):
    dex, oi, ir, wr = _load(repo)
    try:
        from loguru import logger
        logger.remove()
    except Exception:  # noqa
        pass
    rng = random.Random(20210)
    cm = type("CM", (), {})()
    cm.packer = dex.DalvikPacker(0x12345678)
    rows = []
    for op in SCOPE:
        fn = oi.INSTRUCTION_SET[op]
        fmt_cls = dex.DALVIK_OPCODES_FORMAT[op][0].__name__
        mnemonic = dex.DALVIK_OPCODES_FORMAT[op][1][0]
        classes = {}   # sign class -> Obs
        has_lit = fmt_cls in ("Instruction11n", "Instruction21s", "Instruction21h", "Instruction31i", "Instruction51l",
                              "Instruction22b", "Instruction22s")
        for raw, lit in (literals(fmt_cls, op, rng) if has_lit else [(0, None)]):
            ins = dex.get_instruction(cm, op, bytearray(encode(fmt_cls, op, raw)))
            if has_lit:
                got = ins.get_literals()
                if got != [lit]:
                    raise ValueError("%s: decoded literal %r for raw %r, the specification says %r" % (mnemonic, got, raw, lit))
            o = observe(fn, ins, lit, ir, wr)
            sign = "all" if lit is None else ("neg" if lit < 0 else "nonneg")
            if "lit0" in (o.a, o.b):
                # literal 0: both `lit` and `-lit` describe it; adopt whatever the class already has
                prev = classes.get(sign)
                if prev is not None:
                    continue
                o.a = "lit" if o.a == "lit0" else o.a
                o.b = "lit" if o.b == "lit0" else o.b
                classes.setdefault("zero", o)
                continue
            prev = classes.get(sign)
            if prev is None:
                classes[sign] = o
            elif prev.key() != o.key():
                raise ValueError("%s: translation is not uniform over %s literals: %r vs %r" % (mnemonic, sign, prev.key(), o.key()))
        zero = classes.pop("zero", None)
        if zero is not None and "nonneg" in classes and zero.key() != classes["nonneg"].key():
            raise ValueError("%s: literal 0 is translated differently from the positive literals" % mnemonic)
        if zero is not None and "nonneg" not in classes:
            classes["nonneg"] = zero
        if set(classes) == {"neg", "nonneg"} and classes["neg"].key() == classes["nonneg"].key():
            classes = {"all": classes["neg"]}
        for sign in sorted(classes):
            o = classes[sign]
            rows.append((op, mnemonic, fn.__name__, sign, o))
    optab = sorted((k, v) for k, v in vars(oi.Op).items() if not k.startswith("_") and isinstance(v, str))
    out = ["/- GENERATED by gen/translate.py by reflection on androguard/decompiler/opcode_ins.py (INSTRUCTION_SET, Op),",
           "   instruction.py (expression classes) and writer.py (printed text). Do not edit. -/",
           "namespace AgVerif.Gen.Translate", "",
           "/-- one translation: opcode, mnemonic, translation function, literal sign class (all/neg/nonneg),",
           "    kind (bin/un/cast/const/cmp/cond/condz), expression class, operator or cast text, type recorded on the",
           "    expression, destination register, operands (`rN` register N, `lit`/`-lit` Constant holding ±literal),",
           "    type recorded on the Constant, text printed by the real Writer (`#` = the constant, `#L` with suffix) -/",
           "structure Row where",
           "  opcode : Nat", "  mnemonic : String", "  fn : String", "  dom : String", "  kind : String", "  cls : String",
           "  op : String", "  ty : String", "  dst : Nat", "  a : String", "  b : String", "  cty : String", "  text : String",
           "  deriving Repr, DecidableEq", "",
           "def rows : List Row := ["]
    body = []
    for op, mn, fname, sign, o in rows:
        body.append("  ⟨%d, %s, %s, %s, %s, %s, %s, %s, %d, %s, %s, %s, %s⟩" % (
            op, lean_str(mn), lean_str(fname), lean_str(sign), lean_str(o.kind), lean_str(o.cls), lean_str(o.op),
            lean_str(o.ty or ""), o.dst or 0, lean_str(o.a), lean_str(o.b), lean_str(o.cty or ""), lean_str(o.text)))
    out.append(",\n".join(body) + "]")
    out += ["", "/-- class Op: attribute name ↦ Java operator text -/", "def opTable : List (String × String) := ["]
    out.append(",\n".join("  (%s, %s)" % (lean_str(k), lean_str(v)) for k, v in optab) + "]")
    def enc(vs):
        """the sequence as maximal runs of consecutive values (lossless), each value offset by 2^63"""
        runs = []
        for v in vs:
            v = max(-OFFSET, min(OFFSET - 1, v)) + OFFSET
            if runs and runs[-1][1] + 1 == v:
                runs[-1][1] = v
            else:
                runs.append([v, v])
        return "[" + ", ".join("(%d, %d)" % (a, b) for a, b in runs) + "]"
    out += ["", "/-- value sequences are stored as maximal runs (lo, hi) of consecutive values, offset by 2^63 -/",
            "def ctxValsI : List (Nat × Nat) := " + enc(CTX_I), "def ctxValsJ : List (Nat × Nat) := " + enc(CTX_J), "",
            "/-- how the real Writer prints a Constant operand in one expression context: context (family, operator, type/side),",
            "    lexeme template of the printed text (`#` = the literal), kind of the literal (int/long/char/bad), the constants",
            "    printed this way and the value their literal denotes (both offset by 2^63) -/",
            "structure CtxRow where", "  family : String", "  op : String", "  aux : String", "  template : List String",
            "  kind : String", "  vals : List (Nat × Nat)", "  lits : List (Nat × Nat)", "", "def ctxRows : List CtxRow := ["]
    crow = []
    for fam, op_, aux, tpl, kind, vs, ls in reflect_contexts(ir, wr):
        crow.append("  ⟨%s, %s, %s, [%s], %s, %s, %s⟩" % (lean_str(fam), lean_str(op_), lean_str(aux),
                                                         ", ".join(lean_str(t) for t in tpl), lean_str(kind), enc(vs), enc(ls)))
    out.append(",\n".join(crow) + "]")
    clampo = lambda v: max(-OFFSET, min(OFFSET - 1, v)) + OFFSET
    encp = lambda ps: "[" + ", ".join("(%d, %d)" % (clampo(a), clampo(b)) for a, b in ps) + "]"
    out += ["", "/-- the constant pairs of the two-level contexts (offset by 2^63) -/",
            "def pairsI : List (Nat × Nat) := " + encp(pairs_of("I")), "def pairsJ : List (Nat × Nat) := " + encp(pairs_of("J")), "",
            "/-- a two-level context ((x op1 c1) op2 c2) [shape A] / (c1 op1 (x op2 c2)) [shape B] as the real Writer prints it:",
            "    lexeme template, kinds of the two literals, the constant pairs printed this way and what the two literals denote",
            "    (a list equal to `pairsI`/`pairsJ` is written as that name) -/",
            "structure Ctx2Row where", "  shape : String", "  op1 : String", "  op2 : String", "  ty : String",
            "  template : List String", "  kinds : String", "  vals : List (Nat × Nat)", "  lits : List (Nat × Nat)", "",
            "def ctx2Rows : List Ctx2Row := ["]
    c2 = []
    for shape, o1, o2, ty, tpl, kinds, vs, ls in reflect_contexts2(ir, wr):
        full = pairs_of(ty)
        name = "pairsI" if ty == "I" else "pairsJ"
        c2.append("  ⟨%s, %s, %s, %s, [%s], %s, %s, %s⟩" % (
            lean_str(shape), lean_str(o1), lean_str(o2), lean_str(ty), ", ".join(lean_str(t) for t in tpl), lean_str(kinds),
            name if vs == full else encp(vs), name if ls == full else encp(ls)))
    out.append(",\n".join(c2) + "]")
    out += ["", "end AgVerif.Gen.Translate", ""]
    return {"Translate": "\n".join(out)}


if __name__ == "__main__":
    print(generate(sys.argv[1] if len(sys.argv) > 1 else "/repo")["Translate"])
