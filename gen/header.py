"""Translator for C09: androguard/core/dex/__init__.py  ->  lean/AgVerif/Gen/Header.lean

Reads (AST only, no import) `HeaderItem.__init__`, `HeaderItem.get_length` and
`DalvikPacker.__init__` and emits
  * the statements of HeaderItem.__init__ that can raise, in SOURCE ORDER (`checkOrder`),
  * for each of them the comparison operator, the constants and the exception class,
  * the struct format of the header, the names of the unpacked fields and their byte offsets
    (computed from the format string), in particular of the fields the guards read,
  * the branch table of DalvikPacker.__init__ (endian tag constant -> action).
A statement that can raise and that this translator does not recognise makes it fail (the check
records a broken obligation and searches deeper) rather than silently dropping a guard.
"""
import ast
import os
import re
import struct

SRC = "androguard/core/dex/__init__.py"

CMP = {ast.Lt: "lt", ast.LtE: "le", ast.Gt: "gt", ast.GtE: "ge", ast.Eq: "eq", ast.NotEq: "ne"}


class Unrecognised(Exception):
    pass


def _cls(tree, name):
    for n in tree.body:
        if isinstance(n, ast.ClassDef) and n.name == name:
            return n
    raise Unrecognised(f"class {name} not found")


def _fn(cls, name):
    for n in cls.body:
        if isinstance(n, ast.FunctionDef) and n.name == name:
            return n
    raise Unrecognised(f"{cls.name}.{name} not found")


def _has_raise(node):
    return any(isinstance(x, ast.Raise) for x in ast.walk(node))


def _raise_exc(stmts):
    """exception class name of the single `raise X(...)` reachable in a statement list"""
    names = []
    for s in stmts:
        for x in ast.walk(s):
            if isinstance(x, ast.Raise):
                e = x.exc
                if isinstance(e, ast.Call):
                    e = e.func
                if not isinstance(e, ast.Name):
                    raise Unrecognised("raise of a non-name at line %d" % x.lineno)
                names.append(e.id)
    if len(set(names)) != 1:
        raise Unrecognised(f"expected exactly one exception class, got {names}")
    return names[0]


def _const_int(node):
    if isinstance(node, ast.Constant) and isinstance(node.value, int) and not isinstance(node.value, bool):
        return node.value
    raise Unrecognised("integer literal expected at line %d: %s" % (node.lineno, ast.dump(node)))


def _is_self_attr(node, attr=None):
    return (isinstance(node, ast.Attribute) and isinstance(node.value, ast.Name) and node.value.id == "self"
            and (attr is None or node.attr == attr))


def _src(node):
    return ast.unparse(node)


def field_layout(fmt, names):
    """byte offset and size of every unpacked field of a little-endian standard-size struct format"""
    items = re.findall(r"(\d*)([a-zA-Z?])", fmt)
    if "".join(a + b for a, b in items) != fmt:
        raise Unrecognised(f"format {fmt!r}")
    out, off = [], 0
    for cnt, ch in items:
        n = int(cnt) if cnt else 1
        if ch == "s":
            out.append((off, n, "s")); off += n
        else:
            sz = struct.calcsize("<" + ch)
            for _ in range(n):
                out.append((off, sz, ch)); off += sz
    if off != struct.calcsize("<" + fmt) or len(out) != len(names):
        raise Unrecognised(f"format {fmt!r} has {len(out)} fields, tuple has {len(names)} targets")
    return {nm: lay for nm, lay in zip(names, out)}, off


def extract(repo):
    path = os.path.join(repo, SRC)
    tree = ast.parse(open(path, encoding="utf-8").read())
    hi = _cls(tree, "HeaderItem")
    init = _fn(hi, "__init__")
    glen = _fn(hi, "get_length")
    rets = [s for s in ast.walk(glen) if isinstance(s, ast.Return)]
    if len(rets) != 1:
        raise Unrecognised("HeaderItem.get_length: one return expected")
    info = {"headerLength": _const_int(rets[0].value), "order": []}
    layout = None
    buffarg = init.args.args[2].arg      # (self, size, buff, cm)

    def need_unpacked(field):
        if layout is None or field not in layout:
            raise Unrecognised(f"guard on self.{field} before/without the header unpack")
        off, sz, ch = layout[field]
        if ch not in "IL" or sz != 4:
            raise Unrecognised(f"self.{field} is not an unsigned 32-bit field ({ch})")
        return off

    for st in init.body:
        # --- (self.endian_tag,) = unpack('<I', read_at(buff, 40, 4))
        if (isinstance(st, ast.Assign) and isinstance(st.value, ast.Call) and isinstance(st.value.func, ast.Name)
                and st.value.func.id == "unpack"):
            fmt = st.value.args[0]
            ra = st.value.args[1]
            if not (isinstance(fmt, ast.Constant) and fmt.value == "<I" and isinstance(ra, ast.Call)
                    and isinstance(ra.func, ast.Name) and ra.func.id == "read_at" and len(ra.args) == 3
                    and isinstance(ra.args[0], ast.Name) and ra.args[0].id == buffarg):
                raise Unrecognised("endian tag read: " + _src(st))
            tgt = st.targets[0]
            if not (isinstance(tgt, ast.Tuple) and len(tgt.elts) == 1 and _is_self_attr(tgt.elts[0], "endian_tag")):
                raise Unrecognised("endian tag read target: " + _src(st))
            info["endianOff"] = _const_int(ra.args[1])
            if _const_int(ra.args[2]) != 4:
                raise Unrecognised("endian tag read size: " + _src(st))
            continue
        # --- cm.packer = DalvikPacker(self.endian_tag)
        if (isinstance(st, ast.Assign) and isinstance(st.value, ast.Call) and isinstance(st.value.func, ast.Name)
                and st.value.func.id == "DalvikPacker"):
            if "endianOff" not in info or not (len(st.value.args) == 1 and _is_self_attr(st.value.args[0], "endian_tag")):
                raise Unrecognised("DalvikPacker call: " + _src(st))
            info["order"].append("endian")
            continue
        # --- (self.magic, ..., self.data_off) = cm.packer['8sI20s20I'].unpack(buff.read(112))
        if (isinstance(st, ast.Assign) and isinstance(st.targets[0], ast.Tuple) and isinstance(st.value, ast.Call)
                and isinstance(st.value.func, ast.Attribute) and st.value.func.attr == "unpack"
                and isinstance(st.value.func.value, ast.Subscript)):
            fmt = st.value.func.value.slice
            rd = st.value.args[0]
            if not (isinstance(fmt, ast.Constant) and isinstance(fmt.value, str) and isinstance(rd, ast.Call)
                    and isinstance(rd.func, ast.Attribute) and rd.func.attr == "read"
                    and isinstance(rd.func.value, ast.Name) and rd.func.value.id == buffarg):
                raise Unrecognised("header unpack: " + _src(st))
            names = []
            for e in st.targets[0].elts:
                if _is_self_attr(e):
                    names.append(e.attr)
                elif isinstance(e, ast.Name):
                    names.append("_" + e.id)     # local (the second endian_tag)
                else:
                    raise Unrecognised("header unpack target: " + _src(e))
            layout, total = field_layout(fmt.value, names)
            info["unpackFmt"] = fmt.value
            info["unpackSize"] = _const_int(rd.args[0])
            info["fmtSize"] = total
            info["fields"] = [(n, layout[n][0], layout[n][1], layout[n][2]) for n in names]
            info["order"].append("unpack")
            continue
        if not _has_raise(st):
            continue                        # warnings, plain assignments, the version `try`
        if not isinstance(st, ast.If) or st.orelse or not _has_raise(ast.Module(body=st.body, type_ignores=[])):
            raise Unrecognised("statement that can raise, not a plain guard: line %d" % st.lineno)
        exc = _raise_exc(st.body)
        t = st.test
        # --- magic: a disjunction of tests on self.magic
        if isinstance(t, ast.BoolOp) and isinstance(t.op, ast.Or):
            clauses = []
            for c in t.values:
                if not (isinstance(c, ast.Compare) and len(c.ops) == 1 and isinstance(c.left, ast.Subscript)
                        and _is_self_attr(c.left.value, "magic")):
                    raise Unrecognised("magic clause: " + _src(c))
                sl, op, rhs = c.left.slice, c.ops[0], c.comparators[0]
                if isinstance(sl, ast.Slice):
                    lo = _const_int(sl.lower) if sl.lower is not None else 0
                    if sl.upper is None or sl.step is not None:
                        raise Unrecognised("magic slice: " + _src(c))
                    hi_ = _const_int(sl.upper)
                    if not (isinstance(op, ast.NotEq) and isinstance(rhs, ast.Constant) and isinstance(rhs.value, bytes)):
                        raise Unrecognised("magic slice clause: " + _src(c))
                    clauses.append(("sliceNe", lo, hi_, list(rhs.value)))
                else:
                    i = _const_int(sl)
                    if isinstance(op, ast.NotIn) and isinstance(rhs, (ast.List, ast.Tuple, ast.Set)):
                        clauses.append(("byteNotIn", i, [_const_int(e) for e in rhs.elts]))
                    elif isinstance(op, ast.NotEq):
                        clauses.append(("byteNotIn", i, [_const_int(rhs)]))
                    else:
                        raise Unrecognised("magic byte clause: " + _src(c))
            need = layout and layout.get("magic")
            if not need or need[2] != "s":
                raise Unrecognised("magic guard before/without the header unpack")
            info["magicOff"], info["magicLen"] = need[0], need[1]
            info["magicClauses"] = clauses
            info["magicExc"] = exc
            info["order"].append("magic")
            continue
        if not (isinstance(t, ast.Compare) and len(t.ops) == 1 and type(t.ops[0]) in CMP):
            raise Unrecognised("guard: " + _src(t))
        op = CMP[type(t.ops[0])]
        lhs, rhs = t.left, t.comparators[0]
        # --- size: buff.raw.getbuffer().nbytes < self.get_length()
        if "nbytes" in _src(lhs) and _src(rhs) == "self.get_length()":
            if _src(lhs) != f"{buffarg}.raw.getbuffer().nbytes":
                raise Unrecognised("size guard: " + _src(t))
            info["sizeCmp"], info["sizeExc"] = op, exc
            info["order"].append("size")
            continue
        # --- checksum: zlib.adler32(read_at(buff, self.offset + 12)) != self.checksum
        if "adler32" in _src(lhs):
            ok = (isinstance(lhs, ast.Call) and _src(lhs.func) == "zlib.adler32" and len(lhs.args) == 1
                  and isinstance(lhs.args[0], ast.Call) and _src(lhs.args[0].func) == "read_at"
                  and len(lhs.args[0].args) == 2 and _src(lhs.args[0].args[0]) == buffarg
                  and isinstance(lhs.args[0].args[1], ast.BinOp) and isinstance(lhs.args[0].args[1].op, ast.Add)
                  and _is_self_attr(lhs.args[0].args[1].left, "offset") and _is_self_attr(rhs))
            if not ok:
                raise Unrecognised("checksum guard: " + _src(t))
            info["checksumStart"] = _const_int(lhs.args[0].args[1].right)
            info["checksumOff"] = need_unpacked(rhs.attr)
            info["checksumField"] = rhs.attr
            info["checksumCmp"], info["checksumExc"] = op, exc
            info["order"].append("checksum")
            continue
        # --- self.<field> <op> <const>
        if _is_self_attr(lhs) and lhs.attr in ("header_size", "type_ids_size", "proto_ids_size"):
            key = {"header_size": "headerSize", "type_ids_size": "typeIds", "proto_ids_size": "protoIds"}[lhs.attr]
            info[key + "Off"] = need_unpacked(lhs.attr)
            info[key + "Cmp"], info[key + "Const"], info[key + "Exc"] = op, _const_int(rhs), exc
            info["order"].append(key)
            continue
        raise Unrecognised("guard not modelled: " + _src(t))

    # --- DalvikPacker.__init__: if tag == C1: raise ... elif tag == C2: self.endian_tag = '<' else: raise ...
    dp = _fn(_cls(tree, "DalvikPacker"), "__init__")
    targ = dp.args.args[1].arg
    cases, els = [], None
    chain = [s for s in dp.body if isinstance(s, ast.If)]
    if len(chain) != 1 or any(_has_raise(s) for s in dp.body if not isinstance(s, ast.If)):
        raise Unrecognised("DalvikPacker.__init__: one if-chain expected")

    def action(stmts):
        if _has_raise(ast.Module(body=stmts, type_ignores=[])):
            e = _raise_exc(stmts)
            if e == "NotImplementedError":
                return "notImplemented"
            if e == "ValueError":
                return "valueError"
            raise Unrecognised("DalvikPacker raises " + e)
        for s in stmts:
            if (isinstance(s, ast.Assign) and _is_self_attr(s.targets[0], "endian_tag")
                    and isinstance(s.value, ast.Constant) and s.value.value == "<"):
                return "little"
        raise Unrecognised("DalvikPacker branch: " + "; ".join(_src(s) for s in stmts))

    node = chain[0]
    while True:
        t = node.test
        if not (isinstance(t, ast.Compare) and len(t.ops) == 1 and isinstance(t.ops[0], ast.Eq)
                and isinstance(t.left, ast.Name) and t.left.id == targ):
            raise Unrecognised("DalvikPacker test: " + _src(t))
        cases.append((_const_int(t.comparators[0]), action(node.body)))
        if len(node.orelse) == 1 and isinstance(node.orelse[0], ast.If):
            node = node.orelse[0]
            continue
        if not node.orelse:
            raise Unrecognised("DalvikPacker: an unknown endian tag falls through")
        els = action(node.orelse)
        break
    info["endianCases"], info["endianElse"] = cases, els

    for k in ("endianOff", "unpackFmt"):
        if k not in info:
            raise Unrecognised(f"{k} not found in HeaderItem.__init__")
    return info


ALL = ["size", "endian", "unpack", "magic", "checksum", "headerSize", "typeIds", "protoIds"]
DEFAULTS = {  # a guard that disappeared from the source: never fires (Cmp.lt against 0 is false for naturals)
    "sizeCmp": "lt", "sizeExc": "-", "magicOff": 0, "magicLen": 0, "magicClauses": [], "magicExc": "-",
    "checksumStart": 0, "checksumOff": 0, "checksumCmp": "lt", "checksumExc": "-", "checksumField": "-",
    "headerSizeOff": 0, "headerSizeCmp": "lt", "headerSizeConst": 0, "headerSizeExc": "-",
    "typeIdsOff": 0, "typeIdsCmp": "lt", "typeIdsConst": 0, "typeIdsExc": "-",
    "protoIdsOff": 0, "protoIdsCmp": "lt", "protoIdsConst": 0, "protoIdsExc": "-",
    "unpackSize": 0, "fmtSize": 0, "fields": [],
}


def lean_list(xs):
    return "[" + ", ".join(xs) + "]"


def generate(repo):
    info = extract(repo)
    g = dict(DEFAULTS)
    g.update(info)
    L = []
    w = L.append
    w("/- GENERATED by gen/header.py from androguard/core/dex/__init__.py (HeaderItem.__init__,")
    w("   HeaderItem.get_length, DalvikPacker.__init__). Do not edit. -/")
    w("import AgVerif.Model.HeaderTypes")
    w("namespace AgVerif.Gen.Header")
    w("open AgVerif.Header")
    w("")
    w("/-- statements of HeaderItem.__init__ that can raise, in source order -/")
    w("def checkOrder : List Check := " + lean_list("." + c for c in g["order"]))
    w("")
    w(f"def headerLength : Nat := {g['headerLength']}        -- HeaderItem.get_length")
    w(f"def sizeCmp : Cmp := .{g['sizeCmp']}                 -- raise when nbytes <cmp> headerLength")
    w(f"def endianOff : Nat := {g['endianOff']}              -- read_at(buff, endianOff, 4)")
    w("def endianCases : List (Nat × EndianAction) := " +
      lean_list(f"(0x{c:08x}, .{a})" for c, a in g["endianCases"]))
    w(f"def endianElse : EndianAction := .{g['endianElse']}")
    w(f"def unpackFmt : String := \"{g['unpackFmt']}\"")
    w(f"def unpackSize : Nat := {g['unpackSize']}            -- buff.read(unpackSize)")
    w(f"def fmtSize : Nat := {g['fmtSize']}                  -- struct.calcsize('<' + unpackFmt)")
    w(f"def magicOff : Nat := {g['magicOff']}")
    w(f"def magicLen : Nat := {g['magicLen']}")
    cl = []
    for c in g["magicClauses"]:
        if c[0] == "sliceNe":
            cl.append(f".sliceNe {c[1]} {c[2]} " + lean_list(f"0x{b:02x}" for b in c[3]))
        else:
            cl.append(f".byteNotIn {c[1]} " + lean_list(f"0x{b:02x}" for b in c[2]))
    w("def magicClauses : List MagicClause := " + lean_list(cl))
    w(f"def checksumOff : Nat := {g['checksumOff']}          -- offset of self.{g['checksumField']}")
    w(f"def checksumStart : Nat := {g['checksumStart']}      -- zlib.adler32(read_at(buff, self.offset + checksumStart))")
    w(f"def checksumCmp : Cmp := .{g['checksumCmp']}")
    for key, fld in (("headerSize", "header_size"), ("typeIds", "type_ids_size"), ("protoIds", "proto_ids_size")):
        w(f"def {key}Off : Nat := {g[key + 'Off']}          -- offset of self.{fld}")
        w(f"def {key}Cmp : Cmp := .{g[key + 'Cmp']}")
        w(f"def {key}Const : Nat := 0x{g[key + 'Const']:x}")
    w("")
    w("/-- exception class raised by each guard (for the correspondence) -/")
    w("def excName : Check → String")
    for c, k in (("size", "sizeExc"), ("magic", "magicExc"), ("checksum", "checksumExc"),
                 ("headerSize", "headerSizeExc"), ("typeIds", "typeIdsExc"), ("protoIds", "protoIdsExc")):
        w(f"  | .{c} => \"{g[k]}\"")
    w("  | .endian => \"-\"")
    w("  | .unpack => \"error\"")
    w("")
    w("/-- unpacked 32-bit fields: (name, byte offset), in tuple order -/")
    w("def u32Fields : List (String × Nat) := " +
      lean_list(f"(\"{n}\", {off})" for n, off, sz, ch in g["fields"] if ch != "s"))
    w("def bytesFields : List (String × Nat × Nat) := " +
      lean_list(f"(\"{n}\", {off}, {sz})" for n, off, sz, ch in g["fields"] if ch == "s"))
    w("")
    w("end AgVerif.Gen.Header")
    return {"Header": "\n".join(L) + "\n"}


if __name__ == "__main__":
    import sys
    print(generate(sys.argv[1] if len(sys.argv) > 1 else "/repo")["Header"])
