"""Translator for C09: androguard/core/dex/__init__.py  ->  lean/AgVerif/Gen/Header.lean

Reads (AST only, no import) `HeaderItem.__init__`, `HeaderItem.get_length` and
`DalvikPacker.__init__` and emits
  * the statements of HeaderItem.__init__ that can raise, in EXECUTION ORDER (`checkOrder`),
  * for each of them the comparison operator, the constants and the exception class,
  * the struct format of the header, the names of the unpacked fields and their byte offsets
    (computed from the format string), in particular of the fields the guards read,
  * the branch table of DalvikPacker.__init__ (endian tag constant -> action).

The facts are read semantically, not textually.  Accepted without changing the output:
  * integer / bytes / str constants given as literals, as constant expressions (`0x70`, `1 << 16`,
    `ord('x')`) or as names of module-level constants that are assigned exactly once;
  * guards moved into helpers (methods of the same class or module-level functions) that are
    called as a statement (`self._check_magic()`, `x = self._f(buff)`): the helper is inlined
    (parameters replaced by the arguments, its locals renamed), up to three levels; a helper that
    can raise may `return` only as its last statement;
  * locals (`magic = self.magic`, `computed = zlib.adler32(…)`), also bound by
    `with buff.raw.getbuffer() as view:`; a local is replaced by its definition at the point of
    use, and only when every assignment to it (and to whatever its definition reads) is a
    straight-line statement of the flattened body;
  * the endian tag read as `(self.endian_tag,) = unpack('<I', R)`, `… = unpack('<I', R)[0]`,
    `struct.unpack` for `unpack`, or `int.from_bytes(R, 'little')` (the last only after the size
    guard, which makes the read four bytes long), R = `read_at(buff, OFF, 4)`, directly in or
    through a local / `self` attribute given to `DalvikPacker(…)`;
  * the checksummed bytes as `read_at(buff, self.offset + K)` or `buff.raw.getbuffer()[self.offset + K:]`;
  * the magic test as any disjunction of `magic[i] != c`, `magic[i] not in (…)`, `magic[a:b] != b'..'`,
    `magic[a:b] not in (b'..', …)`; it is normalised to one set of allowed values per byte position
    (a `not in` over byte strings only if the strings are exactly a product of per-position sets);
  * a guard written with its operands swapped; tuples / lists / sets in membership tests;
  * DalvikPacker.__init__ as an if/elif/else chain or as successive `if`s whose bodies always raise.
Everything else that can raise (a `raise`, or a call of a helper that can raise, anywhere but in a
plain `if <test>: …; raise X(…)` guard of a recognised test) makes the translator fail: the check
records a broken obligation and searches deeper rather than silently dropping or altering a guard.
"""
import ast
import copy
import itertools
import os
import re
import struct

SRC = "androguard/core/dex/__init__.py"

CMP = {ast.Lt: "lt", ast.LtE: "le", ast.Gt: "gt", ast.GtE: "ge", ast.Eq: "eq", ast.NotEq: "ne"}
FLIP = {"lt": "gt", "le": "ge", "gt": "lt", "ge": "le", "eq": "eq", "ne": "ne"}
MAX_INLINE = 3


class Unrecognised(Exception):
    pass


def _src(node):
    return ast.unparse(node)


def _is_self_attr(node, attr=None):
    return (isinstance(node, ast.Attribute) and isinstance(node.value, ast.Name) and node.value.id == "self"
            and (attr is None or node.attr == attr))


def _walk_same_scope(node):
    """ast.walk that does not descend into nested function / class definitions and lambdas"""
    todo = [node]
    while todo:
        n = todo.pop()
        yield n
        for c in ast.iter_child_nodes(n):
            if not isinstance(c, (ast.FunctionDef, ast.AsyncFunctionDef, ast.ClassDef, ast.Lambda)):
                todo.append(c)


class Module:
    """module-level facts: constants assigned exactly once, functions, classes"""

    def __init__(self, tree):
        self.tree = tree
        self.funcs = {n.name: n for n in tree.body if isinstance(n, ast.FunctionDef)}
        self.classes = {n.name: n for n in tree.body if isinstance(n, ast.ClassDef)}
        stores = {}
        for n in tree.body:
            tg = []
            if isinstance(n, ast.Assign):
                tg = n.targets
            elif isinstance(n, (ast.AnnAssign, ast.AugAssign)):
                tg = [n.target]
            for t in tg:
                for x in ast.walk(t):
                    if isinstance(x, ast.Name):
                        stores.setdefault(x.id, []).append(n)
        for n in tree.body:       # names bound by other module-level statements (for, with, import, def …)
            if not isinstance(n, (ast.Assign, ast.AnnAssign, ast.AugAssign)):
                for x in ast.walk(n) if isinstance(n, (ast.For, ast.With, ast.If, ast.Try, ast.While)) else ():
                    if isinstance(x, ast.Name) and isinstance(x.ctx, ast.Store):
                        stores.setdefault(x.id, []).append(None)
        globs = {nm for x in ast.walk(tree) if isinstance(x, ast.Global) for nm in x.names}
        self.consts = {}
        for name, sts in stores.items():
            if len(sts) == 1 and isinstance(sts[0], ast.Assign) and len(sts[0].targets) == 1 \
                    and isinstance(sts[0].targets[0], ast.Name) and name not in globs \
                    and name not in self.funcs and name not in self.classes:
                self.consts[name] = sts[0].value

    def method(self, cls, name):
        for n in cls.body:
            if isinstance(n, ast.FunctionDef) and n.name == name:
                return n
        return None


def const_value(node, mod, depth=0):
    """value of a constant expression (int / bytes / str), names resolved to module-level constants"""
    if depth > 8:
        raise Unrecognised("constant expression too deep: " + _src(node))
    if isinstance(node, ast.Constant) and isinstance(node.value, (int, bytes, str)) and not isinstance(node.value, bool):
        return node.value
    if isinstance(node, ast.Name) and node.id in mod.consts:
        return const_value(mod.consts[node.id], mod, depth + 1)
    if isinstance(node, ast.UnaryOp) and isinstance(node.op, (ast.USub, ast.UAdd, ast.Invert)):
        v = const_value(node.operand, mod, depth + 1)
        if isinstance(v, int):
            return -v if isinstance(node.op, ast.USub) else v if isinstance(node.op, ast.UAdd) else ~v
    if isinstance(node, ast.BinOp):
        a, b = const_value(node.left, mod, depth + 1), const_value(node.right, mod, depth + 1)
        if isinstance(a, int) and isinstance(b, int):
            ops = {ast.Add: lambda: a + b, ast.Sub: lambda: a - b, ast.Mult: lambda: a * b,
                   ast.FloorDiv: lambda: a // b if b else None, ast.Mod: lambda: a % b if b else None,
                   ast.LShift: lambda: a << b if 0 <= b < 64 else None, ast.RShift: lambda: a >> b if b >= 0 else None,
                   ast.BitOr: lambda: a | b, ast.BitAnd: lambda: a & b, ast.BitXor: lambda: a ^ b,
                   ast.Pow: lambda: a ** b if 0 <= b < 64 and abs(a) < 2 ** 16 else None}
            f = ops.get(type(node.op))
            v = f() if f else None
            if v is not None:
                return v
        if isinstance(a, (bytes, str)) and type(a) is type(b) and isinstance(node.op, ast.Add):
            return a + b
    if (isinstance(node, ast.Call) and isinstance(node.func, ast.Name) and node.func.id == "ord"
            and len(node.args) == 1 and not node.keywords):
        v = const_value(node.args[0], mod, depth + 1)
        if isinstance(v, (str, bytes)) and len(v) == 1:
            return ord(v)
    raise Unrecognised("not a constant expression at line %d: %s" % (getattr(node, "lineno", 0), _src(node)))


def const_int(node, mod):
    v = const_value(node, mod)
    if not isinstance(v, int):
        raise Unrecognised("integer constant expected: " + _src(node))
    return v


# ---------------------------------------------------------------- which statements can raise
def resolve_helper(call, mod, cls):
    """FunctionDef of `self.m(...)` (m defined in cls) or `f(...)` (f defined in the module), else None"""
    f = call.func
    if _is_self_attr(f) and cls is not None:
        return mod.method(cls, f.attr), True
    if isinstance(f, ast.Name) and f.id in mod.funcs:
        return mod.funcs[f.id], False
    return None, False


def may_raise(node, mod, cls, depth=0):
    for x in _walk_same_scope(node):
        if isinstance(x, ast.Raise):
            return True
        if isinstance(x, ast.Call):
            h, _ = resolve_helper(x, mod, cls)
            if h is None and isinstance(x.func, ast.Name) and x.func.id in mod.classes:
                h = mod.method(mod.classes[x.func.id], "__init__")      # a constructor of this module
            if h is not None:
                if depth >= MAX_INLINE + 1:
                    return True            # too deep to know: assume it can
                if any(may_raise(s, mod, cls, depth + 1) for s in h.body):
                    return True
    return False


def raise_exc(stmts):
    """exception class name of the `raise X(...)` statements in a statement list (exactly one class)"""
    names = []
    for s in stmts:
        for x in _walk_same_scope(s):
            if isinstance(x, ast.Raise):
                e = x.exc
                if isinstance(e, ast.Call):
                    e = e.func
                if not isinstance(e, ast.Name):
                    raise Unrecognised("raise of a non-name at line %d" % x.lineno)
                names.append(e.id)
    if len(set(names)) != 1:
        raise Unrecognised(f"expected exactly one exception class, got {names}")
    return names[0]


def always_raises(body):
    """`<expression statements…>; raise X(...)`: nothing in the body can leave it any other way"""
    return (bool(body) and isinstance(body[-1], ast.Raise)
            and all(isinstance(s, ast.Expr) for s in body[:-1]))


# ---------------------------------------------------------------- inlining / flattening
class _Subst(ast.NodeTransformer):
    def __init__(self, mapping):
        self.mapping = mapping

    def visit_Name(self, node):
        if node.id in self.mapping:
            new = self.mapping[node.id]
            if isinstance(node.ctx, ast.Load):
                return copy.deepcopy(new)
            if isinstance(new, ast.Name):
                return ast.copy_location(ast.Name(id=new.id, ctx=node.ctx), node)
            raise Unrecognised("assignment to a parameter of an inlined helper: " + node.id)
        return node


def inline_call(call, target, helper, is_method, uid):
    """statements equivalent to `target = helper(args)` / `helper(args)`; None if not expressible"""
    a = helper.args
    if a.vararg or a.kwarg or a.kwonlyargs or a.posonlyargs:
        raise Unrecognised(f"helper {helper.name}: unsupported signature")
    params = [x.arg for x in a.args]
    if is_method:
        if not params:
            raise Unrecognised(f"helper {helper.name}: no self")
        self_name, params = params[0], params[1:]
    defaults = dict(zip(params[len(params) - len(a.defaults):], a.defaults)) if a.defaults else {}
    if any(isinstance(x, ast.Starred) for x in call.args) or any(k.arg is None for k in call.keywords):
        raise Unrecognised(f"call of {helper.name} with * / **")
    if len(call.args) > len(params):
        raise Unrecognised(f"call of {helper.name}: too many arguments")
    mapping = dict(zip(params, call.args))
    for k in call.keywords:
        if k.arg not in params or k.arg in mapping:
            raise Unrecognised(f"call of {helper.name}: bad keyword {k.arg}")
        mapping[k.arg] = k.value
    for p_ in params:
        if p_ not in mapping:
            if p_ not in defaults:
                raise Unrecognised(f"call of {helper.name}: missing argument {p_}")
            mapping[p_] = defaults[p_]
    body = [copy.deepcopy(s) for s in helper.body]
    if body and isinstance(body[0], ast.Expr) and isinstance(body[0].value, ast.Constant) \
            and isinstance(body[0].value.value, str):
        body = body[1:]                                   # docstring
    stored = {x.id for s in body for x in _walk_same_scope(s) if isinstance(x, ast.Name) and isinstance(x.ctx, ast.Store)}
    if stored & set(params) or (is_method and self_name in stored):
        raise Unrecognised(f"helper {helper.name} assigns to a parameter")
    if any(isinstance(x, (ast.Global, ast.Nonlocal, ast.Yield, ast.YieldFrom, ast.Await))
           for s in body for x in _walk_same_scope(s)):
        raise Unrecognised(f"helper {helper.name}: global / yield")
    rename = {n: ast.Name(id=f"{n}${helper.name}{uid}", ctx=ast.Load()) for n in stored}
    if is_method and self_name != "self":
        mapping[self_name] = ast.Name(id="self", ctx=ast.Load())
    sub = _Subst({**mapping, **rename})
    body = [sub.visit(s) for s in body]
    rets = [x for s in body for x in _walk_same_scope(s) if isinstance(x, ast.Return)]
    last_ret = body[-1] if body and isinstance(body[-1], ast.Return) else None
    if any(r is not last_ret for r in rets):
        return None                                       # early return: control flow not straight-line
    if last_ret is not None:
        body = body[:-1]
        if target is not None:
            val = last_ret.value if last_ret.value is not None else ast.Constant(value=None)
            body.append(ast.copy_location(ast.Assign(targets=[target], value=val, lineno=call.lineno), call))
    elif target is not None:
        body.append(ast.copy_location(ast.Assign(targets=[target], value=ast.Constant(value=None), lineno=call.lineno), call))
    for s in body:
        ast.fix_missing_locations(s)
    return body


def flatten(stmts, mod, cls, buffarg, depth=0, counter=None):
    """the statement list with raising helpers inlined and `with buff.raw.getbuffer() as v:` opened"""
    counter = counter if counter is not None else itertools.count(1)
    out = []
    for st in stmts:
        if isinstance(st, ast.With) and len(st.items) == 1 and isinstance(st.items[0].optional_vars, ast.Name) \
                and _src(st.items[0].context_expr) == f"{buffarg}.raw.getbuffer()":
            # memoryview.__exit__ releases the view and suppresses nothing: same as straight-line code
            out.append(ast.copy_location(ast.Assign(targets=[st.items[0].optional_vars],
                                                    value=st.items[0].context_expr, lineno=st.lineno), st))
            out += flatten(st.body, mod, cls, buffarg, depth, counter)
            continue
        call, target = None, None
        if isinstance(st, ast.Expr) and isinstance(st.value, ast.Call):
            call = st.value
        elif isinstance(st, ast.Assign) and len(st.targets) == 1 and isinstance(st.value, ast.Call):
            call, target = st.value, st.targets[0]
        if call is not None:
            h, is_m = resolve_helper(call, mod, cls)
            if h is not None and may_raise(ast.Module(body=h.body, type_ignores=[]), mod, cls, depth + 1) \
                    and not any(may_raise(x, mod, cls, depth) for x in list(call.args) + [k.value for k in call.keywords]):
                if depth >= MAX_INLINE:
                    raise Unrecognised(f"helpers nested deeper than {MAX_INLINE}: {h.name}")
                body = inline_call(call, target, h, is_m, next(counter))
                if body is None:
                    raise Unrecognised(f"helper {h.name} can raise and returns early")
                out += flatten(body, mod, cls, buffarg, depth + 1, counter)
                continue
        out.append(st)
    return out


# ---------------------------------------------------------------- locals
class Locals:
    """definitions of locals / self attributes in straight-line code, replaced at the point of use"""

    def __init__(self, flat):
        top = {}
        for st in flat:
            if isinstance(st, ast.Assign):
                for t in st.targets:
                    for e in (t.elts if isinstance(t, (ast.Tuple, ast.List)) else [t]):
                        k = self.key(e)
                        if k:
                            top[k] = top.get(k, 0) + 1
        allst = {}
        for st in flat:
            for x in _walk_same_scope(st):
                k = None
                if isinstance(x, ast.Name) and isinstance(x.ctx, (ast.Store, ast.Del)):
                    k = x.id
                elif isinstance(x, ast.Attribute) and isinstance(x.ctx, (ast.Store, ast.Del)) and _is_self_attr(x):
                    k = "self." + x.attr
                if k:
                    allst[k] = allst.get(k, 0) + 1
        self.volatile = {k for k, n in allst.items() if n != top.get(k, 0)}   # also assigned under control flow
        self.defs = {}          # key -> (resolved expr, deps, position)

    @staticmethod
    def key(e):
        if isinstance(e, ast.Name):
            return e.id
        if _is_self_attr(e):
            return "self." + e.attr
        return None

    def deps(self, expr):
        d = set()
        for x in _walk_same_scope(expr):
            if isinstance(x, ast.Name):
                d.add(x.id)
            elif _is_self_attr(x):
                d.add("self." + x.attr)
        return d

    def resolve(self, expr, attrs=False):
        """replace local names (and, if attrs, self attributes) by their current definitions"""
        env = self

        class R(ast.NodeTransformer):
            def visit_Name(self, node):
                if isinstance(node.ctx, ast.Load) and node.id in env.defs:
                    return copy.deepcopy(env.defs[node.id][0])
                return node

            def visit_Attribute(self, node):
                if attrs and isinstance(node.ctx, ast.Load) and _is_self_attr(node) and "self." + node.attr in env.defs:
                    return copy.deepcopy(env.defs["self." + node.attr][0])
                return self.generic_visit(node)
        return R().visit(copy.deepcopy(expr))

    def assign(self, k, value, pos):
        for other in [o for o, (_, dp, _) in self.defs.items() if k in dp]:
            del self.defs[other]                      # what they read has changed
        self.defs.pop(k, None)
        if value is None or k in self.volatile:
            return
        r = self.resolve(value)
        dp = self.deps(r)
        if k in dp or dp & self.volatile - {"self"}:
            return
        self.defs[k] = (r, dp, pos)


# ---------------------------------------------------------------- layout of the struct
def field_layout(fmt, names):
    """byte offset and size of every unpacked field of a little-endian standard-size struct format"""
    items = re.findall(r"(\d*)([a-zA-Z?])", fmt)
    if "".join(a + b for a, b in items) != fmt:
        raise Unrecognised(f"format {fmt!r}")
    out, off = [], 0
    for cnt, ch in items:
        n = int(cnt) if cnt else 1
        if ch == "s":
            out.append((off, n, "s")); off += n
        else:
            sz = struct.calcsize("<" + ch)
            for _ in range(n):
                out.append((off, sz, ch)); off += sz
    if off != struct.calcsize("<" + fmt) or len(out) != len(names):
        raise Unrecognised(f"format {fmt!r} has {len(out)} fields, tuple has {len(names)} targets")
    return {nm: lay for nm, lay in zip(names, out)}, off


# ---------------------------------------------------------------- the magic test
def magic_clauses(test, mod, magic_len):
    """disjunction of tests on self.magic -> {byte position: sorted allowed values} (raise iff some byte is not allowed)"""
    allowed = {}

    def restrict(i, vals):
        if not 0 <= i < magic_len:
            raise Unrecognised(f"magic index {i} outside the {magic_len} unpacked bytes")
        vals = set(vals)
        if not all(isinstance(v, int) and 0 <= v < 256 for v in vals):
            raise Unrecognised("magic byte values must be 0..255")
        allowed[i] = (allowed[i] & vals) if i in allowed else vals

    values = test.values if isinstance(test, ast.BoolOp) and isinstance(test.op, ast.Or) else [test]
    for c in values:
        if not (isinstance(c, ast.Compare) and len(c.ops) == 1 and isinstance(c.left, ast.Subscript)
                and _is_self_attr(c.left.value, "magic")):
            raise Unrecognised("magic clause: " + _src(c))
        sl, op, rhs = c.left.slice, c.ops[0], c.comparators[0]
        if isinstance(sl, ast.Slice):
            lo = const_int(sl.lower, mod) if sl.lower is not None else 0
            if sl.upper is None or sl.step is not None:
                raise Unrecognised("magic slice: " + _src(c))
            hi_ = const_int(sl.upper, mod)
            if not 0 <= lo < hi_ <= magic_len:
                raise Unrecognised("magic slice bounds: " + _src(c))
            if isinstance(op, ast.NotEq):
                strings = [const_value(rhs, mod)]
            elif isinstance(op, ast.NotIn) and isinstance(rhs, (ast.List, ast.Tuple, ast.Set)):
                strings = [const_value(e, mod) for e in rhs.elts]
            else:
                raise Unrecognised("magic slice clause: " + _src(c))
            if not strings or not all(isinstance(s_, bytes) and len(s_) == hi_ - lo for s_ in strings):
                raise Unrecognised("magic slice compared with strings of another length: " + _src(c))
            per = [sorted({s_[j] for s_ in strings}) for j in range(hi_ - lo)]
            prod = 1
            for p_ in per:
                prod *= len(p_)
            if prod != len(set(strings)):
                raise Unrecognised("magic slice set is not a product of per-byte sets: " + _src(c))
            for j, p_ in enumerate(per):
                restrict(lo + j, p_)
        else:
            i = const_int(sl, mod)
            if i < 0:
                i += magic_len
            if isinstance(op, ast.NotIn) and isinstance(rhs, (ast.List, ast.Tuple, ast.Set)):
                restrict(i, [const_int(e, mod) for e in rhs.elts])
            elif isinstance(op, ast.NotEq):
                restrict(i, [const_int(rhs, mod)])
            else:
                raise Unrecognised("magic byte clause: " + _src(c))
    return [("byteNotIn", i, sorted(allowed[i])) for i in sorted(allowed)]


# ---------------------------------------------------------------- DalvikPacker.__init__
def packer_table(dp, mod):
    targ = dp.args.args[1].arg
    if any(isinstance(x, ast.Name) and x.id == targ and isinstance(x.ctx, ast.Store) for x in _walk_same_scope(dp)):
        raise Unrecognised("DalvikPacker.__init__ assigns to its parameter")

    def action(stmts):
        if any(isinstance(x, ast.Raise) for s in stmts for x in _walk_same_scope(s)):
            if not always_raises(stmts):
                raise Unrecognised("DalvikPacker branch raises conditionally")
            e = raise_exc(stmts)
            if e == "NotImplementedError":
                return "notImplemented"
            if e == "ValueError":
                return "valueError"
            raise Unrecognised("DalvikPacker raises " + e)
        if any(isinstance(s, (ast.If, ast.For, ast.While, ast.Try, ast.With, ast.Return)) for s in stmts):
            raise Unrecognised("DalvikPacker branch with control flow")
        for s in stmts:
            if (isinstance(s, ast.Assign) and _is_self_attr(s.targets[0], "endian_tag")
                    and isinstance(s.value, ast.Constant) and s.value.value == "<"):
                return "little"
        raise Unrecognised("DalvikPacker branch: " + "; ".join(_src(s) for s in stmts))

    cases = []

    def parse(stmts):
        """-> action taken when no earlier case matched"""
        for k, st in enumerate(stmts):
            if isinstance(st, ast.If):
                t = st.test
                if not (isinstance(t, ast.Compare) and len(t.ops) == 1 and isinstance(t.ops[0], ast.Eq)):
                    raise Unrecognised("DalvikPacker test: " + _src(t))
                a, b = t.left, t.comparators[0]
                if isinstance(b, ast.Name) and b.id == targ:
                    a, b = b, a
                if not (isinstance(a, ast.Name) and a.id == targ):
                    raise Unrecognised("DalvikPacker test: " + _src(t))
                act = action(st.body)
                cases.append((const_int(b, mod), act))
                if st.orelse:
                    rest_has_raise = any(isinstance(x, ast.Raise) for s in stmts[k + 1:] for x in _walk_same_scope(s))
                    if rest_has_raise or any(isinstance(s, ast.If) for s in stmts[k + 1:]):
                        raise Unrecognised("DalvikPacker: guards after an if/else")
                    return parse(st.orelse) if (len(st.orelse) == 1 and isinstance(st.orelse[0], ast.If)) \
                        else action(st.orelse)
                if act == "little":
                    raise Unrecognised("DalvikPacker: an accepting branch without else falls into later tests")
                continue                       # body always raises: the rest is the else part
            if any(isinstance(x, ast.Raise) for x in _walk_same_scope(st)):
                if isinstance(st, ast.Raise) and all(isinstance(s, ast.Expr) for s in stmts[:k] if not isinstance(s, ast.If)):
                    return action([s for s in stmts[:k + 1] if not isinstance(s, ast.If)])
                raise Unrecognised("DalvikPacker: raising statement outside the chain: " + _src(st))
        raise Unrecognised("DalvikPacker: an unknown endian tag falls through")

    els = parse(dp.body)
    return cases, els


# ---------------------------------------------------------------- HeaderItem.__init__
def extract(repo):
    path = os.path.join(repo, SRC)
    tree = ast.parse(open(path, encoding="utf-8").read())
    mod = Module(tree)
    if "HeaderItem" not in mod.classes or "DalvikPacker" not in mod.classes:
        raise Unrecognised("class HeaderItem / DalvikPacker not found")
    hi = mod.classes["HeaderItem"]
    init, glen = mod.method(hi, "__init__"), mod.method(hi, "get_length")
    if init is None or glen is None:
        raise Unrecognised("HeaderItem.__init__ / get_length not found")
    rets = [s for s in _walk_same_scope(glen) if isinstance(s, ast.Return)]
    if len(rets) != 1 or rets[0] is not glen.body[-1]:
        raise Unrecognised("HeaderItem.get_length: a single return expected")
    info = {"headerLength": const_int(rets[0].value, mod), "order": []}
    layout = None
    if len(init.args.args) < 4:
        raise Unrecognised("HeaderItem.__init__(self, size, buff, cm) expected")
    buffarg = init.args.args[2].arg      # (self, size, buff, cm)
    nbytes_src = f"{buffarg}.raw.getbuffer().nbytes"

    flat = flatten(init.body, mod, hi, buffarg)
    loc = Locals(flat)

    def need_unpacked(field):
        if layout is None or field not in layout:
            raise Unrecognised(f"guard on self.{field} before/without the header unpack")
        off, sz, ch = layout[field]
        if ch not in "IL" or sz != 4:
            raise Unrecognised(f"self.{field} is not an unsigned 32-bit field ({ch})")
        return off

    def endian_read(expr):
        """offset OFF if expr reads the little-endian u32 at OFF of the buffer, with how"""
        how = "unpack"
        e = expr
        if isinstance(e, ast.Subscript) and isinstance(e.slice, ast.Constant) and e.slice.value == 0:
            e = e.value                                                  # unpack(...)[0]
        elif isinstance(e, ast.Call) and _src(e.func) == "int.from_bytes":
            kw = {k.arg: k.value for k in e.keywords}
            args = list(e.args)
            order = args[1] if len(args) > 1 else kw.pop("byteorder", None)
            signed = kw.pop("signed", None)
            if len(args) not in (1, 2) or kw or order is None or const_value(order, mod) != "little" \
                    or (signed is not None and not (isinstance(signed, ast.Constant) and signed.value is False)):
                raise Unrecognised("endian tag read: " + _src(expr))
            how, e = "from_bytes", args[0]
            ra = e
            e = None
        else:
            raise Unrecognised("endian tag read: " + _src(expr))
        if how == "unpack":
            if not (isinstance(e, ast.Call) and _src(e.func) in ("unpack", "struct.unpack") and len(e.args) == 2
                    and not e.keywords and const_value(e.args[0], mod) == "<I"):
                raise Unrecognised("endian tag read: " + _src(expr))
            ra = e.args[1]
        if not (isinstance(ra, ast.Call) and isinstance(ra.func, ast.Name) and ra.func.id == "read_at"
                and len(ra.args) == 3 and not ra.keywords and isinstance(ra.args[0], ast.Name) and ra.args[0].id == buffarg
                and const_int(ra.args[2], mod) == 4):
            raise Unrecognised("endian tag read: " + _src(expr))
        return const_int(ra.args[1], mod), how

    def checksummed_from(expr):
        """K if expr denotes the bytes of the buffer from self.offset + K to its end"""
        start = None
        if (isinstance(expr, ast.Call) and isinstance(expr.func, ast.Name) and expr.func.id == "read_at"
                and len(expr.args) == 2 and not expr.keywords and _src(expr.args[0]) == buffarg):
            start = expr.args[1]
        elif (isinstance(expr, ast.Subscript) and _src(expr.value) == f"{buffarg}.raw.getbuffer()"
              and isinstance(expr.slice, ast.Slice) and expr.slice.upper is None and expr.slice.step is None
              and expr.slice.lower is not None):
            start = expr.slice.lower
        if not (isinstance(start, ast.BinOp) and isinstance(start.op, ast.Add)):
            raise Unrecognised("checksummed bytes: " + _src(expr))
        a, b = start.left, start.right
        if _is_self_attr(b, "offset"):
            a, b = b, a
        if not _is_self_attr(a, "offset"):
            raise Unrecognised("checksummed bytes: " + _src(expr))
        return const_int(b, mod)

    for pos, st in enumerate(flat):
        # --- plain assignments: remember definitions; recognise DalvikPacker(...) and the header unpack
        if isinstance(st, ast.Assign) and len(st.targets) == 1:
            tgt, val = st.targets[0], st.value
            # cm.packer = DalvikPacker(<endian tag>)
            if isinstance(val, ast.Call) and isinstance(val.func, ast.Name) and val.func.id == "DalvikPacker":
                if len(val.args) != 1 or val.keywords:
                    raise Unrecognised("DalvikPacker call: " + _src(st))
                arg = loc.resolve(val.args[0], attrs=True)
                src_key = loc.key(val.args[0])
                dpos = loc.defs[src_key][2] if src_key in loc.defs else len(info["order"])
                off, how = endian_read(arg)
                if dpos != len(info["order"]):
                    raise Unrecognised("a guard stands between the endian tag read and DalvikPacker(...)")
                if how == "from_bytes" and not ("size" in info["order"] and info.get("sizeCmp") == "lt"
                                                and info["headerLength"] >= off + 4):
                    raise Unrecognised("int.from_bytes endian read without a preceding size guard")
                info["endianOff"] = off
                info["order"].append("endian")
                continue
            # (self.magic, ..., self.data_off) = cm.packer['8sI20s20I'].unpack(buff.read(112))
            if (isinstance(tgt, ast.Tuple) and len(tgt.elts) > 1 and isinstance(val, ast.Call)
                    and isinstance(val.func, ast.Attribute) and val.func.attr == "unpack"
                    and isinstance(val.func.value, ast.Subscript) and len(val.args) == 1):
                rd = val.args[0]
                if not (isinstance(rd, ast.Call) and isinstance(rd.func, ast.Attribute) and rd.func.attr == "read"
                        and isinstance(rd.func.value, ast.Name) and rd.func.value.id == buffarg and len(rd.args) == 1):
                    raise Unrecognised("header unpack: " + _src(st))
                fmt = const_value(loc.resolve(val.func.value.slice), mod)
                if not isinstance(fmt, str):
                    raise Unrecognised("header unpack format: " + _src(st))
                names = []
                for e in tgt.elts:
                    if _is_self_attr(e):
                        names.append(e.attr)
                    elif isinstance(e, ast.Name):
                        names.append("_" + e.id.lstrip("_"))     # a local (the second endian_tag)
                    else:
                        raise Unrecognised("header unpack target: " + _src(e))
                    loc.assign(loc.key(e), None, len(info["order"]))
                layout, total = field_layout(fmt, names)
                info["unpackFmt"] = fmt
                info["unpackSize"] = const_int(loc.resolve(rd.args[0]), mod)
                info["fmtSize"] = total
                info["fields"] = [(n, layout[n][0], layout[n][1], layout[n][2]) for n in names]
                info["order"].append("unpack")
                continue
            if may_raise(st, mod, hi):
                raise Unrecognised("assignment that can raise: line %d: %s" % (st.lineno, _src(st)[:120]))
            elts = tgt.elts if isinstance(tgt, (ast.Tuple, ast.List)) else [tgt]
            if len(elts) == 1:
                v = val
                if isinstance(tgt, (ast.Tuple, ast.List)):       # (x,) = E   ==   x = E[0] for a 1-sequence
                    v = ast.Subscript(value=val, slice=ast.Constant(value=0), ctx=ast.Load())
                loc.assign(loc.key(elts[0]), v, len(info["order"]))
            else:
                for e in elts:
                    loc.assign(loc.key(e), None, len(info["order"]))
            continue
        if not may_raise(st, mod, hi):
            continue                        # warnings, the version `try`, logging (their stores are volatile)
        if not isinstance(st, ast.If) or st.orelse or not always_raises(st.body) or may_raise(st.test, mod, hi):
            raise Unrecognised("statement that can raise, not a plain guard: line %d: %s"
                               % (st.lineno, _src(st).split("\n")[0][:120]))
        exc = raise_exc(st.body)
        t = loc.resolve(st.test)
        # --- magic: a disjunction of tests on self.magic
        if any(_is_self_attr(x, "magic") for x in _walk_same_scope(t)):
            need = layout and layout.get("magic")
            if not need or need[2] != "s":
                raise Unrecognised("magic guard before/without the header unpack")
            info["magicOff"], info["magicLen"] = need[0], need[1]
            info["magicClauses"] = magic_clauses(t, mod, need[1])
            info["magicExc"] = exc
            info["order"].append("magic")
            continue
        if not (isinstance(t, ast.Compare) and len(t.ops) == 1 and type(t.ops[0]) in CMP):
            raise Unrecognised("guard: " + _src(t))
        op = CMP[type(t.ops[0])]
        lhs, rhs = t.left, t.comparators[0]
        # --- size: buff.raw.getbuffer().nbytes < self.get_length()
        if nbytes_src in (_src(lhs), _src(rhs)):
            if _src(rhs) == nbytes_src:
                lhs, rhs, op = rhs, lhs, FLIP[op]
            if _src(rhs) == "self.get_length()":
                pass
            else:
                n = const_int(rhs, mod)
                if n != info["headerLength"]:
                    raise Unrecognised("size guard against a constant other than get_length()")
            info["sizeCmp"], info["sizeExc"] = op, exc
            info["order"].append("size")
            continue
        # --- checksum: zlib.adler32(<bytes from self.offset + K>) != self.checksum
        if "adler32" in _src(t):
            if "adler32" in _src(rhs):
                lhs, rhs, op = rhs, lhs, FLIP[op]
            if not (isinstance(lhs, ast.Call) and _src(lhs.func) == "zlib.adler32" and len(lhs.args) == 1
                    and not lhs.keywords and _is_self_attr(rhs)):
                raise Unrecognised("checksum guard: " + _src(t))
            info["checksumStart"] = checksummed_from(lhs.args[0])
            info["checksumOff"] = need_unpacked(rhs.attr)
            info["checksumField"] = rhs.attr
            info["checksumCmp"], info["checksumExc"] = op, exc
            info["order"].append("checksum")
            continue
        # --- self.<field> <op> <const>
        if _is_self_attr(rhs) and not _is_self_attr(lhs):
            lhs, rhs, op = rhs, lhs, FLIP[op]
        if _is_self_attr(lhs) and lhs.attr in ("header_size", "type_ids_size", "proto_ids_size"):
            key = {"header_size": "headerSize", "type_ids_size": "typeIds", "proto_ids_size": "protoIds"}[lhs.attr]
            if key in info["order"]:
                raise Unrecognised("two guards on self." + lhs.attr)
            info[key + "Off"] = need_unpacked(lhs.attr)
            info[key + "Cmp"], info[key + "Const"], info[key + "Exc"] = op, const_int(rhs, mod), exc
            info["order"].append(key)
            continue
        raise Unrecognised("guard not modelled: " + _src(t))

    for c in ("size", "endian", "unpack", "magic", "checksum"):
        if info["order"].count(c) > 1:
            raise Unrecognised(f"guard {c} occurs twice")

    dp = mod.method(mod.classes["DalvikPacker"], "__init__")
    if dp is None or len(dp.args.args) != 2:
        raise Unrecognised("DalvikPacker.__init__(self, endian_tag) expected")
    info["endianCases"], info["endianElse"] = packer_table(dp, mod)

    for k in ("endianOff", "unpackFmt"):
        if k not in info:
            raise Unrecognised(f"{k} not found in HeaderItem.__init__")
    return info


ALL = ["size", "endian", "unpack", "magic", "checksum", "headerSize", "typeIds", "protoIds"]
DEFAULTS = {  # a guard that disappeared from the source: never fires (Cmp.lt against 0 is false for naturals)
    "sizeCmp": "lt", "sizeExc": "-", "magicOff": 0, "magicLen": 0, "magicClauses": [], "magicExc": "-",
    "checksumStart": 0, "checksumOff": 0, "checksumCmp": "lt", "checksumExc": "-", "checksumField": "-",
    "headerSizeOff": 0, "headerSizeCmp": "lt", "headerSizeConst": 0, "headerSizeExc": "-",
    "typeIdsOff": 0, "typeIdsCmp": "lt", "typeIdsConst": 0, "typeIdsExc": "-",
    "protoIdsOff": 0, "protoIdsCmp": "lt", "protoIdsConst": 0, "protoIdsExc": "-",
    "unpackSize": 0, "fmtSize": 0, "fields": [],
}


def lean_list(xs):
    return "[" + ", ".join(xs) + "]"


def generate(repo):
    info = extract(repo)
    g = dict(DEFAULTS)
    g.update(info)
    L = []
    w = L.append
    w("/- GENERATED by gen/header.py from androguard/core/dex/__init__.py (HeaderItem.__init__,")
    w("   HeaderItem.get_length, DalvikPacker.__init__). Do not edit. -/")
    w("import AgVerif.Model.HeaderTypes")
    w("namespace AgVerif.Gen.Header")
    w("open AgVerif.Header")
    w("")
    w("/-- statements of HeaderItem.__init__ that can raise, in source order -/")
    w("def checkOrder : List Check := " + lean_list("." + c for c in g["order"]))
    w("")
    w(f"def headerLength : Nat := {g['headerLength']}        -- HeaderItem.get_length")
    w(f"def sizeCmp : Cmp := .{g['sizeCmp']}                 -- raise when nbytes <cmp> headerLength")
    w(f"def endianOff : Nat := {g['endianOff']}              -- read_at(buff, endianOff, 4)")
    w("def endianCases : List (Nat × EndianAction) := " +
      lean_list(f"(0x{c:08x}, .{a})" for c, a in g["endianCases"]))
    w(f"def endianElse : EndianAction := .{g['endianElse']}")
    w(f"def unpackFmt : String := \"{g['unpackFmt']}\"")
    w(f"def unpackSize : Nat := {g['unpackSize']}            -- buff.read(unpackSize)")
    w(f"def fmtSize : Nat := {g['fmtSize']}                  -- struct.calcsize('<' + unpackFmt)")
    w(f"def magicOff : Nat := {g['magicOff']}")
    w(f"def magicLen : Nat := {g['magicLen']}")
    cl = []
    for c in g["magicClauses"]:
        if c[0] == "sliceNe":
            cl.append(f".sliceNe {c[1]} {c[2]} " + lean_list(f"0x{b:02x}" for b in c[3]))
        else:
            cl.append(f".byteNotIn {c[1]} " + lean_list(f"0x{b:02x}" for b in c[2]))
    w("def magicClauses : List MagicClause := " + lean_list(cl))
    w(f"def checksumOff : Nat := {g['checksumOff']}          -- offset of self.{g['checksumField']}")
    w(f"def checksumStart : Nat := {g['checksumStart']}      -- zlib.adler32(read_at(buff, self.offset + checksumStart))")
    w(f"def checksumCmp : Cmp := .{g['checksumCmp']}")
    for key, fld in (("headerSize", "header_size"), ("typeIds", "type_ids_size"), ("protoIds", "proto_ids_size")):
        w(f"def {key}Off : Nat := {g[key + 'Off']}          -- offset of self.{fld}")
        w(f"def {key}Cmp : Cmp := .{g[key + 'Cmp']}")
        w(f"def {key}Const : Nat := 0x{g[key + 'Const']:x}")
    w("")
    w("/-- exception class raised by each guard (for the correspondence) -/")
    w("def excName : Check → String")
    for c, k in (("size", "sizeExc"), ("magic", "magicExc"), ("checksum", "checksumExc"),
                 ("headerSize", "headerSizeExc"), ("typeIds", "typeIdsExc"), ("protoIds", "protoIdsExc")):
        w(f"  | .{c} => \"{g[k]}\"")
    w("  | .endian => \"-\"")
    w("  | .unpack => \"error\"")
    w("")
    w("/-- unpacked 32-bit fields: (name, byte offset), in tuple order -/")
    w("def u32Fields : List (String × Nat) := " +
      lean_list(f"(\"{n}\", {off})" for n, off, sz, ch in g["fields"] if ch != "s"))
    w("def bytesFields : List (String × Nat × Nat) := " +
      lean_list(f"(\"{n}\", {off}, {sz})" for n, off, sz, ch in g["fields"] if ch == "s"))
    w("")
    w("end AgVerif.Gen.Header")
    return {"Header": "\n".join(L) + "\n"}


if __name__ == "__main__":
    import sys
    print(generate(sys.argv[1] if len(sys.argv) > 1 else "/repo")["Header"])
