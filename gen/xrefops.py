"""Translator for C13..C16: the opcode tests of `Analysis._create_xref` and the `REF_TYPE` enum.

androguard/core/analysis/analysis.py   ->   lean/AgVerif/Gen/XrefOps.lean
Read from the AST of the working tree (no import).

What is translated (every expression is re-generated from the source text, nothing is hard-wired):
  * the `if / elif` chain on `op_value` inside the instruction loop of `_create_xref`; each branch is
    recognised by what its body does (`add_xref_const_class` -> class usage, `_resolve_method` ->
    invoke, `self.strings` -> string, `add_field_xref_read` -> field) and its *test expression* is
    translated to a Lean `Bool` expression over `op : Nat`; the chain order is kept in `kind`;
  * the inner tests `op_value == 0x1C` / `op_value == 0x22` guarding `add_xref_const_class` /
    `add_xref_new_instance`, and the read/write split of the field branch;
  * the members of `REF_TYPE` (name, value).
Read semantically where local reasoning proves it equivalent (briefs/robust_translators.md): a tuple/set for a
list in `in` tests; module-level int constants for literals; a test `f(op_value)` / `self.f(op_value)` whose
callee (module-level function or method of Analysis) is a single `return <test>` is inlined; a branch body
that delegates to a helper of this module is recognised through the helper (its calls and inner tests are
read one level deep, with the parameter that receives `op_value`).
A shape the translator does not recognise raises (recorded by the framework as a broken obligation).
"""
import ast
import os

PATH = ("androguard", "core", "analysis", "analysis.py")


class _Env:
    """what local reasoning may look up: module-level int constants, module-level functions and the
    methods of `Analysis` (for following a call one level)"""

    def __init__(self, tree, cls):
        self.consts, self.funcs, self.methods = {}, {}, {}
        for n in tree.body:
            if isinstance(n, ast.FunctionDef):
                self.funcs[n.name] = n
            if isinstance(n, ast.Assign) and len(n.targets) == 1 and isinstance(n.targets[0], ast.Name):
                try:
                    v = ast.literal_eval(n.value)
                except Exception:  # noqa
                    continue
                if isinstance(v, int) and not isinstance(v, bool):
                    self.consts[n.targets[0].id] = v
        for n in cls.body:
            if isinstance(n, ast.FunctionDef):
                self.methods[n.name] = n

    def resolve(self, call):
        """(FunctionDef, parameter names without self) of a call to a module-level function or to a method
        of Analysis through `self`; None when the callee is not defined in this module"""
        f = call.func
        if isinstance(f, ast.Name) and f.id in self.funcs:
            d = self.funcs[f.id]
            return d, [a.arg for a in d.args.posonlyargs + d.args.args]
        if isinstance(f, ast.Attribute) and isinstance(f.value, ast.Name) and f.value.id == "self" and f.attr in self.methods:
            d = self.methods[f.attr]
            return d, [a.arg for a in d.args.posonlyargs + d.args.args][1:]
        return None

    def param_for(self, call, var):
        """the callee's parameter that receives the caller's variable `var` (passed as a bare name), or None"""
        r = self.resolve(call)
        if r is None:
            return None
        d, params = r
        for i, a in enumerate(call.args):
            if isinstance(a, ast.Name) and a.id == var and i < len(params):
                return params[i]
        for k in call.keywords:
            if isinstance(k.value, ast.Name) and k.value.id == var and k.arg in params:
                return k.arg
        return None


def _pure_return(d):
    """the expression of a function whose body is (docstring +) a single `return <expr>`; else None"""
    body = list(d.body)
    if body and isinstance(body[0], ast.Expr) and isinstance(body[0].value, ast.Constant) and isinstance(body[0].value.value, str):
        body = body[1:]
    if len(body) == 1 and isinstance(body[0], ast.Return) and body[0].value is not None:
        return body[0].value
    return None


def _expr(e, var="op_value", env=None, depth=0):
    """Python test over `var`, int literals and module-level int constants -> Lean Bool expression over
    `op`.  A call `f(var)` to a module-level function / `self.f(var)` to a method of Analysis whose body is
    a single `return <test>` is inlined (one level)."""
    if isinstance(e, ast.BoolOp):
        op = " || " if isinstance(e.op, ast.Or) else " && "
        return "(" + op.join(_expr(v, var, env, depth) for v in e.values) + ")"
    if isinstance(e, ast.UnaryOp) and isinstance(e.op, ast.Not):
        return "(!" + _expr(e.operand, var, env, depth) + ")"
    if isinstance(e, ast.Compare):
        parts = []
        left = e.left
        for o, right in zip(e.ops, e.comparators):
            parts.append(_cmp(left, o, right, var, env))
            left = right
        return "(" + " && ".join(parts) + ")"
    if isinstance(e, ast.Call) and env is not None and depth == 0 and not e.keywords and len(e.args) == 1 \
            and isinstance(e.args[0], ast.Name) and e.args[0].id == var:
        r = env.resolve(e)
        if r is not None and len(r[1]) == 1:
            body = _pure_return(r[0])
            if body is not None:
                return _expr(body, r[1][0], env, depth + 1)
    raise ValueError("unsupported test expression: " + ast.dump(e))


def _atom(a, var, env=None):
    if isinstance(a, ast.Name) and a.id == var:
        return "op"
    if isinstance(a, ast.Name) and env is not None and a.id in env.consts and env.consts[a.id] >= 0:
        return str(env.consts[a.id])
    if isinstance(a, ast.Constant) and isinstance(a.value, int) and not isinstance(a.value, bool) and a.value >= 0:
        return str(a.value)
    raise ValueError("unsupported operand: " + ast.dump(a))


def _cmp(l, o, r, var, env=None):
    if isinstance(o, (ast.In, ast.NotIn)):
        if not isinstance(r, (ast.List, ast.Tuple, ast.Set)):
            raise ValueError("unsupported `in` operand: " + ast.dump(r))
        body = "(" + " || ".join("%s == %s" % (_atom(l, var, env), _atom(x, var, env)) for x in r.elts) + ")" if r.elts else "false"
        return body if isinstance(o, ast.In) else "(!" + body + ")"
    sym = {ast.LtE: "≤", ast.Lt: "<", ast.GtE: "≥", ast.Gt: ">"}
    if type(o) in sym:
        return "decide (%s %s %s)" % (_atom(l, var, env), sym[type(o)], _atom(r, var, env))
    if isinstance(o, ast.Eq):
        return "%s == %s" % (_atom(l, var, env), _atom(r, var, env))
    if isinstance(o, ast.NotEq):
        return "%s != %s" % (_atom(l, var, env), _atom(r, var, env))
    raise ValueError("unsupported comparison: " + ast.dump(o))


def _calls(nodes):
    names = set()
    for n in nodes:
        for x in ast.walk(n):
            if isinstance(x, ast.Call):
                f = x.func
                if isinstance(f, ast.Attribute):
                    names.add(f.attr)
                elif isinstance(f, ast.Name):
                    names.add(f.id)
            if isinstance(x, ast.Attribute) and x.attr == "strings":
                names.add("self.strings")
    return names


def _expanded(body, var, env):
    """the statements of a branch and, one level deep, the bodies of the helpers of this module it calls:
    [(statements, name of the opcode variable there or None)]"""
    out = [(list(body), var)]
    for n in body:
        for x in ast.walk(n):
            if isinstance(x, ast.Call):
                r = env.resolve(x)
                if r is not None:
                    out.append((list(r[0].body), env.param_for(x, var)))
    return out


def _mentions(e, var="op_value"):
    return var is not None and any(isinstance(x, ast.Name) and x.id == var for x in ast.walk(e))


def extract(repo):
    path = os.path.join(repo, *PATH)
    tree = ast.parse(open(path).read(), path)
    ref_types, fn, cls = None, None, None
    for node in tree.body:
        if isinstance(node, ast.ClassDef) and node.name == "REF_TYPE":
            ref_types = []
            for st in node.body:
                if isinstance(st, ast.Assign) and len(st.targets) == 1 and isinstance(st.targets[0], ast.Name):
                    ref_types.append((st.targets[0].id, ast.literal_eval(st.value)))
        if isinstance(node, ast.ClassDef) and node.name == "Analysis":
            cls = node
            for st in node.body:
                if isinstance(st, ast.FunctionDef) and st.name == "_create_xref":
                    fn = st
    if not ref_types or any(not isinstance(v, int) for _, v in ref_types):
        raise ValueError("REF_TYPE is not an enum of int literals")
    if fn is None:
        raise ValueError("Analysis._create_xref not found")
    env = _Env(tree, cls)
    # the instruction loop: the innermost `for` whose body assigns op_value
    loop = None
    for x in ast.walk(fn):
        if isinstance(x, ast.For) and any(isinstance(s, ast.Assign) and isinstance(s.targets[0], ast.Name)
                                          and s.targets[0].id == "op_value" for s in x.body):
            loop = x
    if loop is None:
        raise ValueError("instruction loop (op_value = ...) not found in _create_xref")
    chains = [s for s in loop.body if isinstance(s, ast.If) and _mentions(s.test)]
    if len(chains) != 1:
        raise ValueError("expected exactly one if/elif chain on op_value in the instruction loop, found %d" % len(chains))
    branches, node = [], chains[0]
    while True:
        branches.append((node.test, node.body))
        if len(node.orelse) == 1 and isinstance(node.orelse[0], ast.If) and _mentions(node.orelse[0].test):
            node = node.orelse[0]
            continue
        if node.orelse:
            raise ValueError("the op_value chain has a trailing else branch")
        break
    labelled = []
    for test, body in branches:
        exp = _expanded(body, "op_value", env)
        c = set()
        for stmts, _ in exp:
            c |= _calls(stmts)
        if "add_xref_const_class" in c and "add_xref_new_instance" in c:
            lab = "classUse"
        elif "_resolve_method" in c:
            lab = "invoke"
        elif "add_field_xref_read" in c and "add_field_xref_write" in c:
            lab = "field"
        elif "self.strings" in c:
            lab = "string"
        else:
            raise ValueError("unrecognised branch of the op_value chain: " + ast.unparse(test))
        labelled.append((lab, test, exp))
    labs = [l for l, _, _ in labelled]
    if sorted(labs) != ["classUse", "field", "invoke", "string"]:
        raise ValueError("op_value chain branches are %r" % labs)
    inner = {}
    for lab, test, exp in labelled:
        for stmts, var in exp:
            if var is None:
                continue
            for x in ast.walk(ast.Module(body=stmts, type_ignores=[])):
                if isinstance(x, ast.If) and _mentions(x.test, var):
                    c = _calls(x.body)
                    if lab == "classUse" and c == {"add_xref_const_class"}:
                        inner.setdefault("constClass", (x.test, var))
                    elif lab == "classUse" and c == {"add_xref_new_instance"}:
                        inner.setdefault("newInstance", (x.test, var))
                    elif lab == "field" and "add_field_xref_read" in c and "add_field_xref_write" not in c:
                        inner.setdefault("fieldRead", (x.test, var))
                        w = _calls(x.orelse)
                        if "add_field_xref_write" not in w:
                            raise ValueError("field branch: the else part does not record a write")
    for k in ("constClass", "newInstance", "fieldRead"):
        if k not in inner:
            raise ValueError("inner test for %s not found" % k)
    return ref_types, labelled, inner, env


CODE = {"classUse": 1, "invoke": 2, "string": 3, "field": 4}
FN = {"classUse": "isClassUse", "invoke": "isInvoke", "string": "isString", "field": "isField"}


def generate(repo):
    ref_types, labelled, inner, env = extract(repo)
    out = ["/- GENERATED by gen/xrefops.py from androguard/core/analysis/analysis.py"
           " (Analysis._create_xref, REF_TYPE). Do not edit. -/",
           "namespace AgVerif.Gen.XrefOps", ""]
    for lab, test, _ in labelled:
        out.append("/-- test of the %s branch of the chain -/" % lab)
        out.append("def %s (op : Nat) : Bool := %s" % (FN[lab], _expr(test, "op_value", env)))
        out.append("")
    for k, name in (("constClass", "isConstClass"), ("newInstance", "isNewInstance"), ("fieldRead", "isFieldRead")):
        out.append("/-- inner test `%s` -/" % k)
        out.append("def %s (op : Nat) : Bool := %s" % (name, _expr(inner[k][0], inner[k][1], env)))
        out.append("")
    out.append("/-- the `if / elif` chain of `_create_xref`, in source order:"
               " 1 class usage, 2 invoke, 3 string, 4 field, 0 no branch -/")
    chain = " else ".join("if %s op then %d" % (FN[lab], CODE[lab]) for lab, _, _ in labelled)
    out.append("def kind (op : Nat) : Nat := %s else 0" % chain)
    out.append("")
    out.append("/-- `REF_TYPE` members -/")
    out.append("def refTypes : List (String × Nat) :=\n  [%s]" % ",\n   ".join('("%s", %d)' % (n, v) for n, v in ref_types))
    out.append("")
    out.append("end AgVerif.Gen.XrefOps")
    return {"XrefOps": "\n".join(out) + "\n"}


if __name__ == "__main__":
    import sys
    print(generate(sys.argv[1] if len(sys.argv) > 1 else "/repo")["XrefOps"])
