"""Translator for C26/C31: androguard/core/axml/__init__.py, androguard/core/axml/types.py,
androguard/core/apk/__init__.py, androguard/core/resources/public.xml  ->  lean/AgVerif/Gen/AxmlConsts.lean

AST extraction (no import of androguard):
  * the chunk-type / flag / attribute-layout constants of the AXML module and the TYPE_* constants,
  * the character classes of the regular expressions of `_fix_name` / `_fix_value`: the class that is TESTED (`^[C]*$` with
    match) and the class that is KEPT (`[^C]` with sub).  Read semantically: `re.match(P, x)`, `re.compile(P).match(x)` and
    `NAME.match(x)` / `self.attr.match(x)` with the name bound once to `re.compile(P)` at module, class or function level are the
    same operation; P may be a literal, a module-level string constant or a concatenation of such.  For `_fix_value` the test
    may also be `search` for `[^C]` (equivalent to `^[C]*$` because "\n" is in C).  A regular expression of another shape, flags,
    a second test or a re-bound name make the translator fail -> broken obligation,
  * the literal strings `_fix_name` tests ("android:", ":", "_"), format templates in one normal form (str.format and f-strings),
    and the repair of an invalid first character, obtained by EVALUATING the repair expression on a probe name,
  * the hard-coded numbers of AXMLParser / ARSCHeader (header sizes 8, 0x1C, 0x10, attribute size 20),
  * NS_ANDROID_URI and the tag / attribute / intent constants the APK manifest queries use,
  * the table public.xml -> attribute id -> name (parsed with xml.dom.minidom exactly as
    androguard/core/resources/public.py does).
"""
import ast
import os
import re
from xml.dom import minidom

AXML = "androguard/core/axml/__init__.py"
TYPES = "androguard/core/axml/types.py"
APK = "androguard/core/apk/__init__.py"
PUBLIC = "androguard/core/resources/public.xml"


class Unrecognised(Exception):
    pass


def _consts(tree):
    out = {}
    for n in tree.body:
        if isinstance(n, ast.Assign) and len(n.targets) == 1 and isinstance(n.targets[0], ast.Name):
            try:
                v = eval(compile(ast.Expression(n.value), "<c>", "eval"), {}, dict(out))
            except Exception:
                continue
            if isinstance(v, (int, str)) and not isinstance(v, bool):
                out[n.targets[0].id] = v
    return out


def _find(tree, cls, fn):
    for n in tree.body:
        if isinstance(n, ast.ClassDef) and n.name == cls:
            for m in n.body:
                if isinstance(m, ast.FunctionDef) and m.name == fn:
                    return m
    raise Unrecognised(f"{cls}.{fn} not found")


def _strings(fn):
    return [x.value for x in ast.walk(fn) if isinstance(x, ast.Constant) and isinstance(x.value, str)]


def _parse_class(body: str):
    """'a-zA-Z0-9._-' or ' -\\ud7ff\\t\\n...' -> list of inclusive code point ranges"""
    cps = [ord(c) for c in body]
    out, i = [], 0
    while i < len(cps):
        if i + 2 < len(cps) and cps[i + 1] == ord("-"):
            if cps[i + 2] < cps[i]:
                raise Unrecognised("descending range in character class")
            out.append((cps[i], cps[i + 2])); i += 3
        else:
            if cps[i] in (ord("\\"), ord("["), ord("]"), ord("^")):
                raise Unrecognised("escape or bracket inside character class: %r" % body)
            out.append((cps[i], cps[i])); i += 1
    return out


def _class_of(tree, cls):
    for n in tree.body:
        if isinstance(n, ast.ClassDef) and n.name == cls:
            return n
    raise Unrecognised(f"class {cls} not found")


def _str_value(node, consts):
    """the string an expression denotes, by local reasoning only: a literal, a module-level string constant, a concatenation of
    such, an f-string without fields.  None when it cannot be told."""
    if isinstance(node, ast.Constant) and isinstance(node.value, str):
        return node.value
    if isinstance(node, ast.Name) and isinstance(consts.get(node.id), str):
        return consts[node.id]
    if isinstance(node, ast.JoinedStr) and all(isinstance(v, ast.Constant) for v in node.values):
        return "".join(v.value for v in node.values)
    if isinstance(node, ast.BinOp) and isinstance(node.op, ast.Add):
        a, b = _str_value(node.left, consts), _str_value(node.right, consts)
        return None if a is None or b is None else a + b
    return None


def _is_re_call(node, names):
    return (isinstance(node, ast.Call) and isinstance(node.func, ast.Attribute) and isinstance(node.func.value, ast.Name)
            and node.func.value.id == "re" and node.func.attr in names)


def _compiled_patterns(tree, cls, fn, consts):
    """every name that is bound ONCE to `re.compile(<string>)`: module-level names, class attributes, and `self.<attr>`
    assigned inside the function (the lazily compiled `self.__charrange`).  key: ("name", id) / ("attr", attr)"""
    found = {}

    def record(key, call):
        pat = _str_value(call.args[0], consts) if call.args else None
        if pat is None or len(call.args) > 1 or call.keywords:
            found[key] = None                      # flags or a computed pattern: not understood
        else:
            found[key] = pat if key not in found else None

    for n in tree.body:
        if isinstance(n, ast.Assign) and len(n.targets) == 1 and isinstance(n.targets[0], ast.Name) and _is_re_call(n.value, ("compile",)):
            record(("name", n.targets[0].id), n.value)
    for n in _class_of(tree, cls).body:
        if isinstance(n, ast.Assign) and len(n.targets) == 1 and isinstance(n.targets[0], ast.Name) and _is_re_call(n.value, ("compile",)):
            record(("attr", n.targets[0].id), n.value)
    for n in ast.walk(fn):
        if isinstance(n, ast.Assign) and len(n.targets) == 1 and _is_re_call(n.value, ("compile",)):
            t = n.targets[0]
            if isinstance(t, ast.Attribute) and isinstance(t.value, ast.Name) and t.value.id == "self":
                record(("attr", t.attr), n.value)
            elif isinstance(t, ast.Name):
                record(("name", t.id), n.value)
    return found


def _regex_uses(tree, cls, fn, consts):
    """[(method, pattern)] for every regular-expression operation of the function, whether written `re.match(P, x)`,
    `re.compile(P).match(x)` or `<NAME | self.attr | Class.attr>.match(x)` with the name bound once to `re.compile(P)`"""
    compiled = _compiled_patterns(tree, cls, fn, consts)
    ops = ("match", "fullmatch", "search", "sub", "subn", "findall", "finditer", "split")
    uses = []
    for n in ast.walk(fn):
        if not (isinstance(n, ast.Call) and isinstance(n.func, ast.Attribute) and n.func.attr in ops):
            continue
        obj = n.func.value
        if isinstance(obj, ast.Name) and obj.id == "re":
            pat = _str_value(n.args[0], consts) if n.args else None
            if pat is None and n.args and isinstance(n.args[0], ast.Name) and ("name", n.args[0].id) in compiled:
                pat = compiled[("name", n.args[0].id)]
            if pat is None or any(k.arg == "flags" for k in n.keywords):
                raise Unrecognised(f"regular expression of re.{n.func.attr} at line {n.lineno} is not a plain string")
            uses.append((n.func.attr, pat))
        elif _is_re_call(obj, ("compile",)):
            pat = _str_value(obj.args[0], consts) if len(obj.args) == 1 and not obj.keywords else None
            if pat is None:
                raise Unrecognised(f"regular expression compiled at line {n.lineno} is not a plain string")
            uses.append((n.func.attr, pat))
        else:
            key = None
            if isinstance(obj, ast.Name):
                key = ("name", obj.id)
            elif isinstance(obj, ast.Attribute) and isinstance(obj.value, ast.Name) and obj.value.id in ("self", cls, "cls"):
                key = ("attr", obj.attr)
            if key in compiled:
                if compiled[key] is None:
                    raise Unrecognised(f"compiled pattern {key[1]} is bound more than once or not to a plain string")
                uses.append((n.func.attr, compiled[key]))
            # any other `.match` / `.sub` (e.g. str.split) is not a regular-expression operation we can attribute
    return uses


def _fix_classes(tree, cls, fname, consts, newline_loophole):
    """(matchClass, keepClass) of `_fix_name` / `_fix_value`.
    keepClass: the class C of the one `sub` with pattern `[^C]`.
    matchClass: the class C of the one test `match` with pattern `^[C]*$`; or, when the function instead tests
    `search` with the pattern `[^C]` ("is there an offending character"), that same C -- the two tests are equivalent exactly
    when the `$`-before-a-final-newline loophole of `^[C]*$` is void, i.e. "\n" is in C, and only for the function whose
    model has no loophole (`newline_loophole=False`, `_fix_value`).  Anything else is not understood."""
    fn = _find(tree, cls, fname)
    uses = _regex_uses(tree, cls, fn, consts)
    anchored = [(m, p) for m, p in uses if re.fullmatch(r"\^\[([^\]]+)\]\*\$", p, re.S)]
    negated = [(m, p) for m, p in uses if re.fullmatch(r"\[\^([^\]]+)\]", p, re.S)]
    if len(anchored) + len(negated) != len(uses):
        raise Unrecognised(f"{fname}: a regular expression of another shape: {[p for _, p in uses if (_, p) not in anchored + negated]!r}")
    subs = [p for m, p in negated if m == "sub"]
    if len(subs) != 1:
        raise Unrecognised(f"{fname}: expected exactly one sub() with a negated class, got {len(subs)}")
    keep = _parse_class(re.fullmatch(r"\[\^([^\]]+)\]", subs[0], re.S).group(1))
    tests = [(m, p) for m, p in anchored] + [(m, p) for m, p in negated if m != "sub"]
    if len(tests) != 1:
        raise Unrecognised(f"{fname}: expected exactly one regular-expression test, got {len(tests)}")
    m, p = tests[0]
    if m == "match" and (m, p) in anchored:
        match = _parse_class(re.fullmatch(r"\^\[([^\]]+)\]\*\$", p, re.S).group(1))
        if not newline_loophole and not any(a <= 0x0A <= b for a, b in match):
            raise Unrecognised(f"{fname}: `$` would accept a final newline that is not in the class (not modelled)")
    elif m == "search" and (m, p) in negated and not newline_loophole:
        match = _parse_class(re.fullmatch(r"\[\^([^\]]+)\]", p, re.S).group(1))
        if not any(a <= 0x0A <= b for a, b in match):
            raise Unrecognised(f"{fname}: search for an offending character is not the modelled `^[class]*$` test here")
    else:
        raise Unrecognised(f"{fname}: regular-expression test {m}({p!r}) is not understood")
    return match, keep


def _templates(fn):
    """string constants of a function, plus every format template in one normal form: `"a{:08x}".format(v)` and
    `f"a{v:08x}"` both give "a{:08x}" (field names and positions dropped)"""
    out = set(_strings(fn))
    for n in ast.walk(fn):
        if isinstance(n, ast.JoinedStr):
            t = ""
            for v in n.values:
                if isinstance(v, ast.Constant):
                    t += str(v.value)
                else:
                    spec = ""
                    if v.format_spec is not None:
                        if not all(isinstance(x, ast.Constant) for x in v.format_spec.values):
                            spec = "?"
                        else:
                            spec = ":" + "".join(str(x.value) for x in v.format_spec.values)
                    t += "{" + spec + "}"
            out.add(t)
        if isinstance(n, ast.Call) and isinstance(n.func, ast.Attribute) and n.func.attr == "format" and \
                isinstance(n.func.value, ast.Constant) and isinstance(n.func.value.value, str):
            out.add(re.sub(r"\{[A-Za-z_0-9]*", "{", n.func.value.value))
    return out


def _start_fix(fn):
    """the character `_fix_name` puts in front of a name with an invalid first character: the statement `name = <expr>` under the
    `isalpha` test is evaluated on a probe (so "_{}".format(name), "_" + name, f"_{name}", "%s%s" % ("_", name) all read "_")"""
    for n in ast.walk(fn):
        if isinstance(n, ast.If) and any(isinstance(x, ast.Attribute) and x.attr == "isalpha" for x in ast.walk(n.test)):
            for st in n.body:
                if isinstance(st, ast.Assign) and len(st.targets) == 1 and isinstance(st.targets[0], ast.Name) and st.targets[0].id == "name":
                    try:
                        val = eval(compile(ast.Expression(st.value), "<fix_name>", "eval"), {"__builtins__": {}}, {"name": "\x01probe"})
                    except Exception as e:  # noqa
                        raise Unrecognised(f"_fix_name: cannot evaluate the repair of the first character: {e}")
                    if isinstance(val, str) and len(val) == len("\x01probe") + 1 and val.endswith("\x01probe"):
                        return val[0]
                    raise Unrecognised("_fix_name: the repair of the first character is not 'one character + name'")
    raise Unrecognised("_fix_name: the isalpha test / repair of the first character was not found")


def _lean_ranges(r):
    return "[" + ", ".join(f"(0x{a:X}, 0x{b:X})" for a, b in r) + "]"


def _lean_str(s):
    return '"' + "".join(c if (c.isalnum() or c in " .:/_-{}@?#%<>,=") else "\\u{%x}" % ord(c) for c in s) + '"'


def generate(repo):
    src = open(os.path.join(repo, AXML), encoding="utf-8").read()
    tree = ast.parse(src)
    c = _consts(ast.parse(open(os.path.join(repo, TYPES), encoding="utf-8").read()))
    c.update(_consts(tree))
    need = ["RES_STRING_POOL_TYPE", "RES_XML_TYPE", "RES_XML_FIRST_CHUNK_TYPE", "RES_XML_START_NAMESPACE_TYPE",
            "RES_XML_END_NAMESPACE_TYPE", "RES_XML_START_ELEMENT_TYPE", "RES_XML_END_ELEMENT_TYPE", "RES_XML_CDATA_TYPE",
            "RES_XML_LAST_CHUNK_TYPE", "RES_XML_RESOURCE_MAP_TYPE", "UTF8_FLAG", "ATTRIBUTE_IX_NAMESPACE_URI",
            "ATTRIBUTE_IX_NAME", "ATTRIBUTE_IX_VALUE_STRING", "ATTRIBUTE_IX_VALUE_TYPE", "ATTRIBUTE_IX_VALUE_DATA",
            "ATTRIBUTE_LENGTH", "TYPE_NULL", "TYPE_REFERENCE", "TYPE_ATTRIBUTE", "TYPE_STRING", "TYPE_FLOAT", "TYPE_DIMENSION",
            "TYPE_FRACTION", "TYPE_FIRST_INT", "TYPE_INT_DEC", "TYPE_INT_HEX", "TYPE_INT_BOOLEAN", "TYPE_FIRST_COLOR_INT",
            "TYPE_LAST_COLOR_INT", "TYPE_LAST_INT"]
    lines = ["/- GENERATED by gen/axmlconsts.py from the repository working tree -- do not edit -/",
             "namespace AgVerif.Gen.AxmlConsts", ""]
    for k in need:
        if k not in c or not isinstance(c[k], int):
            raise Unrecognised(f"constant {k} not found")
        lines.append(f"def {k} : Nat := 0x{c[k]:X}")
    # regular expressions
    m1, k1 = _fix_classes(tree, "AXMLPrinter", "_fix_name", c, newline_loophole=True)
    m2, k2 = _fix_classes(tree, "AXMLPrinter", "_fix_value", c, newline_loophole=False)
    lines += ["", "/-- `^[...]*$` tested by `_fix_name` -/", f"def nameMatchClass : List (Nat × Nat) := {_lean_ranges(m1)}",
              "/-- `[^...]` replaced by `_fix_name` -/", f"def nameKeepClass : List (Nat × Nat) := {_lean_ranges(k1)}",
              "/-- `^[...]*$` tested by `_fix_value` -/", f"def valueMatchClass : List (Nat × Nat) := {_lean_ranges(m2)}",
              "/-- `[^...]` replaced by `_fix_value` -/", f"def valueKeepClass : List (Nat × Nat) := {_lean_ranges(k2)}"]
    f_name = _find(tree, "AXMLPrinter", "_fix_name")
    fn = _templates(f_name)
    fv = _templates(_find(tree, "AXMLPrinter", "_fix_value"))
    if _start_fix(f_name) != "_":
        raise Unrecognised("_fix_name no longer prefixes an invalid first character with '_'")
    for lit, where in (("android:", fn), (":", fn), ("_", fn), ("android", fn), ("\x00", fv), ("_", fv)):
        if lit not in where:
            raise Unrecognised(f"literal {lit!r} no longer occurs in _fix_name/_fix_value")
    gan = _templates(_find(tree, "AXMLParser", "getAttributeName"))
    for lit in ("_", ":", "android:UNKNOWN_SYSTEM_ATTRIBUTE_{:08x}"):
        if lit not in gan:
            raise Unrecognised(f"literal {lit!r} no longer occurs in getAttributeName")
    lines += ["", 'def unknownAttrPrefix : String := "android:UNKNOWN_SYSTEM_ATTRIBUTE_"']
    # numeric literals of the parser that the model hard-codes: check they are still there
    nums = {x.value for x in ast.walk(_find(tree, "AXMLParser", "__init__")) if isinstance(x, ast.Constant) and isinstance(x.value, int)}
    nums |= {x.value for x in ast.walk(_find(tree, "AXMLParser", "_do_next")) if isinstance(x, ast.Constant) and isinstance(x.value, int)}
    # one level into private helpers (`self._read_u32()` …) and module-level integer constants used by name
    for fnode in (_find(tree, "AXMLParser", "__init__"), _find(tree, "AXMLParser", "_do_next")):
        for x in ast.walk(fnode):
            if isinstance(x, ast.Call) and isinstance(x.func, ast.Attribute) and isinstance(x.func.value, ast.Name) and \
                    x.func.value.id == "self" and x.func.attr.startswith("_"):
                try:
                    h = _find(tree, "AXMLParser", x.func.attr)
                except Unrecognised:
                    continue
                nums |= {y.value for y in ast.walk(h) if isinstance(y, ast.Constant) and isinstance(y.value, int)}
            if isinstance(x, ast.Name) and isinstance(c.get(x.id), int):
                nums.add(c[x.id])
    for v in (8, 0x1C, 0x10, 20, 24, 16, 0xFFFF, 0xFFFFFFFF):
        if v not in nums:
            raise Unrecognised(f"numeric literal {v} no longer occurs in AXMLParser.__init__/_do_next")
    lines += ["def AXML_HEADER_SIZE : Nat := 8", "def POOL_HEADER_SIZE : Nat := 0x1C", "def NODE_HEADER_SIZE : Nat := 0x10",
              "def ATTRIBUTE_SIZE : Nat := 20"]
    # APK side
    apk = ast.parse(open(os.path.join(repo, APK), encoding="utf-8").read())
    ca = _consts(apk)
    if "NS_ANDROID_URI" not in ca:
        raise Unrecognised("NS_ANDROID_URI not found")
    lines += ["", f"def NS_ANDROID_URI : String := {_lean_str(ca['NS_ANDROID_URI'])}"]
    want = {"_apk_analysis": ["AndroidManifest.xml", "manifest", "package", "versionCode", "versionName", "uses-permission", "name", "permission"],
            "get_main_activities": [".//activity", ".//activity-alias", ".//action", ".//category", "enabled", "false", "name",
                                    "android.intent.action.MAIN", "android.intent.category.LAUNCHER"],
            "get_activities": ["activity", "name"], "get_services": ["service", "name"], "get_receivers": ["receiver", "name"],
            "get_providers": ["provider", "name"], "get_libraries": ["uses-library", "name"], "get_features": ["uses-feature", "name"],
            "get_max_sdk_version": ["uses-sdk", "maxSdkVersion"], "get_min_sdk_version": ["uses-sdk", "minSdkVersion"],
            "get_target_sdk_version": ["uses-sdk", "targetSdkVersion"], "_get_permission_maxsdk": ["maxSdkVersion"]}
    for f, lits in want.items():
        have = _strings(_find(apk, "APK", f))
        for lit in lits:
            if lit not in have:
                raise Unrecognised(f"literal {lit!r} no longer occurs in APK.{f}")
    names = {"tagManifest": "manifest", "tagUsesPermission": "uses-permission", "tagPermission": "permission",
             "tagActivity": "activity", "tagActivityAlias": "activity-alias", "tagService": "service", "tagReceiver": "receiver",
             "tagProvider": "provider", "tagUsesLibrary": "uses-library", "tagUsesFeature": "uses-feature", "tagUsesSdk": "uses-sdk",
             "tagAction": "action", "tagCategory": "category",
             "attrPackage": "package", "attrVersionCode": "versionCode", "attrVersionName": "versionName", "attrName": "name",
             "attrEnabled": "enabled", "attrMaxSdk": "maxSdkVersion", "attrMinSdk": "minSdkVersion", "attrTargetSdk": "targetSdkVersion",
             "valFalse": "false", "actionMain": "android.intent.action.MAIN", "categoryLauncher": "android.intent.category.LAUNCHER"}
    for k, v in names.items():
        lines.append(f"def {k} : String := {_lean_str(v)}")
    # does get_all_attribute_value complete permission / feature / library names with the package?  (format_value=False expected)
    def _fmt_false(fname, tag):
        for call in ast.walk(_find(apk, "APK", fname)):
            if isinstance(call, ast.Call) and getattr(call.func, "attr", "") == "get_all_attribute_value" and \
                    call.args and isinstance(call.args[0], ast.Constant) and call.args[0].value == tag:
                for kw in call.keywords:
                    if kw.arg == "format_value" and isinstance(kw.value, ast.Constant):
                        return bool(kw.value.value)
                if len(call.args) >= 3 and isinstance(call.args[2], ast.Constant):
                    return bool(call.args[2].value)
                return True
        raise Unrecognised(f"call get_all_attribute_value({tag!r}, ...) not found in APK.{fname}")
    lines += ["", "/-- is the value completed with the package name (`format_value`) at this call site? -/",
              f"def completePermissions : Bool := {str(_fmt_false('_apk_analysis', 'uses-permission')).lower()}",
              f"def completeLibraries : Bool := {str(_fmt_false('get_libraries', 'uses-library')).lower()}",
              f"def completeFeatures : Bool := {str(_fmt_false('get_features', 'uses-feature')).lower()}",
              f"def completeActivities : Bool := {str(_fmt_false('get_activities', 'activity')).lower()}",
              f"def completeServices : Bool := {str(_fmt_false('get_services', 'service')).lower()}",
              f"def completeReceivers : Bool := {str(_fmt_false('get_receivers', 'receiver')).lower()}",
              f"def completeProviders : Bool := {str(_fmt_false('get_providers', 'provider')).lower()}"]
    # system attribute names
    xml = minidom.parseString(open(os.path.join(repo, PUBLIC), encoding="utf-8").read())
    attrs = {}
    for e in xml.getElementsByTagName("public"):
        if e.getAttribute("type") == "attr":
            attrs[e.getAttribute("name")] = int(e.getAttribute("id"), 16)      # forward: later names win
    inverse = {v: k for k, v in attrs.items()}                                   # inverse: later ids win
    base, top = min(inverse), max(inverse)
    if top - base > 20000:
        raise Unrecognised("attribute ids are not dense")
    lines += ["", f"def sysAttrBase : Nat := 0x{base:X}", "/-- attribute id - sysAttrBase -> name (\"\" = no such id) -/",
              "def sysAttrNames : Array String := #["]
    row = []
    for i in range(base, top + 1):
        n = inverse.get(i, "")
        if n == "" and i in inverse:
            raise Unrecognised("empty attribute name")
        row.append(_lean_str(n))
        if len(row) == 8:
            lines.append("  " + ", ".join(row) + ","); row = []
    if row:
        lines.append("  " + ", ".join(row) + ",")
    lines[-1] = lines[-1].rstrip(",")
    lines += ["]", "", "end AgVerif.Gen.AxmlConsts", ""]
    return {"AxmlConsts": "\n".join(lines)}
