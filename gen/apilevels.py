"""Translator for C39: the directory listings of androguard/core/api_specific_resources and
CONF["DEFAULT_API"]  ->  lean/AgVerif/Gen/ApiLevels.lean.

Regenerated from the working tree on every run:
  permLevels   the integers load_permissions derives from os.listdir with its own regex
               (^permissions_\\d+\\.json$, then int(x[:-5].split('_')[1])); the regex is read from the
               source (AST) so a changed regex changes the list.  It is read semantically (see
               _regex_from_source): re.match(P, x) / re.compile(P).match(x) / a module-level compiled
               constant, P a literal or module-level string constant, in load_permissions or in a
               same-module helper it calls (one level); anything else raises
  permFiles    the n >= 0 for which os.path.isfile("permissions_{}.json".format(n)) holds (the exact
               name the code opens).  permissions_04.json gives level 4 but no file 4: then
               load_permissions(4) recurses for ever, which is what `gen_canonical` rules out.
  permEmpty    levels whose JSON has an empty 'permissions' dict (load_api_specific_resource_module
               treats {} as "not found" and reloads the default level)
  mapNames     the `{}` part of every file permissions_{}.json in api_permission_mappings
  mapEmpty     those whose JSON is {}
  defaultApi   default_conf["DEFAULT_API"] (AST of androconf.py; must be an int literal)
  defaultReads the object every read of DEFAULT_API in load_api_specific_resource_module goes through
               (must all be the active configuration `CONF`; theorem default_read_from_active_conf)
"""
import ast
import json
import os
import re

REL = os.path.join("androguard", "core", "api_specific_resources")


def _module_funcs(tree):
    return {n.name: n for n in tree.body if isinstance(n, ast.FunctionDef)}


def _closure(tree, fn):
    """fn plus the same-module functions it calls by plain name (one level of inlining)"""
    funcs = _module_funcs(tree)
    out = [fn]
    for n in ast.walk(fn):
        if isinstance(n, ast.Call) and isinstance(n.func, ast.Name) and n.func.id in funcs and n.func.id != fn.name:
            if funcs[n.func.id] not in out:
                out.append(funcs[n.func.id])
    return out


def _const_str(tree, expr):
    """a string literal, or a module-level name bound once to a string literal"""
    if isinstance(expr, ast.Constant) and isinstance(expr.value, str):
        return expr.value
    if isinstance(expr, ast.Name):
        binds = [n.value for n in tree.body if isinstance(n, ast.Assign)
                 and any(isinstance(t, ast.Name) and t.id == expr.id for t in n.targets)]
        if len(binds) == 1:
            return _const_str(tree, binds[0])
    return None


def _compiled(tree, expr):
    """pattern of `re.compile(P)` given directly or through a module-level name bound once"""
    if (isinstance(expr, ast.Call) and isinstance(expr.func, ast.Attribute) and expr.func.attr == "compile"
            and isinstance(expr.func.value, ast.Name) and expr.func.value.id == "re"
            and len(expr.args) == 1 and not expr.keywords):          # flags would change the meaning: not accepted
        return _const_str(tree, expr.args[0])
    if isinstance(expr, ast.Name):
        binds = [n.value for n in tree.body if isinstance(n, ast.Assign)
                 and any(isinstance(t, ast.Name) and t.id == expr.id for t in n.targets)]
        if len(binds) == 1:
            return _compiled(tree, binds[0])
    return None


def _regex_from_source(src: str):
    """(method, pattern) of the one regular-expression test that selects the level files in load_permissions.
    Read semantically: `re.match(P, x)`, `re.compile(P).match(x)` and `NAME.match(x)` with NAME a module-level
    `re.compile(P)` are the same test; P may be a literal or a module-level string constant; the test may sit in
    load_permissions itself or in a same-module helper it calls (one level). `fullmatch` is accepted as such (and
    applied as such). Flags, `search`, several different patterns, or no pattern at all are not recognised."""
    tree = ast.parse(src)
    fn = _module_funcs(tree).get("load_permissions")
    if fn is None:
        raise ValueError("load_permissions not found")
    found = set()
    for f in _closure(tree, fn):
        for n in ast.walk(f):
            if not (isinstance(n, ast.Call) and isinstance(n.func, ast.Attribute) and n.func.attr in ("match", "fullmatch", "search")):
                continue
            base = n.func.value
            if isinstance(base, ast.Name) and base.id == "re":
                if len(n.args) != 2 or n.keywords:
                    raise ValueError("re.%s with flags/keywords: not recognised" % n.func.attr)
                pat = _const_str(tree, n.args[0])
            else:
                if len(n.args) != 1 or n.keywords:
                    continue                       # some other object's .match(...)
                pat = _compiled(tree, base)
                if pat is None:
                    continue
            if pat is None:
                raise ValueError("level-file pattern is not a constant: " + ast.unparse(n))
            if n.func.attr == "search":
                raise ValueError("level files selected with re.search: not recognised")
            found.add((n.func.attr, pat))
    if len(found) != 1:
        raise ValueError(f"load_permissions: expected exactly one constant level-file regex test, found {sorted(found)}")
    return next(iter(found))


def _default_api(src: str) -> int:
    tree = ast.parse(src)
    for n in tree.body:
        if isinstance(n, ast.Assign) and any(isinstance(t, ast.Name) and t.id == "default_conf" for t in n.targets):
            d = n.value
            if not isinstance(d, ast.Dict):
                break
            for k, v in zip(d.keys, d.values):
                if isinstance(k, ast.Constant) and k.value == "DEFAULT_API":
                    val = ast.literal_eval(v)
                    if isinstance(val, bool) or not isinstance(val, int):
                        raise ValueError(f"DEFAULT_API is not an int literal: {val!r}")
                    return val
    raise ValueError("default_conf['DEFAULT_API'] not found")


def _default_reads(src: str):
    """Which object every read of DEFAULT_API inside load_api_specific_resource_module goes through.
    The model reads the default level of the ACTIVE configuration (`CONF[...]`, CONF = Configuration());
    the module-level template `default_conf` is only the initial backing dict of that singleton.
    Returns the list of base-object names of every `<obj>["DEFAULT_API"]` in the function (reads through
    `.get("DEFAULT_API")` are recorded as "<obj>.get"). Raises when there is no read at all, when a base is
    not a plain name, when `default_conf` is referenced in the function in any other way, or when CONF is
    not bound at module level by `CONF = Configuration()`."""
    tree = ast.parse(src)
    fn = next((n for n in tree.body if isinstance(n, ast.FunctionDef) and n.name == "load_api_specific_resource_module"), None)
    if fn is None:
        raise ValueError("load_api_specific_resource_module not found")
    conf_ok = any(isinstance(n, ast.Assign) and any(isinstance(t, ast.Name) and t.id == "CONF" for t in n.targets)
                  and isinstance(n.value, ast.Call) and isinstance(n.value.func, ast.Name) and n.value.func.id == "Configuration"
                  and not n.value.args and not n.value.keywords for n in tree.body)
    if not conf_ok:
        raise ValueError("module level `CONF = Configuration()` not found")
    reads, subscripted = [], set()
    scope = [m for f in _closure(tree, fn) for m in ast.walk(f)]       # the function and the helpers it calls
    for n in scope:
        if isinstance(n, ast.Subscript) and isinstance(n.slice, ast.Constant) and n.slice.value == "DEFAULT_API":
            if not isinstance(n.value, ast.Name):
                raise ValueError("DEFAULT_API read through a non-name object: " + ast.unparse(n.value))
            if not isinstance(n.ctx, ast.Load):
                raise ValueError("load_api_specific_resource_module writes DEFAULT_API")
            reads.append((n.lineno, n.col_offset, n.value.id)); subscripted.add(id(n.value))
        if (isinstance(n, ast.Call) and isinstance(n.func, ast.Attribute) and n.func.attr in ("get", "__getitem__")
                and n.args and isinstance(n.args[0], ast.Constant) and n.args[0].value == "DEFAULT_API"):
            base = n.func.value
            reads.append((n.lineno, n.col_offset, (base.id if isinstance(base, ast.Name) else ast.unparse(base)) + "." + n.func.attr))
            if isinstance(base, ast.Name):
                subscripted.add(id(base))
    for n in scope:
        if isinstance(n, ast.Name) and n.id in ("default_conf", "Configuration") and id(n) not in subscripted:
            raise ValueError(f"load_api_specific_resource_module uses {n.id} in an unrecognised way (line {n.lineno})")
    if not reads:
        raise ValueError("no read of DEFAULT_API in load_api_specific_resource_module")
    return [r[2] for r in sorted(reads)]


def facts(repo: str) -> dict:
    root = os.path.join(repo, REL)
    src = open(os.path.join(root, "__init__.py")).read()
    method, rx = _regex_from_source(src)
    pdir = os.path.join(root, "aosp_permissions")
    names = sorted(os.listdir(pdir))
    # exactly what the code computes (order is irrelevant to max/min/filter; sorted for stable text)
    levels = sorted(int(x[:-5].split("_")[1]) for x in names if getattr(re, method)(rx, x))
    cand = set(levels) | set(range(0, 64))
    files = sorted(n for n in cand if os.path.isfile(os.path.join(pdir, "permissions_{}.json".format(n))))
    perm_empty = []
    for n in files:
        with open(os.path.join(pdir, "permissions_{}.json".format(n))) as fp:
            j = json.load(fp)
        if j.get("permissions") == {}:
            perm_empty.append(n)
    mdir = os.path.join(root, "api_permission_mappings")
    mnames, mempty = [], []
    for x in sorted(os.listdir(mdir)):
        m = re.fullmatch(r"permissions_(.*)\.json", x, re.S)
        if m and os.path.isfile(os.path.join(mdir, x)):
            mnames.append(m.group(1))
            with open(os.path.join(mdir, x)) as fp:
                if json.load(fp) == {}:
                    mempty.append(m.group(1))
    conf_src = open(os.path.join(repo, "androguard", "core", "androconf.py")).read()
    default = _default_api(conf_src)
    return {"defaultReads": _default_reads(conf_src), "regex": rx, "permLevels": levels, "permFiles": files, "permEmpty": perm_empty,
            "mapNames": mnames, "mapEmpty": mempty, "defaultApi": default}


def _nats(xs):
    return "[" + ", ".join(str(x) for x in xs) + "]"


def _strs(xs):
    return "[" + ", ".join(json.dumps(x) for x in xs) + "]"


def generate(repo: str) -> dict:
    f = facts(repo)
    d = f["defaultApi"]
    dtxt = str(d) if d >= 0 else f"({d})"
    text = f"""/- GENERATED by gen/apilevels.py from {REL}/ and androconf.py — do not edit.
   level regex in load_permissions: {f['regex']!r} -/
namespace AgVerif.Gen.ApiLevels

/-- int(x[:-5].split('_')[1]) for every name of aosp_permissions/ matching the regex -/
def permLevels : List Nat := {_nats(f['permLevels'])}

/-- n with isfile(aosp_permissions/permissions_n.json) -/
def permFiles : List Nat := {_nats(f['permFiles'])}

/-- levels whose 'permissions' dict is empty -/
def permEmpty : List Nat := {_nats(f['permEmpty'])}

/-- the `{{}}` of every api_permission_mappings/permissions_{{}}.json -/
def mapNames : List String := {_strs(f['mapNames'])}

/-- mapping files whose content is {{}} -/
def mapEmpty : List String := {_strs(f['mapEmpty'])}

/-- default_conf["DEFAULT_API"] -/
def defaultApi : Int := {dtxt}

/-- the object each read of DEFAULT_API in load_api_specific_resource_module goes through, in source order -/
def defaultReads : List String := {_strs(f['defaultReads'])}

end AgVerif.Gen.ApiLevels
"""
    return {"ApiLevels": text}


if __name__ == "__main__":
    import sys
    print(generate(sys.argv[1] if len(sys.argv) > 1 else "/repo")["ApiLevels"])
