"""Translator for C01/C02 (and the CFG / xref models): androguard/core/dex/__init__.py -> lean/AgVerif/Gen/Opcodes.lean

Everything is read from the *source text* of the repository under test with `ast` (no import):

* DALVIK_OPCODES_FORMAT, DALVIK_OPCODES_OPTIMIZED  -> rows (opcode, class, mnemonic, kind)
* DALVIK_OPCODES_PAYLOAD                           -> rows (ident, class name)
* every `class Instruction<fmt>(Instruction)`      -> `length`, the `packer["…"]` string whose `.unpack`
                                                      is called in `__init__` and the one whose `.pack`
                                                      is called in `get_raw`
* PackedSwitch / SparseSwitch / FillArrayData      -> header / element packer strings and calcsize strings
* Kind, Operand (dex_types.py)                     -> enum values
* the constants of LinearSweepAlgorithm.get_instructions (`0xFF`, the `(0x00, 0xFF)` tuple)

A table that can no longer be read raises (fw records a broken obligation, not a crash).
"""
import ast
import os
import re

SRC = "androguard/core/dex/__init__.py"
TYPES = "androguard/core/dex/dex_types.py"

SC = set("BbHhIiLlQq")


def _int(node):
    v = ast.literal_eval(node)
    if not isinstance(v, int):
        raise ValueError(f"expected int literal, got {v!r}")
    return v


def expand_fmt(s: str):
    """'3H' -> ['H','H','H'];  'HI2H' -> ['H','I','H','H'] (struct repeat counts, no byte-order char)"""
    s = s.lstrip("<")
    out = []
    for m in re.finditer(r"(\d*)([A-Za-z])", s):
        n = int(m.group(1)) if m.group(1) else 1
        if m.group(2) not in SC:
            raise ValueError(f"struct character {m.group(2)!r} of {s!r} is not modelled")
        out += [m.group(2)] * n
    if "".join(re.findall(r"\d*[A-Za-z]", s)) != s:
        raise ValueError(f"cannot parse struct format {s!r}")
    return out


def enum_values(tree, clsname):
    for n in tree.body:
        if isinstance(n, ast.ClassDef) and n.name == clsname:
            out = {}
            for st in n.body:
                if isinstance(st, ast.Assign) and len(st.targets) == 1 and isinstance(st.targets[0], ast.Name):
                    out[st.targets[0].id] = _int(st.value)
            return out
    raise ValueError(f"enum {clsname} not found")


def top_assign(tree, name):
    found = None
    for n in tree.body:
        if isinstance(n, ast.Assign) and any(isinstance(t, ast.Name) and t.id == name for t in n.targets):
            found = n.value          # last assignment wins, as at import time
        if isinstance(n, ast.AnnAssign) and isinstance(n.target, ast.Name) and n.target.id == name and n.value:
            found = n.value
    if found is None:
        raise ValueError(f"{name} not found in {SRC}")
    return found


def opcode_rows(dictnode, kinds):
    if not isinstance(dictnode, ast.Dict):
        raise ValueError("opcode table is not a dict literal")
    rows = {}
    for k, v in zip(dictnode.keys, dictnode.values):
        op = _int(k)
        if not (isinstance(v, ast.List) and len(v.elts) == 2 and isinstance(v.elts[0], ast.Name)
                and isinstance(v.elts[1], ast.List) and 1 <= len(v.elts[1].elts) <= 2):
            raise ValueError(f"row {op:#x} has an unexpected shape")
        cls = v.elts[0].id
        if not cls.startswith("Instruction"):
            raise ValueError(f"row {op:#x}: class {cls}")
        mn = ast.literal_eval(v.elts[1].elts[0])
        kind = None
        if len(v.elts[1].elts) == 2:
            kn = v.elts[1].elts[1]
            if isinstance(kn, ast.Attribute) and isinstance(kn.value, ast.Name) and kn.value.id == "Kind":
                kind = kinds[kn.attr]
            else:
                kind = _int(kn)
        rows[op] = (cls[len("Instruction"):], mn, kind)     # duplicate keys: the last one wins, as in Python
    return [(op,) + rows[op] for op in sorted(rows)]


def packer_strings(func, method):
    """format strings s of `<anything>.packer[s].<method>(…)` inside func, in source order"""
    out = []
    for n in ast.walk(func):
        if (isinstance(n, ast.Call) and isinstance(n.func, ast.Attribute) and n.func.attr == method
                and isinstance(n.func.value, ast.Subscript)
                and isinstance(n.func.value.value, ast.Attribute) and n.func.value.value.attr == "packer"):
            out.append((n.lineno, n.col_offset, ast.literal_eval(n.func.value.slice)))
    return [s for _, _, s in sorted(out)]


def calcsize_strings(func):
    out = []
    for n in ast.walk(func):
        if isinstance(n, ast.Call) and isinstance(n.func, ast.Name) and n.func.id == "calcsize":
            out.append((n.lineno, n.col_offset, ast.literal_eval(n.args[0])))
    return [s for _, _, s in sorted(out)]


def methods(cls):
    return {n.name: n for n in cls.body if isinstance(n, ast.FunctionDef)}


def class_info(tree):
    info = {}
    for n in tree.body:
        if not (isinstance(n, ast.ClassDef) and n.name.startswith("Instruction") and n.name != "Instruction"):
            continue
        if not any(isinstance(b, ast.Name) and b.id == "Instruction" for b in n.bases):
            continue
        fmt = n.name[len("Instruction"):]
        length = None
        for st in n.body:
            if isinstance(st, ast.Assign) and any(isinstance(t, ast.Name) and t.id == "length" for t in st.targets):
                length = _int(st.value)
        if length is None:
            raise ValueError(f"{n.name}: no length attribute")
        ms = methods(n)
        unp = packer_strings(ms["__init__"], "unpack") if "__init__" in ms else []
        pk = packer_strings(ms["get_raw"], "pack") if "get_raw" in ms else []
        if fmt == "00x":
            unp, pk = [""], [""]
        if len(unp) != 1 or len(pk) != 1:
            raise ValueError(f"{n.name}: expected one unpack and one pack format, found {unp} / {pk}")
        info[fmt] = (length, expand_fmt(unp[0]), expand_fmt(pk[0]))
    return info


def payload_info(tree):
    out = {}
    for n in tree.body:
        if isinstance(n, ast.ClassDef) and n.name in ("PackedSwitch", "SparseSwitch", "FillArrayData"):
            ms = methods(n)
            out[n.name] = dict(
                unpack=packer_strings(ms["__init__"], "unpack"),
                pack=packer_strings(ms["get_raw"], "pack"),
                calc_init=calcsize_strings(ms["__init__"]),
                calc_len=calcsize_strings(ms["get_length"]),
            )
    if len(out) != 3:
        raise ValueError("payload classes not found")
    return out


def sweep_constants(tree):
    for n in tree.body:
        if isinstance(n, ast.ClassDef) and n.name == "LinearSweepAlgorithm":
            f = methods(n)["get_instructions"]
            tuples = [ast.literal_eval(t) for t in ast.walk(f) if isinstance(t, ast.Tuple)
                      and all(isinstance(e, ast.Constant) and isinstance(e.value, int) for e in t.elts) and t.elts]
            ints = sorted({c.value for c in ast.walk(f) if isinstance(c, ast.Constant) and isinstance(c.value, int)
                           and not isinstance(c.value, bool)})
            return tuples, ints
    raise ValueError("LinearSweepAlgorithm not found")


def lstr(s):
    return '"' + s.replace("\\", "\\\\").replace('"', '\\"') + '"'


def lsc(cs):
    return "[" + ", ".join("." + c for c in cs) + "]"


def lkind(k):
    return "none" if k is None else f"some {k}"


def generate(repo):
    src = open(os.path.join(repo, SRC)).read()
    tree = ast.parse(src)
    ttree = ast.parse(open(os.path.join(repo, TYPES)).read())
    kinds = enum_values(ttree, "Kind")
    operand = enum_values(ttree, "Operand")
    rows = opcode_rows(top_assign(tree, "DALVIK_OPCODES_FORMAT"), kinds)
    orows = opcode_rows(top_assign(tree, "DALVIK_OPCODES_OPTIMIZED"), kinds)
    pd = top_assign(tree, "DALVIK_OPCODES_PAYLOAD")
    prows = []
    for k, v in zip(pd.keys, pd.values):
        if not (isinstance(v, ast.List) and len(v.elts) == 1 and isinstance(v.elts[0], ast.Name)):
            raise ValueError("payload row shape")
        prows.append((_int(k), v.elts[0].id))
    prows = sorted(dict(prows).items())
    info = class_info(tree)
    pinfo = payload_info(tree)
    tuples, ints = sweep_constants(tree)

    L = []
    A = L.append
    A("/- GENERATED by gen/opcodes.py from androguard/core/dex/__init__.py and dex_types.py — do not edit.")
    A("   Regenerated on every run of a check; theorems that mention these definitions are re-checked. -/")
    A("import AgVerif.Model.InsnFmt")
    A("namespace AgVerif.Gen.Opcodes")
    A("open AgVerif.Insn")
    A("")
    A("/-- DALVIK_OPCODES_FORMAT: (opcode, Instruction class, mnemonic, Kind value if the row has one) -/")
    A("def opcodeRows : List (Nat × Fmt × String × Option Nat) := [")
    A(",\n".join(f"  ({op}, .f{c}, {lstr(mn)}, {lkind(k)})" for op, c, mn, k in rows))
    A("]")
    A("")
    A("/-- DALVIK_OPCODES_OPTIMIZED (ODEX only; key is the whole first code unit) -/")
    A("def optimizedRows : List (Nat × Fmt × String × Option Nat) := [")
    A(",\n".join(f"  ({op}, .f{c}, {lstr(mn)}, {lkind(k)})" for op, c, mn, k in orows))
    A("]")
    A("")
    A("/-- DALVIK_OPCODES_PAYLOAD: (ident, class name) -/")
    A("def payloadRows : List (Nat × String) := [" + ", ".join(f"({k}, {lstr(c)})" for k, c in prows) + "]")
    A("")
    A("/-- `length` class attribute of each Instruction class -/")
    A("def length : Fmt → Nat")
    for f in sorted(info):
        A(f"  | .f{f} => {info[f][0]}")
    A("")
    A("/-- the `packer[…]` string unpacked in `__init__` (repeat counts expanded) -/")
    A("def unpackFmt : Fmt → List SC")
    for f in sorted(info):
        A(f"  | .f{f} => {lsc(info[f][1])}")
    A("")
    A("/-- the `packer[…]` string packed in `get_raw` -/")
    A("def packFmt : Fmt → List SC")
    for f in sorted(info):
        A(f"  | .f{f} => {lsc(info[f][2])}")
    A("")
    for cls, short in (("PackedSwitch", "packed"), ("SparseSwitch", "sparse"), ("FillArrayData", "fill")):
        p = pinfo[cls]
        A(f"/-- {cls}: packer strings unpacked in __init__ / packed in get_raw, calcsize strings of __init__ / get_length -/")
        A(f"def {short}Unpack : List (List SC) := [" + ", ".join(lsc(expand_fmt(s)) for s in p["unpack"]) + "]")
        A(f"def {short}Pack : List (List SC) := [" + ", ".join(lsc(expand_fmt(s)) for s in p["pack"]) + "]")
        A(f"def {short}CalcInit : List (List SC) := [" + ", ".join(lsc(expand_fmt(s)) for s in p["calc_init"]) + "]")
        A(f"def {short}CalcLen : List (List SC) := [" + ", ".join(lsc(expand_fmt(s)) for s in p["calc_len"]) + "]")
    A("")
    A("/-- Kind (dex_types.py) -/")
    A("def kindValues : List (String × Nat) := [" + ", ".join(f"({lstr(k)}, {v})" for k, v in kinds.items()) + "]")
    A("/-- Operand (dex_types.py) -/")
    A("def operandValues : List (String × Nat) := [" + ", ".join(f"({lstr(k)}, {v})" for k, v in operand.items()) + "]")
    for k, v in operand.items():
        A(f"def operand{k} : Nat := {v}")
    A("")
    A("/-- integer tuples / integer constants occurring in LinearSweepAlgorithm.get_instructions -/")
    A("def sweepTuples : List (List Nat) := [" + ", ".join("[" + ", ".join(str(x) for x in t) + "]" for t in tuples) + "]")
    A("def sweepInts : List Nat := [" + ", ".join(str(x) for x in ints if x >= 0) + "]")
    A("")
    A("end AgVerif.Gen.Opcodes")
    return {"Opcodes": "\n".join(L) + "\n"}


if __name__ == "__main__":
    import sys
    print(generate(sys.argv[1] if len(sys.argv) > 1 else "/repo")["Opcodes"])
