"""C30: the two pure locale helpers of ARSCResTableConfig (androguard/core/axml/__init__.py),
`_unpack_language_or_region` and `_pack_language_or_region`, translated statement by statement to
Lean (AgVerif.Gen.PyLocale) by gen/py2lean.py.  Props/C30.lean proves that the generated
definitions equal the hand model AgVerif.Locale.unpack / AgVerif.Locale.pack.
Declared parameter types (assumptions of the translation): `_unpack…(char_in: list of int,
char_base: int) -> str`, `_pack…(char_in: str, char_base: int) -> list of int`.  No loops."""
from gen.py2lean import Func, translate, T_STR, T_LIST

PATH = "androguard/core/axml/__init__.py"


def generate(repo):
    return translate(repo, PATH, "PyLocale", [
        Func("_unpack_language_or_region", cls="ARSCResTableConfig", types={"char_in": T_LIST}, ret=T_STR,
             lean_name="unpack_language_or_region"),
        Func("_pack_language_or_region", cls="ARSCResTableConfig", types={"char_in": T_STR}, ret=T_LIST,
             lean_name="pack_language_or_region"),
    ], attr="pygen")
