"""Translator for C24: the two TYPE_DESCRIPTOR tables and every literal of the two get_type functions,
read from the repository source by AST (nothing is imported).

  androguard/decompiler/util.py      TYPE_DESCRIPTOR, get_type
  androguard/core/dex/dex_types.py   TYPE_DESCRIPTOR
  androguard/core/dex/__init__.py    get_type

The hand-written Lean models (lean/AgVerif/Model/TypeName.lean) take every string/integer literal from the
generated module, so a changed table entry, prefix, slice bound, separator or format string changes
AgVerif.Gen.TypeDesc and the theorems of Props/C24 are re-checked against it. The *shape* of each function
(its AST with the literals blanked out) is compared with the shape the models were written for; a different
shape means the hand-written model may be stale and is reported as a broken obligation.
"""
import ast
import hashlib
import os

# shapes the models in Model/TypeName.lean transliterate (python 3.12 ast.dump, literals blanked)
UTIL_SHAPE = "1520168c92c0e78c"
DEX_SHAPE = "2a8912fa98cc5152"


def _func(tree, name):
    for n in tree.body:
        if isinstance(n, ast.FunctionDef) and n.name == name:
            return n
    raise ValueError(f"function {name} not found")


def _table(tree, name):
    for n in tree.body:
        if isinstance(n, ast.Assign) and any(isinstance(t, ast.Name) and t.id == name for t in n.targets):
            d = ast.literal_eval(n.value)
            if not (isinstance(d, dict) and all(isinstance(k, str) and isinstance(v, str) for k, v in d.items())):
                raise ValueError(f"{name} is not a dict of str to str")
            return list(d.items())
    raise ValueError(f"table {name} not found")


def _literals(fn):
    body = fn.body
    if body and isinstance(body[0], ast.Expr) and isinstance(getattr(body[0], "value", None), ast.Constant) \
            and isinstance(body[0].value.value, str):
        body = body[1:]                                    # docstring
    out = []

    class V(ast.NodeTransformer):
        def visit_Constant(self, n):
            out.append(n.value)
            return ast.copy_location(ast.Name(id="LIT", ctx=ast.Load()), n)

    m = ast.Module(body=[V().visit(b) for b in body], type_ignores=[])
    args = [a.arg for a in fn.args.args] + [repr(ast.dump(d)) for d in fn.args.defaults]
    shape = hashlib.sha256((ast.dump(m, annotate_fields=False) + "|" + ",".join(args)).encode()).hexdigest()[:16]
    return out, shape


def lchars(s: str) -> str:
    return "[" + ", ".join("Char.ofNat %d" % ord(c) for c in s) + "]"


def lchar(s, what) -> str:
    if not (isinstance(s, str) and len(s) == 1):
        raise ValueError(f"{what}: expected a one-character string, found {s!r}")
    return "Char.ofNat %d" % ord(s)


def lnat(v, what) -> str:
    if not (isinstance(v, int) and not isinstance(v, bool) and v >= 0):
        raise ValueError(f"{what}: expected a non-negative integer literal, found {v!r}")
    return str(v)


def lstr(v, what) -> str:
    if not isinstance(v, str):
        raise ValueError(f"{what}: expected a string literal, found {v!r}")
    return lchars(v)


def ltable(items) -> str:
    return "[" + ",\n   ".join("(%s, %s)" % (lchars(k), lchars(v)) for k, v in items) + "]"


def shapes(repo):
    """(util shape, dex shape) of the tree — used to pin UTIL_SHAPE / DEX_SHAPE"""
    u = ast.parse(open(os.path.join(repo, "androguard/decompiler/util.py")).read())
    d = ast.parse(open(os.path.join(repo, "androguard/core/dex/__init__.py")).read())
    return _literals(_func(u, "get_type"))[1], _literals(_func(d, "get_type"))[1]


def generate(repo):
    up = os.path.join(repo, "androguard/decompiler/util.py")
    dp = os.path.join(repo, "androguard/core/dex/__init__.py")
    tp = os.path.join(repo, "androguard/core/dex/dex_types.py")
    ut = ast.parse(open(up).read())
    dt = ast.parse(open(dp).read())
    tt = ast.parse(open(tp).read())
    util_table = _table(ut, "TYPE_DESCRIPTOR")
    dex_table = _table(tt, "TYPE_DESCRIPTOR")
    # dex/__init__.py must take TYPE_DESCRIPTOR from dex_types
    imported = any(isinstance(n, ast.ImportFrom) and n.module and n.module.endswith("dex_types")
                   and any(a.name == "TYPE_DESCRIPTOR" for a in n.names) for n in dt.body)
    if not imported:
        raise ValueError("androguard/core/dex/__init__.py no longer imports TYPE_DESCRIPTOR from dex_types")
    ul, ush = _literals(_func(ut, "get_type"))
    dl, dsh = _literals(_func(dt, "get_type"))
    if ush != UTIL_SHAPE:
        raise ValueError(f"decompiler/util.get_type has a different shape ({ush}, literals {ul!r}) from the one "
                         f"modelled in Model/TypeName.lean ({UTIL_SHAPE}): the hand-written model may be stale")
    if dsh != DEX_SHAPE:
        raise ValueError(f"core/dex.get_type has a different shape ({dsh}, literals {dl!r}) from the one modelled "
                         f"in Model/TypeName.lean ({DEX_SHAPE}): the hand-written model may be stale")
    # positions, in source order (see the function texts):
    #   util: res is None | atype[0] == 'L' | startswith(P) | S not in atype[A:] | atype[B:-C] | atype[D:-E].replace(O, N)
    #         | atype[0] == '[' | size is None | F1 % get_type(atype[G:]) | F2.format(get_type(atype[H:]), size) | debug text
    (u_none, u_i0, u_L, u_pref, u_sep, u_A, u_B, u_C, u_D, u_E, u_old, u_new, u_i1, u_arr, u_none2, u_f1, u_G, u_f2, u_H,
     _dbg) = ul
    #   dex: startswith(P) | replace(O1, N1) | lstrip(K) | res is None | atype[0] == 'L' | atype[A:-B].replace(O, N)
    #        | atype[0] == '[' | size is None | F1 % get_type(atype[C:]) | F2.format(get_type(atype[D:]), size)
    (d_pref, d_o1, d_n1, d_strip, d_none, d_i0, d_L, d_A, d_B, d_old, d_new, d_i1, d_arr, d_none2, d_f1, d_C, d_f2, d_D) = dl
    for v, w in ((u_none, "util: `res is None`"), (u_none2, "util: `size is None`"), (d_none, "dex: `res is None`"),
                 (d_none2, "dex: `size is None`")):
        if v is not None:
            raise ValueError(f"{w}: expected None, found {v!r}")
    if u_G != u_H or d_C != d_D:
        raise ValueError("the two array branches slice the element descriptor differently")
    L = []
    L.append("/- GENERATED by gen/typedesc.py from androguard/decompiler/util.py, androguard/core/dex/dex_types.py and")
    L.append("   androguard/core/dex/__init__.py — do not edit. -/")
    L.append("namespace AgVerif.Gen.TypeDesc")
    L.append("")
    L.append("/-- decompiler/util.py TYPE_DESCRIPTOR -/")
    L.append("def utilTable : List (List Char × List Char) :=\n  " + ltable(util_table))
    L.append("/-- core/dex/dex_types.py TYPE_DESCRIPTOR (used by core/dex get_type) -/")
    L.append("def dexTable : List (List Char × List Char) :=\n  " + ltable(dex_table))
    L.append("")
    L.append("/-! literals of decompiler/util.py get_type, in source order -/")
    L.append(f"def utilHeadIdx : Nat := {lnat(u_i0, 'util atype[0]')}")
    L.append(f"def utilHeadIdx2 : Nat := {lnat(u_i1, 'util atype[0] (array test)')}")
    L.append(f"def utilClassTag : Char := {lchar(u_L, 'util class tag')}")
    L.append(f"def utilPrefix : List Char := {lstr(u_pref, 'util startswith')}")
    L.append(f"def utilSep : Char := {lchar(u_sep, 'util `not in` needle')}")
    L.append(f"def utilMemberFrom : Nat := {lnat(u_A, 'util atype[A:]')}")
    L.append(f"def utilShortLo : Nat := {lnat(u_B, 'util atype[B:-C]')}")
    L.append(f"def utilShortHiNeg : Nat := {lnat(u_C, 'util atype[B:-C]')}")
    L.append(f"def utilFullLo : Nat := {lnat(u_D, 'util atype[D:-E]')}")
    L.append(f"def utilFullHiNeg : Nat := {lnat(u_E, 'util atype[D:-E]')}")
    L.append(f"def utilReplaceOld : Char := {lchar(u_old, 'util replace old')}")
    L.append(f"def utilReplaceNew : Char := {lchar(u_new, 'util replace new')}")
    L.append(f"def utilArrayTag : Char := {lchar(u_arr, 'util array tag')}")
    L.append(f"def utilArrFmt : List Char := {lstr(u_f1, 'util array format')}")
    L.append(f"def utilElemFrom : Nat := {lnat(u_G, 'util atype[G:]')}")
    L.append(f"def utilArrSizeFmt : List Char := {lstr(u_f2, 'util sized array format')}")
    L.append("")
    L.append("/-! literals of core/dex/__init__.py get_type, in source order -/")
    L.append(f"def dexStartsWith : List Char := {lstr(d_pref, 'dex startswith')}")
    L.append(f"def dexDropOld : List Char := {lstr(d_o1, 'dex replace old')}")
    L.append(f"def dexDropNew : List Char := {lstr(d_n1, 'dex replace new')}")
    L.append(f"def dexLstrip : List Char := {lstr(d_strip, 'dex lstrip')}")
    L.append(f"def dexHeadIdx : Nat := {lnat(d_i0, 'dex atype[0]')}")
    L.append(f"def dexHeadIdx2 : Nat := {lnat(d_i1, 'dex atype[0] (array test)')}")
    L.append(f"def dexClassTag : Char := {lchar(d_L, 'dex class tag')}")
    L.append(f"def dexFullLo : Nat := {lnat(d_A, 'dex atype[A:-B]')}")
    L.append(f"def dexFullHiNeg : Nat := {lnat(d_B, 'dex atype[A:-B]')}")
    L.append(f"def dexReplaceOld : Char := {lchar(d_old, 'dex replace old')}")
    L.append(f"def dexReplaceNew : Char := {lchar(d_new, 'dex replace new')}")
    L.append(f"def dexArrayTag : Char := {lchar(d_arr, 'dex array tag')}")
    L.append(f"def dexArrFmt : List Char := {lstr(d_f1, 'dex array format')}")
    L.append(f"def dexElemFrom : Nat := {lnat(d_C, 'dex atype[C:]')}")
    L.append(f"def dexArrSizeFmt : List Char := {lstr(d_f2, 'dex sized array format')}")
    L.append("")
    L.append("end AgVerif.Gen.TypeDesc")
    return {"TypeDesc": "\n".join(L) + "\n"}
