"""Translator for C23 (also run by C04): `androguard/decompiler/writer.py: string()` read SEMANTICALLY from the
repository source by AST (androguard is not imported), plus the shape of the `str` branch of `Writer.visit_constant`.

Model/JavaString.lean describes ONE function: OPEN ++ concat (escChar c | c in s) ++ CLOSE, where escChar is a pure
function of the code point. The translator accepts any source text of `string()` for which it can PROVE, by local
reasoning plus a complete finite evaluation, that it is that function:

  1. frame (syntactic, up to renaming of locals):  ACC = [OPEN] ; for V in <the parameter>: BODY ; ACC.append(CLOSE) ;
     return ''.join(ACC)      — nothing runs over the joined result, no other statement;
  2. BODY is a pure per-character step: the accumulator occurs only as the receiver of statement-level
     `.append(x)` / `.extend(xs)`; the parameter is not read; no `break`/`return`/`while`/`try`/comprehension/lambda;
     every local read is definitely assigned earlier in the SAME iteration (path-sensitive definite-assignment
     analysis: `elif` chains, `if … continue` chains and `if a and b` are all handled by what they mean) so no state
     is carried between characters; only pure builtins (ord chr divmod len int hex format str tuple list range
     min max), pure str/bytes/dict methods (encode decode format join get lower upper zfill rjust), module-level
     literal constants that are assigned once and never mutated in the module, and private module-level helper
     functions that satisfy the same purity rules (followed transitively, no recursion);
  3. BODY (with its helpers and constants, compiled from the AST in an empty namespace) is EVALUATED ON EVERY ONE OF
     THE 0x110000 CODE POINTS and must return exactly what the model's escChar returns (`model_esc_char` below, the
     mirror of Model/JavaString.lean with the pinned literals; harness/props/c23.py compares the mirror with the
     compiled Lean model). The domain is finite and complete, so agreement IS equality of the two functions; the
     frame then gives equality for all strings. OPEN/CLOSE must be the model's. As a belt-and-braces check the whole
     function is also run on a few hundred multi-character strings.

Accepted therefore: renamed locals, `elif` <-> `if … continue`, merged/split conditions, swapped branches,
`append` x5 <-> `extend`, extracted helpers and hoisted tables, `'\\u%04x'` <-> four `'%x'` nibbles, divmod <-> shift/mask,
a dict of short escapes <-> the codec — anything that leaves the per-character function unchanged.
Refused (ValueError = broken obligation; the search must then decide): any other frame (table translate, codec over
the whole string, regex or any pass over the joined result), impure or stateful loop bodies, and any per-character
function that differs from the model's on even one code point (the message names the first such code point).
When accepted, AgVerif.Gen.JString is emitted with the literals the model and its proofs were written for.
"""
import ast
import os

from gen.typedesc import _func, _literals

VISIT_SHAPE = "0643425e2d2c385d"

# ---------------------------------------------------------------------------------------------------------------
# the literals the Lean model was written for, and the model's per-character function (mirror of Model/JavaString.lean)
PINNED = dict(openQuote=[34], closeQuote=[34], printLo=32, printHi=127, quote1=39, quote2=34, quote3=92, escPrefix=[92],
              asciiHi=127, named=[13, 10, 9], suppMin=65536, suppSub=65536, hiBase=55296, hiShift=10, loBase=56320,
              loMask=1023, uPrefix=[92, 117], shift1=12, shift2=8, mask2=15, shift3=4, mask3=15, mask4=15)
_NAMED = {9: "\\t", 10: "\\n", 13: "\\r"}


def _hexdigits(n):           # Model.hexDigits = Python '%x' % n
    s = ""
    while True:
        d = n % 16
        s = "0123456789abcdef"[d] + s
        n //= 16
        if n == 0:
            return s


def _uescape(i, P=PINNED):
    return ("".join(map(chr, P["uPrefix"])) + _hexdigits(i >> P["shift1"]) + _hexdigits((i >> P["shift2"]) & P["mask2"])
            + _hexdigits((i >> P["shift3"]) & P["mask3"]) + _hexdigits(i & P["mask4"]))


def model_esc_char(c, P=PINNED):
    """Model/JavaString.lean escChar on one code point, as a str"""
    if P["printLo"] <= c < P["printHi"]:
        if c == P["quote1"] or c == P["quote2"] or c == P["quote3"]:
            return "".join(map(chr, P["escPrefix"])) + chr(c)
        return chr(c)
    if c <= P["asciiHi"] and c in P["named"]:
        return _NAMED[c]                                  # pyUnicodeEscape on \t \n \r
    if c >= P["suppMin"]:
        j = c - P["suppSub"]
        units = [P["hiBase"] + (j >> P["hiShift"]), P["loBase"] + (j & P["loMask"])]
    else:
        units = [c]
    return "".join(_uescape(u) for u in units)


def model_string(s):
    return '"' + "".join(model_esc_char(ord(c)) for c in s) + '"'


# ---------------------------------------------------------------------------------------------------------------
class Refuse(ValueError):
    pass


PURE_BUILTINS = {"ord": ord, "chr": chr, "divmod": divmod, "len": len, "int": int, "hex": hex, "format": format, "str": str,
                 "tuple": tuple, "list": list, "range": range, "min": min, "max": max}
PURE_METHODS = {"encode", "decode", "format", "join", "get", "lower", "upper", "zfill", "rjust"}
MUTATORS = {"append", "extend", "insert", "remove", "pop", "clear", "update", "setdefault", "popitem", "sort", "reverse",
            "add", "discard", "__setitem__", "__delitem__"}
BAD_NODES = (ast.Global, ast.Nonlocal, ast.Import, ast.ImportFrom, ast.Lambda, ast.FunctionDef, ast.AsyncFunctionDef,
             ast.ClassDef, ast.Yield, ast.YieldFrom, ast.Await, ast.Try, ast.With, ast.AsyncWith, ast.Delete, ast.While,
             ast.NamedExpr, ast.ListComp, ast.SetComp, ast.DictComp, ast.GeneratorExp, ast.AsyncFor, ast.Starred)


def _strip_doc(body):
    if body and isinstance(body[0], ast.Expr) and isinstance(getattr(body[0], "value", None), ast.Constant) \
            and isinstance(body[0].value.value, str):
        return body[1:]
    return body


class Purity:
    """definite-assignment + purity analysis of a statement block (see the module docstring, point 2)"""

    def __init__(self, module, acc=None):
        self.module = module
        self.acc = acc                      # accumulator name (main loop body) or None (helper)
        self.consts = {}                    # module constants used: name -> value
        self.helpers = {}                   # helper functions used: name -> FunctionDef
        self.fresh_lists = set()

    # ---- module-level facts
    def module_const(self, name):
        if name in self.consts:
            return True
        defs = [n for n in self.module.body if isinstance(n, ast.Assign) and len(n.targets) == 1
                and isinstance(n.targets[0], ast.Name) and n.targets[0].id == name]
        if len(defs) != 1:
            return False
        try:
            val = ast.literal_eval(defs[0].value)
        except Exception:
            return False
        stores = 0
        for n in ast.walk(self.module):
            if isinstance(n, ast.Name) and n.id == name and isinstance(n.ctx, (ast.Store, ast.Del)):
                stores += 1
            if isinstance(n, ast.Subscript) and isinstance(n.value, ast.Name) and n.value.id == name \
                    and isinstance(n.ctx, (ast.Store, ast.Del)):
                raise Refuse(f"module constant {name} is modified by subscript assignment")
            if isinstance(n, ast.AugAssign) and isinstance(n.target, ast.Name) and n.target.id == name:
                raise Refuse(f"module constant {name} is modified by augmented assignment")
            if isinstance(n, ast.Call) and isinstance(n.func, ast.Attribute) and isinstance(n.func.value, ast.Name) \
                    and n.func.value.id == name and n.func.attr in MUTATORS:
                raise Refuse(f"module constant {name} is modified by .{n.func.attr}()")
            if isinstance(n, (ast.Global,)) and name in n.names:
                raise Refuse(f"module constant {name} is declared global in a function")
        if stores != 1:
            return False
        self.consts[name] = val
        return True

    def helper(self, name, stack):
        if name in self.helpers:
            return True
        defs = [n for n in self.module.body if isinstance(n, ast.FunctionDef) and n.name == name]
        if len(defs) != 1:
            return False
        if name in stack:
            raise Refuse(f"helper {name} is recursive")
        if len(stack) > 4:
            raise Refuse("helper calls nested too deeply")
        fn = defs[0]
        a = fn.args
        if a.vararg or a.kwarg or a.kwonlyargs or a.posonlyargs or a.defaults or fn.decorator_list:
            raise Refuse(f"helper {name}: only plain positional parameters are followed")
        sub = Purity(self.module, None)
        sub.consts, sub.helpers = self.consts, self.helpers
        sub.block(_strip_doc(fn.body), {x.arg for x in a.args}, 0, stack + [name], in_helper=True)
        self.helpers[name] = fn
        return True

    # ---- expressions
    def expr(self, node, assigned, stack):
        for n in ast.walk(node):
            if isinstance(n, BAD_NODES):
                raise Refuse(f"line {getattr(n, 'lineno', '?')}: {type(n).__name__} is not followed")
            if isinstance(n, ast.Name):
                if not isinstance(n.ctx, ast.Load):
                    raise Refuse(f"line {n.lineno}: assignment inside an expression")
                if n.id == self.acc:
                    raise Refuse(f"line {n.lineno}: the accumulator {n.id} is read inside the loop body")
                if n.id in assigned:
                    continue
                if n.id in PURE_BUILTINS and not self._shadowed(n.id):
                    continue
                if self.module_const(n.id) or self.helper(n.id, stack):
                    continue
                raise Refuse(f"line {n.lineno}: name {n.id} is not a local assigned earlier in the same iteration, a pure "
                             f"builtin, a literal module constant or a private helper")
            if isinstance(n, ast.Attribute):
                if n.attr not in PURE_METHODS:
                    raise Refuse(f"line {n.lineno}: attribute .{n.attr} is not a known pure method")
            if isinstance(n, ast.Call):
                f = n.func
                if isinstance(f, ast.Name):
                    if not ((f.id in PURE_BUILTINS and not self._shadowed(f.id)) or self.helper(f.id, stack)):
                        raise Refuse(f"line {n.lineno}: call of {f.id} is not followed")
                elif not isinstance(f, ast.Attribute):
                    raise Refuse(f"line {n.lineno}: computed call target")
                if n.keywords:
                    raise Refuse(f"line {n.lineno}: keyword arguments are not followed")
        # every Attribute must be the function of a Call (no bound-method values)
        called = {id(c.func) for c in ast.walk(node) if isinstance(c, ast.Call)}
        for n in ast.walk(node):
            if isinstance(n, ast.Attribute) and id(n) not in called:
                raise Refuse(f"line {n.lineno}: attribute value .{n.attr} used without calling it")

    def _shadowed(self, name):
        return any(isinstance(n, (ast.FunctionDef, ast.ClassDef)) and n.name == name for n in self.module.body) or any(
            isinstance(n, ast.Assign) and any(isinstance(t, ast.Name) and t.id == name for t in n.targets) for n in self.module.body)

    # ---- statements; returns (definitely assigned after, falls through)
    def block(self, stmts, assigned, depth, stack, in_helper=False):
        assigned = set(assigned)
        for st in stmts:
            if isinstance(st, BAD_NODES):
                raise Refuse(f"line {st.lineno}: {type(st).__name__} is not followed")
            if isinstance(st, ast.Pass):
                continue
            if isinstance(st, ast.Expr):
                c = st.value
                if isinstance(c, ast.Call) and isinstance(c.func, ast.Attribute) and isinstance(c.func.value, ast.Name) \
                        and c.func.attr in ("append", "extend") and not c.keywords and len(c.args) == 1:
                    recv = c.func.value.id
                    if recv == self.acc or (recv in self.fresh_lists and recv in assigned):
                        self.expr(c.args[0], assigned, stack)
                        continue
                    raise Refuse(f"line {st.lineno}: .{c.func.attr}() on {recv}, which is neither the accumulator nor a fresh local list")
                if isinstance(c, ast.Constant):
                    continue
                raise Refuse(f"line {st.lineno}: expression statement with possible side effects")
            if isinstance(st, ast.Assign):
                self.expr(st.value, assigned, stack)
                for t in st.targets:
                    names = [t] if isinstance(t, ast.Name) else list(t.elts) if isinstance(t, (ast.Tuple, ast.List)) else None
                    if names is None or not all(isinstance(x, ast.Name) for x in names):
                        raise Refuse(f"line {st.lineno}: assignment to something other than local names")
                    for x in names:
                        if x.id == self.acc:
                            raise Refuse(f"line {st.lineno}: the accumulator is reassigned inside the loop")
                        if x.id in self.consts or x.id in self.helpers or x.id in PURE_BUILTINS:
                            raise Refuse(f"line {st.lineno}: local {x.id} shadows a global that is used")
                        assigned.add(x.id)
                        if isinstance(t, ast.Name) and isinstance(st.value, ast.List):
                            self.fresh_lists.add(x.id)
                        else:
                            self.fresh_lists.discard(x.id)
                continue
            if isinstance(st, ast.AugAssign):
                if not isinstance(st.target, ast.Name) or st.target.id not in assigned or st.target.id == self.acc:
                    raise Refuse(f"line {st.lineno}: augmented assignment to a name not assigned earlier in the same iteration")
                self.expr(st.value, assigned, stack)
                self.fresh_lists.discard(st.target.id)
                continue
            if isinstance(st, ast.If):
                self.expr(st.test, assigned, stack)
                a1, f1 = self.block(st.body, assigned, depth, stack, in_helper)
                a2, f2 = self.block(st.orelse, assigned, depth, stack, in_helper)
                if f1 and f2:
                    assigned = a1 & a2
                elif f1:
                    assigned = a1
                elif f2:
                    assigned = a2
                else:
                    return assigned, False
                continue
            if isinstance(st, ast.For):
                if st.orelse:
                    raise Refuse(f"line {st.lineno}: for … else is not followed")
                self.expr(st.iter, assigned, stack)
                t = st.target
                names = [t] if isinstance(t, ast.Name) else list(t.elts) if isinstance(t, ast.Tuple) else None
                if names is None or not all(isinstance(x, ast.Name) for x in names):
                    raise Refuse(f"line {st.lineno}: loop target is not a local name")
                if any(x.id == self.acc for x in names):
                    raise Refuse(f"line {st.lineno}: the accumulator is a loop target")
                self.block(st.body, assigned | {x.id for x in names}, depth + 1, stack, in_helper)
                continue                                    # the body may not run: nothing new is definitely assigned
            if isinstance(st, ast.Continue):
                return assigned, False
            if isinstance(st, ast.Break):
                if depth == 0:
                    raise Refuse(f"line {st.lineno}: `break` in the per-character loop (later characters would be dropped)")
                return assigned, False
            if isinstance(st, ast.Return):
                if not in_helper:
                    raise Refuse(f"line {st.lineno}: `return` inside the per-character loop")
                if st.value is not None:
                    self.expr(st.value, assigned, stack)
                return assigned, False
            if isinstance(st, ast.Raise):
                if st.exc is not None:
                    raise Refuse(f"line {st.lineno}: raise with a computed exception is not followed")
                return assigned, False
            raise Refuse(f"line {st.lineno}: {type(st).__name__} is not followed")
        return assigned, True


def _const_str(node):
    return node.value if isinstance(node, ast.Constant) and isinstance(node.value, str) else None


def read_frame(fn):
    """-> (param, acc, loopvar, OPEN, CLOSE, loop body) or Refuse"""
    a = fn.args
    if len(a.args) != 1 or a.vararg or a.kwarg or a.kwonlyargs or a.posonlyargs or a.defaults or fn.decorator_list:
        raise Refuse("string() is expected to take exactly one plain parameter")
    param = a.args[0].arg
    body = _strip_doc(fn.body)
    if len(body) != 4:
        raise Refuse(f"string() has {len(body)} top-level statements; the modelled frame is ACC = [OPEN]; for c in s: …; "
                     f"ACC.append(CLOSE); return ''.join(ACC)")
    s0, s1, s2, s3 = body
    if not (isinstance(s0, ast.Assign) and len(s0.targets) == 1 and isinstance(s0.targets[0], ast.Name)
            and isinstance(s0.value, ast.List) and len(s0.value.elts) == 1 and _const_str(s0.value.elts[0]) is not None):
        raise Refuse("first statement is not ACC = [<string literal>]")
    acc, op = s0.targets[0].id, _const_str(s0.value.elts[0])
    if not (isinstance(s1, ast.For) and not s1.orelse and isinstance(s1.target, ast.Name) and isinstance(s1.iter, ast.Name)
            and s1.iter.id == param):
        raise Refuse("second statement is not `for c in <parameter>:` (a per-character loop over the argument)")
    v = s1.target.id
    if not (isinstance(s2, ast.Expr) and isinstance(s2.value, ast.Call) and isinstance(s2.value.func, ast.Attribute)
            and s2.value.func.attr == "append" and isinstance(s2.value.func.value, ast.Name) and s2.value.func.value.id == acc
            and len(s2.value.args) == 1 and not s2.value.keywords and _const_str(s2.value.args[0]) is not None):
        raise Refuse("third statement is not ACC.append(<string literal>)")
    cl = _const_str(s2.value.args[0])
    if not (isinstance(s3, ast.Return) and isinstance(s3.value, ast.Call) and isinstance(s3.value.func, ast.Attribute)
            and s3.value.func.attr == "join" and _const_str(s3.value.func.value) == "" and len(s3.value.args) == 1
            and not s3.value.keywords and isinstance(s3.value.args[0], ast.Name) and s3.value.args[0].id == acc):
        raise Refuse("last statement is not return ''.join(ACC): something runs over the joined result")
    if len({param, acc, v}) != 3:
        raise Refuse("parameter, accumulator and loop variable are not three distinct names")
    return param, acc, v, op, cl, s1.body


_CACHE = {}


def accept(module):
    """Refuse unless writer.string is provably the model's function (module docstring). Returns a short description."""
    fn = _func(module, "string")
    param, acc, v, op, cl, body = read_frame(fn)
    if [ord(c) for c in op] != PINNED["openQuote"] or [ord(c) for c in cl] != PINNED["closeQuote"]:
        raise Refuse(f"opening/closing pieces are {op!r}/{cl!r}, the model has a double quote on both sides")
    pur = Purity(module, acc)
    for n in ast.walk(ast.Module(body=body, type_ignores=[])):
        if isinstance(n, ast.Name) and n.id == param:
            raise Refuse(f"line {n.lineno}: the whole argument {param} is read inside the per-character loop")
    pur.block(body, {v}, 0, ["string"])
    # ---- compile body + helpers + constants in an empty namespace
    key = ast.dump(fn) + "|" + "|".join(ast.dump(h) for h in pur.helpers.values()) + "|" + repr(sorted(pur.consts.items(), key=repr))
    if key in _CACHE:
        return _CACHE[key]
    loop = ast.For(target=ast.Name(id=v, ctx=ast.Store()), iter=ast.Tuple(elts=[ast.Name(id=v, ctx=ast.Load())], ctx=ast.Load()),
                   body=body, orelse=[])
    per_char = ast.FunctionDef(
        name="__per_char", args=ast.arguments(posonlyargs=[], args=[ast.arg(arg=v)], kwonlyargs=[], kw_defaults=[], defaults=[]),
        body=[ast.Assign(targets=[ast.Name(id=acc, ctx=ast.Store())], value=ast.List(elts=[], ctx=ast.Load())), loop,
              ast.Return(value=ast.Call(func=ast.Attribute(value=ast.Constant(value=""), attr="join", ctx=ast.Load()),
                                        args=[ast.Name(id=acc, ctx=ast.Load())], keywords=[]))],
        decorator_list=[])
    mod = ast.Module(body=list(pur.helpers.values()) + [per_char, fn], type_ignores=[])
    ast.fix_missing_locations(mod)
    ns = {"__builtins__": dict(PURE_BUILTINS)}
    ns.update(pur.consts)
    exec(compile(mod, "<writer.string from the repository>", "exec"), ns)
    f, whole = ns["__per_char"], ns["string"]
    # ---- complete finite domain: every code point
    for cp in range(0x110000):
        try:
            got = f(chr(cp))
        except Exception as e:  # noqa
            raise Refuse(f"the loop body raises {type(e).__name__} on U+{cp:04X}")
        if got != model_esc_char(cp):
            raise Refuse(f"per-character function differs from the model's escChar at U+{cp:04X}: code appends {got!r}, "
                         f"model {model_esc_char(cp)!r}")
    # ---- belt and braces: the whole function on multi-character strings
    probes = ["", "\\", "\\u", "\\U0001f600", "a\"b'c\\", "\r\n\t\x00\x7f", "😀", "\ude00\ud83d", "\U0001F600\\u0041",
              "\\" * 5 + "u0041", "\U0010FFFF\U00010000￿"]
    probes += ["".join(chr((i * 7919 + j * 104729) % 0x110000) for j in range(i % 7)) + "\\U%08x" % (i * 37) for i in range(300)]
    for p in probes:
        try:
            got = whole(p)
        except Exception as e:  # noqa
            raise Refuse(f"string() raises {type(e).__name__} on {p!r}")
        if got != model_string(p):
            raise Refuse(f"string({p!r}) = {got!r}, the model gives {model_string(p)!r}")
    desc = (f"per-character loop over {param} (accumulator {acc}, loop variable {v}); helpers followed: "
            f"{sorted(pur.helpers) or 'none'}; module constants used: {sorted(pur.consts) or 'none'}; equal to the model's "
            f"escChar on all 0x110000 code points")
    _CACHE[key] = desc
    return desc


def _method(tree, cls, name):
    for n in tree.body:
        if isinstance(n, ast.ClassDef) and n.name == cls:
            return _func(n, name)
    raise ValueError(f"class {cls} not found")


def shapes(repo):
    t = ast.parse(open(os.path.join(repo, "androguard/decompiler/writer.py")).read())
    return _literals(_method(t, "Writer", "visit_constant"))[1]


def generate(repo):
    t = ast.parse(open(os.path.join(repo, "androguard/decompiler/writer.py")).read())
    vl, vsh = _literals(_method(t, "Writer", "visit_constant"))
    if vsh != VISIT_SHAPE:
        raise ValueError(f"Writer.visit_constant has a different shape ({vsh}, literals {vl!r}) from the one modelled "
                         f"({VISIT_SHAPE})")
    try:
        accept(t)
    except Refuse as e:
        raise ValueError("writer.string is not recognisably the per-character escaper modelled in Model/JavaString.lean "
                         "(the hand-written model does not describe this code): " + str(e))
    L = ["/- GENERATED by gen/jstring.py from androguard/decompiler/writer.py string() — do not edit.",
         "   (emitted only after the source was accepted as the modelled per-character escaper, see gen/jstring.py) -/",
         "namespace AgVerif.Gen.JString", ""]
    for k, v in PINNED.items():
        ty = "List Nat" if isinstance(v, list) else "Nat"
        val = "[" + ", ".join(map(str, v)) + "]" if isinstance(v, list) else str(v)
        L.append(f"def {k} : {ty} := {val}")
    L += ["", "end AgVerif.Gen.JString"]
    return {"JString": "\n".join(L) + "\n"}
