"""Translator for C04: androguard/core/dex/__init__.py  ->  lean/AgVerif/Gen/ValueTypes.lean

Reads the working tree by AST only (no import) and emits
  * the `VALUE_*` constants,
  * the header split of `EncodedValue.__init__` (`self.val >> argShift`, `self.val & typeMask`),
  * the DISPATCH TABLE of `EncodedValue.__init__`: for every value_type 0..31 the branch of the
    if/elif chain that is taken (the tests are evaluated on the constants), classified by what the
    branch body does (`Kind`: sign-extending / zero-extending integer read, float read of 4 or 8 bytes,
    index read resolved through cm.get_raw_string / get_type / get_field / get_method, EncodedArray,
    EncodedAnnotation, signed / unsigned single byte, None, boolean from value_arg, unknown).
The Lean model dispatches through this table and the theorems of Props/C04.lean compare it with the
specification's table, so a changed branch (wrong type constant, signed flag dropped, branch removed or
reordered) either still proves or breaks the build.
A branch body this translator does not recognise makes it fail (broken obligation, deeper search)
rather than being silently mapped to something.
`pins(repo)` returns normalised-AST hashes of the hand-modelled helpers.
"""
import ast
import hashlib
import os

SRC = "androguard/core/dex/__init__.py"
DEC = "androguard/decompiler/decompile.py"


class Unrecognised(Exception):
    pass


def _tree(repo, rel):
    path = os.path.join(repo, rel)
    return ast.parse(open(path).read(), path)


def _cls(tree, name):
    for n in tree.body:
        if isinstance(n, ast.ClassDef) and n.name == name:
            return n
    raise Unrecognised(f"class {name} not found")


def _fn(cls, name):
    for n in cls.body:
        if isinstance(n, ast.FunctionDef) and n.name == name:
            return n
    raise Unrecognised(f"{getattr(cls, 'name', '?')}.{name} not found")


def value_constants(tree):
    out = {}
    for n in tree.body:
        if isinstance(n, ast.Assign) and len(n.targets) == 1 and isinstance(n.targets[0], ast.Name) \
                and n.targets[0].id.startswith("VALUE_"):
            v = n.value
            if not (isinstance(v, ast.Constant) and isinstance(v.value, int) and not isinstance(v.value, bool)):
                raise Unrecognised(f"{n.targets[0].id} is not an integer literal")
            out[n.targets[0].id] = v.value
    if not out:
        raise Unrecognised("no VALUE_* constants")
    return out


def _is_self(node, attr):
    return isinstance(node, ast.Attribute) and isinstance(node.value, ast.Name) and node.value.id == "self" \
        and node.attr == attr


def _eval(node, env, vt):
    """evaluate a branch test for value_type = vt"""
    if isinstance(node, ast.Constant) and isinstance(node.value, int):
        return node.value
    if isinstance(node, ast.Name):
        if node.id in env:
            return env[node.id]
        raise Unrecognised("unknown name %s in a branch test" % node.id)
    if _is_self(node, "value_type"):
        return vt
    if isinstance(node, ast.Tuple) or isinstance(node, ast.List) or isinstance(node, ast.Set):
        return [_eval(e, env, vt) for e in node.elts]
    if isinstance(node, ast.BoolOp):
        vals = [_eval(v, env, vt) for v in node.values]
        return all(vals) if isinstance(node.op, ast.And) else any(vals)
    if isinstance(node, ast.UnaryOp) and isinstance(node.op, ast.Not):
        return not _eval(node.operand, env, vt)
    if isinstance(node, ast.Compare):
        left = _eval(node.left, env, vt)
        for op, rhs in zip(node.ops, node.comparators):
            right = _eval(rhs, env, vt)
            if isinstance(op, ast.Eq):
                r = left == right
            elif isinstance(op, ast.NotEq):
                r = left != right
            elif isinstance(op, ast.Lt):
                r = left < right
            elif isinstance(op, ast.LtE):
                r = left <= right
            elif isinstance(op, ast.Gt):
                r = left > right
            elif isinstance(op, ast.GtE):
                r = left >= right
            elif isinstance(op, ast.In):
                r = left in right
            elif isinstance(op, ast.NotIn):
                r = left not in right
            else:
                raise Unrecognised("comparison operator at line %d" % node.lineno)
            if not r:
                return False
            left = right
        return True
    raise Unrecognised("branch test at line %d: %s" % (node.lineno, ast.unparse(node)))


def _is_read_arg_plus_1(node):
    """buff.read(self.value_arg + 1)"""
    return (isinstance(node, ast.Call) and isinstance(node.func, ast.Attribute) and node.func.attr == "read"
            and isinstance(node.func.value, ast.Name) and node.func.value.id == "buff" and len(node.args) == 1
            and not node.keywords
            and isinstance(node.args[0], ast.BinOp) and isinstance(node.args[0].op, ast.Add)
            and _is_self(node.args[0].left, "value_arg")
            and isinstance(node.args[0].right, ast.Constant) and node.args[0].right.value == 1)


def _self_call(node, name):
    return (isinstance(node, ast.Call) and isinstance(node.func, ast.Attribute) and node.func.attr == name
            and isinstance(node.func.value, ast.Name) and node.func.value.id == "self")


def _int_read(call):
    """self._getintvalue(buff.read(self.value_arg + 1)[, signed=<bool>]) -> 'intS' / 'intU'"""
    if not _self_call(call, "_getintvalue") or len(call.args) != 1 or not _is_read_arg_plus_1(call.args[0]):
        return None
    signed = False
    for k in call.keywords:
        if k.arg == "signed" and isinstance(k.value, ast.Constant) and isinstance(k.value.value, bool):
            signed = k.value.value
        else:
            raise Unrecognised("keyword of _getintvalue at line %d" % call.lineno)
    return "intS" if signed else "intU"


def _float_read(call):
    if not _self_call(call, "_getfloatvalue") or len(call.args) != 2 or call.keywords \
            or not _is_read_arg_plus_1(call.args[0]):
        return None
    s = call.args[1]
    if isinstance(s, ast.Constant) and s.value in (4, 8):
        return "float32" if s.value == 4 else "float64"
    raise Unrecognised("size argument of _getfloatvalue at line %d" % call.lineno)


CM_KIND = {"get_raw_string": "str", "get_type": "type", "get_field": "field", "get_method": "method"}


def classify(body):
    """what a branch body of EncodedValue.__init__ does"""
    # statements that only set self.raw_value do not affect the reported value
    stmts = [s for s in body
             if not (isinstance(s, ast.Assign) and len(s.targets) == 1 and _is_self(s.targets[0], "raw_value"))]
    where = "line %d" % body[0].lineno
    if len(stmts) == 1 and isinstance(stmts[0], ast.Expr) and isinstance(stmts[0].value, ast.Call):
        f = stmts[0].value.func
        if isinstance(f, ast.Attribute) and isinstance(f.value, ast.Name) and f.value.id == "logger":
            return "unknown"
    if len(stmts) == 1 and isinstance(stmts[0], ast.If):
        i = stmts[0]
        def _sets(bl, val):
            return (len(bl) == 1 and isinstance(bl[0], ast.Assign) and len(bl[0].targets) == 1
                    and _is_self(bl[0].targets[0], "value") and isinstance(bl[0].value, ast.Constant)
                    and bl[0].value.value is val)
        if _is_self(i.test, "value_arg") and _sets(i.body, True) and _sets(i.orelse, False):
            return "bool"
        raise Unrecognised("conditional branch body at " + where)
    if len(stmts) == 1 and isinstance(stmts[0], ast.Assign) and len(stmts[0].targets) == 1:
        t, v = stmts[0].targets[0], stmts[0].value
        if isinstance(t, ast.Tuple) and len(t.elts) == 2 and _is_self(t.elts[0], "value") \
                and _is_self(t.elts[1], "raw_value"):
            k = _int_read(v) or _float_read(v)
            if k:
                return k
        if _is_self(t, "value"):
            if isinstance(v, ast.Constant) and v.value is None:
                return "null"
            if isinstance(v, ast.Call) and isinstance(v.func, ast.Name) and len(v.args) == 2 \
                    and [getattr(a, "id", None) for a in v.args] in (["buff", "cm"], ["cm", "buff"]):
                m = {"EncodedArray": "array", "EncodedAnnotation": "annotation",
                     "get_byte": "ubyte", "get_sbyte": "sbyte"}.get(v.func.id)
                if m:
                    return m
        raise Unrecognised("assignment at " + where + ": " + ast.unparse(stmts[0]))
    if len(stmts) == 2 and all(isinstance(s, ast.Assign) and len(s.targets) == 1 for s in stmts):
        t0, v0 = stmts[0].targets[0], stmts[0].value
        t1, v1 = stmts[1].targets[0], stmts[1].value
        if isinstance(t0, ast.Tuple) and len(t0.elts) == 2 and isinstance(t0.elts[0], ast.Name) \
                and _is_self(t0.elts[1], "raw_value") and _int_read(v0) == "intU" and _is_self(t1, "value") \
                and isinstance(v1, ast.Call) and isinstance(v1.func, ast.Attribute) \
                and isinstance(v1.func.value, ast.Name) and v1.func.value.id == "cm" \
                and v1.func.attr in CM_KIND and len(v1.args) == 1 and isinstance(v1.args[0], ast.Name) \
                and v1.args[0].id == t0.elts[0].id:
            return CM_KIND[v1.func.attr]
    raise Unrecognised("branch body at " + where + ": " + "; ".join(ast.unparse(s) for s in body)[:200])


def extract(repo):
    tree = _tree(repo, SRC)
    consts = value_constants(tree)
    init = _fn(_cls(tree, "EncodedValue"), "__init__")
    shift = mask = None
    chain = None
    for s in init.body:
        if isinstance(s, ast.Assign) and len(s.targets) == 1:
            t, v = s.targets[0], s.value
            if _is_self(t, "value_arg"):
                if isinstance(v, ast.BinOp) and isinstance(v.op, ast.RShift) and _is_self(v.left, "val") \
                        and isinstance(v.right, ast.Constant):
                    shift = v.right.value
                else:
                    raise Unrecognised("value_arg is not self.val >> const")
            if _is_self(t, "value_type"):
                if isinstance(v, ast.BinOp) and isinstance(v.op, ast.BitAnd) and _is_self(v.left, "val") \
                        and isinstance(v.right, ast.Constant):
                    mask = v.right.value
                else:
                    raise Unrecognised("value_type is not self.val & const")
            if _is_self(t, "val"):
                if not (isinstance(v, ast.Call) and isinstance(v.func, ast.Name) and v.func.id == "get_byte"):
                    raise Unrecognised("self.val is not get_byte(cm, buff)")
        if isinstance(s, ast.If):
            if chain is not None:
                raise Unrecognised("more than one if chain in EncodedValue.__init__")
            chain = s
    if shift is None or mask is None or chain is None:
        raise Unrecognised("EncodedValue.__init__: header split or dispatch chain not found")
    # flatten the chain
    branches = []
    node = chain
    while True:
        branches.append((node.test, node.body))
        if len(node.orelse) == 1 and isinstance(node.orelse[0], ast.If):
            node = node.orelse[0]
        else:
            orelse = node.orelse
            break
    else_kind = classify(orelse) if orelse else "unknown"
    kinds = [classify(b) for _, b in branches]
    table = []
    for vt in range(mask + 1):
        k = else_kind
        for (test, _), kind in zip(branches, kinds):
            if _eval(test, consts, vt):
                k = kind
                break
        table.append(k)
    return consts, shift, mask, table


def _norm_hash(fn):
    return hashlib.sha256(ast.dump(fn, annotate_fields=False, include_attributes=False).encode()).hexdigest()[:16]


def pins(repo):
    """normalised-AST hashes of the hand-modelled functions"""
    tree = _tree(repo, SRC)
    out = {}
    ev = _cls(tree, "EncodedValue")
    for name in ("_getintvalue", "_getfloatvalue"):
        try:
            out["EncodedValue." + name] = _norm_hash(_fn(ev, name))
        except Unrecognised:
            out["EncodedValue." + name] = None
    for cname, fname in (("EncodedArray", "__init__"), ("EncodedAnnotation", "__init__"),
                         ("AnnotationElement", "__init__"), ("ClassDataItem", "set_static_fields")):
        out[cname + "." + fname] = _norm_hash(_fn(_cls(tree, cname), fname))
    dt = _tree(repo, DEC)
    for n in dt.body:
        if isinstance(n, ast.FunctionDef) and n.name == "get_field_init_literal":
            out["decompile.get_field_init_literal"] = _norm_hash(n)
    out["DvClass.get_source"] = _norm_hash(_fn(_cls(dt, "DvClass"), "get_source"))
    return out


def generate(repo):
    consts, shift, mask, table = extract(repo)
    lines = ["/- GENERATED by gen/valuetypes.py from androguard/core/dex/__init__.py",
             "   (VALUE_* constants, EncodedValue.__init__ header split and dispatch chain). Do not edit. -/",
             "import AgVerif.Model.EncodedValueKinds",
             "namespace AgVerif.Gen.ValueTypes",
             "open AgVerif.EncodedValue",
             ""]
    for k, v in consts.items():
        lines.append("def %s : Nat := 0x%02x" % (k, v))
    lines += ["",
              "/-- `self.value_arg = self.val >> argShift` -/",
              "def argShift : Nat := %d" % shift,
              "/-- `self.value_type = self.val & typeMask` -/",
              "def typeMask : Nat := 0x%02x" % mask,
              "",
              "/-- branch of the if/elif chain of EncodedValue.__init__ taken by each value_type 0..typeMask -/",
              "def dispatch : List Kind :=",
              "  [" + ",\n   ".join(
                  ", ".join("." + k for k in table[i:i + 8]) for i in range(0, len(table), 8)) + "]",
              "",
              "end AgVerif.Gen.ValueTypes", ""]
    return {"ValueTypes": "\n".join(lines)}


if __name__ == "__main__":
    import sys
    r = sys.argv[1] if len(sys.argv) > 1 else "/repo"
    print(generate(r)["ValueTypes"])
    print(pins(r))
