"""Translator for C37/C38:  androguard/misc.py, androguard/cli/main.py  ->  lean/AgVerif/Gen/Paths.lean

AST only (no import).  From `clean_file_name`:
  * every regular expression literal, in source order, with the `re` function it is given to
    (text pinned by Props/C38.lean `gen_pins`; the hand-compiled structure of the model depends on it),
  * the character classes `[...]` of those patterns parsed into code point ranges (the model's
    predicates are built from the ranges, so a changed class changes the model and the theorems are
    re-checked against it),
  * the alternatives of the reserved-name pattern `(CON|PRN|...|COM[1-9]|LPT[1-9])`,
  * PATH_MAX_LENGTH, the divisor in `max_length // 2`, the format string of the uniqueness suffix.
From cli/main.py:
  * `valid_class_name`: the tuple of dropped path segments,
  * `export_apps_to_format`: the pattern/replacement applied to the method's short string and the
    string constants appended to the created file names (".java", ".ag").
Anything that is not recognised raises (the check records a broken obligation and searches).
"""
import ast
import os

MISC = "androguard/misc.py"
CLI = "androguard/cli/main.py"


class Unrecognised(Exception):
    pass


def _fn(tree, name):
    for n in ast.walk(tree):
        if isinstance(n, ast.FunctionDef) and n.name == name:
            return n
    raise Unrecognised(f"function {name} not found")


def _re_calls(fn, strict=True):
    """[(func, pattern, [other constant string args])] for every re.<func>(<literal>, ...) in source order"""
    out = []
    for n in ast.walk(fn):
        if (isinstance(n, ast.Call) and isinstance(n.func, ast.Attribute) and isinstance(n.func.value, ast.Name)
                and n.func.value.id == "re"):
            if not n.args or not (isinstance(n.args[0], ast.Constant) and isinstance(n.args[0].value, str)):
                if not strict:
                    continue
                raise Unrecognised(f"re.{n.func.attr} with a non-literal pattern at line {n.lineno}")
            extra = [a.value for a in n.args[1:] if isinstance(a, ast.Constant) and isinstance(a.value, str)]
            out.append((n.lineno, n.col_offset, n.func.attr, n.args[0].value, extra))
    out.sort()
    return [(f, p, e) for _, _, f, p, e in out]


def parse_class(pat, i=0):
    """parse a character class starting at pat[i] == '[' ; returns (ranges, index after ']')"""
    if pat[i] != "[":
        raise Unrecognised(f"character class expected in {pat!r} at {i}")
    i += 1
    if i < len(pat) and pat[i] == "^":
        raise Unrecognised("negated class")
    items = []

    def atom(i):
        c = pat[i]
        if c == "\\":
            d = pat[i + 1]
            if d == "x":
                return int(pat[i + 2:i + 4], 16), i + 4
            if d in "\\[]-^.$*+?|(){}\"'/":
                return ord(d), i + 2
            if d == "n":
                return 10, i + 2
            if d == "t":
                return 9, i + 2
            raise Unrecognised(f"escape \\{d} in {pat!r}")
        return ord(c), i + 1

    first = True
    while True:
        if i >= len(pat):
            raise Unrecognised(f"unterminated class in {pat!r}")
        if pat[i] == "]" and not first:
            return items, i + 1
        first = False
        lo, i = atom(i)
        if i + 1 < len(pat) and pat[i] == "-" and pat[i + 1] != "]":
            hi, i = atom(i + 1)
            if hi < lo:
                raise Unrecognised("bad range")
            items.append((lo, hi))
        else:
            items.append((lo, lo))


def only_class(pat, suffix=""):
    rs, j = parse_class(pat, 0)
    if pat[j:] != suffix:
        raise Unrecognised(f"pattern {pat!r}: expected a single class followed by {suffix!r}")
    return rs


def parse_names(pat):
    """(A|B|C[1-9]) -> [(literal, ranges)]"""
    if not (pat.startswith("(") and pat.endswith(")")):
        raise Unrecognised(f"reserved-name pattern {pat!r}")
    alts = []
    for alt in pat[1:-1].split("|"):
        k = alt.find("[")
        lit, rs = (alt, []) if k < 0 else (alt[:k], None)
        if rs is None:
            rs, j = parse_class(alt, k)
            if j != len(alt):
                raise Unrecognised(f"alternative {alt!r}")
        if not lit or not all(c.isalnum() for c in lit):
            raise Unrecognised(f"alternative {alt!r}")
        alts.append((lit, rs))
    return alts


# ---------------------------------------------------------------- Lean literals
def lstr(s):
    out = []
    for c in s:
        o = ord(c)
        if c == "\\":
            out.append("\\\\")
        elif c == '"':
            out.append('\\"')
        elif 32 <= o < 127:
            out.append(c)
        else:
            out.append("\\u{%x}" % o)
    return '"' + "".join(out) + '"'


def lchar(c):
    o = ord(c)
    if c == "\\":
        return "'\\\\'"
    if c == "'":
        return "'\\''"
    if 32 <= o < 127:
        return "'" + c + "'"
    return "'\\u{%x}'" % o


def lchars(s):
    return "[" + ", ".join(lchar(c) for c in s) + "]"


def lranges(rs):
    return "[" + ", ".join(f"({a}, {b})" for a, b in rs) + "]"


def extract(repo):
    misc = ast.parse(open(os.path.join(repo, MISC)).read())
    cfn = _fn(misc, "clean_file_name")
    calls = _re_calls(cfn)
    kinds = [f for f, _, _ in calls]
    if kinds != ["search", "match", "sub", "sub", "sub"]:
        raise Unrecognised(f"clean_file_name: re calls are {kinds}, expected search, match, sub, sub, sub "
                           "(replacement check, reserved names, reserved characters, trailing rule, trailing rule "
                           "after the cut)")
    d = {"clean_calls": calls}
    d["replace_check"] = only_class(calls[0][1])
    d["names"] = parse_names(calls[1][1])
    d["reserved"] = only_class(calls[2][1])
    d["trailing"] = only_class(calls[3][1], "$")
    if calls[4][1] != calls[3][1]:
        raise Unrecognised("the trailing rule applied after the cut differs from the one applied before")
    # constants
    pml = [n for n in ast.walk(cfn) if isinstance(n, ast.Assign) and len(n.targets) == 1
           and isinstance(n.targets[0], ast.Name) and n.targets[0].id == "PATH_MAX_LENGTH"]
    if len(pml) != 1 or not isinstance(pml[0].value, ast.Constant) or type(pml[0].value.value) is not int:
        raise Unrecognised("PATH_MAX_LENGTH")
    d["path_max_length"] = pml[0].value.value
    divs = [n for n in ast.walk(cfn) if isinstance(n, ast.BinOp) and isinstance(n.op, ast.FloorDiv)]
    if (len(divs) != 1 or not isinstance(divs[0].right, ast.Constant) or type(divs[0].right.value) is not int
            or ast.unparse(divs[0].left) != "max_length"):
        raise Unrecognised("extension cap `max_length // <int>`")
    d["ext_divisor"] = divs[0].right.value
    fmts = [n for n in ast.walk(cfn) if isinstance(n, ast.Call) and isinstance(n.func, ast.Attribute)
            and n.func.attr == "format" and isinstance(n.func.value, ast.Constant)]
    if len(fmts) != 1 or not fmts[0].func.value.value.endswith("{}") or ast.unparse(fmts[0].args[0]) != "counter":
        raise Unrecognised("uniqueness suffix format")
    d["suffix_format"] = fmts[0].func.value.value
    d["suffix_lead"] = fmts[0].func.value.value[:-2]
    if "{" in d["suffix_lead"] or "}" in d["suffix_lead"]:
        raise Unrecognised("uniqueness suffix format")
    # the uniqueness loop must probe exactly the path that is returned: `path` comes from os.path.split(filename)
    # and nothing else, the loop tests os.path.isfile(os.path.join(path, fname)) and the function returns
    # os.path.join(path, fname).  (The model's `isfile` is asked about the RETURNED string.)
    own = [n for n in ast.walk(cfn)]
    nested = [n for n in own if isinstance(n, ast.FunctionDef) and n is not cfn]
    inner = {id(x) for f in nested for x in ast.walk(f)}
    whiles = [n for n in own if isinstance(n, ast.While)]
    if len(whiles) != 1:
        raise Unrecognised(f"clean_file_name: {len(whiles)} while loops, expected the uniqueness loop only")
    probe = ast.unparse(whiles[0].test)
    rets = [n for n in own if isinstance(n, ast.Return) and id(n) not in inner]
    if len(rets) != 1 or rets[0].value is None:
        raise Unrecognised("clean_file_name: expected exactly one return")
    ret = ast.unparse(rets[0].value)
    if ret != "os.path.join(path, fname)":
        raise Unrecognised(f"clean_file_name returns {ret!r}, expected os.path.join(path, fname)")
    if probe != f"os.path.isfile({ret})":
        raise Unrecognised(f"the uniqueness loop probes {probe!r}, not os.path.isfile of the returned path {ret!r}")
    binds = []
    for n in own:
        tg = []
        if isinstance(n, ast.Assign):
            tg = n.targets
        elif isinstance(n, (ast.AugAssign, ast.AnnAssign)):
            tg = [n.target]
        elif isinstance(n, (ast.For, ast.comprehension)):
            tg = [n.target]
        elif isinstance(n, ast.NamedExpr):
            tg = [n.target]
        for t in tg:
            for x in ast.walk(t):
                if isinstance(x, ast.Name) and x.id == "path":
                    binds.append(ast.unparse(n))
    if binds != ["path, fname = os.path.split(filename)"]:
        raise Unrecognised(f"clean_file_name: `path` is bound by {binds}, expected only the os.path.split(filename) unpacking")
    d["unique_probe"], d["return_expr"], d["path_binding"] = probe, ret, binds[0]
    # cli/main.py
    cli = ast.parse(open(os.path.join(repo, CLI)).read())
    vcn = _fn(cli, "valid_class_name")
    tuples = [n for n in ast.walk(vcn) if isinstance(n, ast.Compare) and len(n.ops) == 1
              and isinstance(n.ops[0], ast.NotIn) and isinstance(n.comparators[0], ast.Tuple)]
    if len(tuples) != 1:
        raise Unrecognised("valid_class_name: `p not in (...)` filter not found")
    segs = [e.value for e in tuples[0].comparators[0].elts if isinstance(e, ast.Constant) and isinstance(e.value, str)]
    if len(segs) != len(tuples[0].comparators[0].elts):
        raise Unrecognised("valid_class_name: non-literal dropped segment")
    d["dropped"] = segs
    splits = [n for n in ast.walk(vcn) if isinstance(n, ast.Call) and isinstance(n.func, ast.Attribute)
              and n.func.attr == "split" and n.args and isinstance(n.args[0], ast.Constant)]
    if len(splits) != 1 or splits[0].args[0].value != "/":
        raise Unrecognised("valid_class_name: split('/')")
    exp = _fn(cli, "export_apps_to_format")
    ecalls = [c for c in _re_calls(exp, strict=False) if c[0] == "sub"]
    if len(ecalls) != 1 or len(ecalls[0][2]) != 1:
        raise Unrecognised("export_apps_to_format: re.sub(<class>, <literal>, short string) not found")
    d["export_calls"] = ecalls
    d["method_sep"] = only_class(ecalls[0][1])
    d["method_sep_replacement"] = ecalls[0][2][0]
    consts = [n.value for n in ast.walk(exp) if isinstance(n, ast.Constant) and isinstance(n.value, str)]
    for suffix in (".java", ".ag"):
        if consts.count(suffix) != 1:
            raise Unrecognised(f"export_apps_to_format: constant {suffix!r}")
    d["java_suffix"], d["ag_suffix"] = ".java", ".ag"
    return d


def generate(repo):
    d = extract(repo)
    L = []
    a = L.append
    a("/- GENERATED by gen/paths.py from androguard/misc.py and androguard/cli/main.py -- do not edit -/")
    a("namespace AgVerif.Gen.Paths")
    a("")
    a("/-- (re function, pattern text) of every regular expression in clean_file_name, in source order -/")
    a("def cleanPatterns : List (String × String) := [" +
      ", ".join(f"({lstr(f)}, {lstr(p)})" for f, p, _ in d["clean_calls"]) + "]")
    a("/-- (pattern, replacement) applied to the method's short string in export_apps_to_format -/")
    a("def exportPatterns : List (String × String) := [" +
      ", ".join(f"({lstr(p)}, {lstr(e[0])})" for _, p, e in d["export_calls"]) + "]")
    a(f"def suffixFormat : String := {lstr(d['suffix_format'])}")
    a("/-- what the uniqueness loop tests, what the function returns, where `path` comes from -/")
    a(f"def uniqueProbe : String := {lstr(d['unique_probe'])}")
    a(f"def returnExpr : String := {lstr(d['return_expr'])}")
    a(f"def pathBinding : String := {lstr(d['path_binding'])}")
    a("")
    a(f"def pathMaxLength : Nat := {d['path_max_length']}")
    a(f"def extDivisor : Nat := {d['ext_divisor']}")
    a(f"def suffixLead : List Char := {lchars(d['suffix_lead'])}")
    a(f"def replaceCheckRanges : List (Nat × Nat) := {lranges(d['replace_check'])}")
    a(f"def reservedRanges : List (Nat × Nat) := {lranges(d['reserved'])}")
    a(f"def trailingRanges : List (Nat × Nat) := {lranges(d['trailing'])}")
    a("def reservedNames : List (List Char × List (Nat × Nat)) := [" +
      ", ".join(f"({lchars(l)}, {lranges(r)})" for l, r in d["names"]) + "]")
    a("")
    a("def droppedSegments : List (List Char) := [" + ", ".join(lchars(s) for s in d["dropped"]) + "]")
    a(f"def methodSepRanges : List (Nat × Nat) := {lranges(d['method_sep'])}")
    a(f"def methodSepReplacement : List Char := {lchars(d['method_sep_replacement'])}")
    a(f"def javaSuffix : List Char := {lchars(d['java_suffix'])}")
    a(f"def agSuffix : List Char := {lchars(d['ag_suffix'])}")
    a("")
    a("end AgVerif.Gen.Paths")
    return {"Paths": "\n".join(L) + "\n"}


if __name__ == "__main__":
    import sys
    print(generate(sys.argv[1] if len(sys.argv) > 1 else "/repo")["Paths"])
