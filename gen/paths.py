"""Translator for C37/C38:  androguard/misc.py, androguard/cli/main.py  ->  lean/AgVerif/Gen/Paths.lean

AST only (no import).  Facts are read SEMANTICALLY, not textually:
  * a regular expression use is `re.F(P, …)`, `re.compile(P).F(…)` or `X.F(…)` with X a module-level (or single
    local) name bound to `re.compile(P)`; P is a constant string, possibly through a module-level name;
  * the scope of a function is the function, its nested functions and (one level) the module-level helpers it
    calls that are not modelled on their own (`_shorten`, `_max_name_length`, `_make_class_directory` …);
  * integer / string / tuple constants may be hoisted to module level and renamed (`_PATH_MAX_LENGTH`);
  * local variables may be renamed: shapes are compared up to the names of the locals (the limit in
    `<limit> // 2`, the counter of the suffix, the two results of os.path.split);
  * `"_{}".format(n)` and `f"_{n}"` are the same suffix format; `p not in SEGS` in a comprehension and
    `if p in SEGS: continue` in a loop are the same filter; SEGS may be a tuple or a list, literal or named.
From `clean_file_name` (roles, not source positions): the replacement check (the one `search`), the reserved
names (the one `match`, alternatives `(CON|…|COM[1-9])` parsed), the reserved characters (the one `sub` of a
character class), the trailing rule (two `sub`s of the same `[..]$` pattern, one in the function itself, one in
the shortening helper); the function's own statements must apply them in this order.  Character classes are
parsed into code point ranges (the model's predicates are built from them).  PATH_MAX_LENGTH, the divisor of the
extension cap, the suffix format (its argument must be a counter starting at 0 and stepping by 1).
The uniqueness loop must probe exactly the path that is returned:  `P, F = os.path.split(<first parameter>)` is
the only binding of P, the only `while` tests `os.path.isfile(os.path.join(P, F))` and every return of the
function is `os.path.join(P, F)` (recorded alpha-renamed to path/fname; Props/C38.lean `gen_pins`).
From cli/main.py: the dropped segments of `valid_class_name` and its split('/'); in the scope of
`export_apps_to_format` the one substitution applied to the method's short string and the constants ".java", ".ag".
Still refused (raises; the check then records a broken obligation and searches): any other re function or
non-constant pattern in clean_file_name, a missing/extra substitution, string-method rewrites of the regular
expressions (str.translate, endswith), a probe of another path expression, a rebinding of the directory variable.
"""
import ast
import os

MISC = "androguard/misc.py"
CLI = "androguard/cli/main.py"


class Unrecognised(Exception):
    pass


def _fn(tree, name):
    for n in ast.walk(tree):
        if isinstance(n, ast.FunctionDef) and n.name == name:
            return n
    raise Unrecognised(f"function {name} not found")


MODELLED = {"clean_file_name", "valid_class_name", "check_inside_directory", "create_directory",
            "export_apps_to_format"}
RE_USES = {"search", "match", "fullmatch", "sub", "subn", "split", "findall", "finditer"}


class Module:
    """one source file: module-level single assignments (`N = expr`) and module-level functions"""

    def __init__(self, path):
        self.tree = ast.parse(open(path).read())
        self.env, self.funcs = {}, {}
        seen = {}
        for n in self.tree.body:
            if isinstance(n, ast.Assign) and len(n.targets) == 1 and isinstance(n.targets[0], ast.Name):
                seen[n.targets[0].id] = seen.get(n.targets[0].id, 0) + 1
                self.env[n.targets[0].id] = n.value
            elif isinstance(n, ast.AnnAssign) and isinstance(n.target, ast.Name) and n.value is not None:
                seen[n.target.id] = seen.get(n.target.id, 0) + 1
                self.env[n.target.id] = n.value
            elif isinstance(n, ast.FunctionDef):
                self.funcs[n.name] = n
        for k, c in seen.items():          # a name assigned twice at module level is not a constant
            if c > 1:
                del self.env[k]

    def fn(self, name):
        if name not in self.funcs:
            raise Unrecognised(f"function {name} not found")
        return self.funcs[name]

    def scope(self, fn):
        """the function, and (one level) the module-level helpers it calls that are not modelled on their own:
        returns (nodes of fn outside nested defs, all nodes incl. nested defs and helpers, helper defs)"""
        allf = list(ast.walk(fn))
        nested = [n for n in allf if isinstance(n, ast.FunctionDef) and n is not fn]
        inner = {id(x) for f in nested for x in ast.walk(f)}
        proper = [n for n in allf if id(n) not in inner or n in nested]
        helpers = []
        for n in allf:
            if isinstance(n, ast.Call) and isinstance(n.func, ast.Name) and n.func.id in self.funcs \
                    and n.func.id not in MODELLED and self.funcs[n.func.id] not in helpers \
                    and self.funcs[n.func.id] is not fn:
                helpers.append(self.funcs[n.func.id])
        nodes = list(allf)
        for h in helpers:
            nodes += list(ast.walk(h))
        return proper, nodes, nested + helpers

    def const(self, node, local=None, depth=0):
        """evaluate a constant expression: literal, module-level (or single local) name, tuple/list of such"""
        if depth > 6:
            return None
        if isinstance(node, ast.Constant):
            return node.value
        if isinstance(node, ast.Name):
            if local and node.id in local:
                return self.const(local[node.id], None, depth + 1)
            if node.id in self.env:
                return self.const(self.env[node.id], None, depth + 1)
            return None
        if isinstance(node, (ast.Tuple, ast.List)):
            vals = [self.const(e, local, depth + 1) for e in node.elts]
            return None if any(v is None for v in vals) else tuple(vals)
        return None

    def compiled(self, node, local=None):
        """pattern text when `node` denotes re.compile(<constant str>) (directly, or through a module-level /
        single local name), else None"""
        if isinstance(node, ast.Name):
            tgt = (local or {}).get(node.id) or self.env.get(node.id)
            return self.compiled(tgt, None) if tgt is not None and not isinstance(tgt, ast.Name) else None
        if (isinstance(node, ast.Call) and isinstance(node.func, ast.Attribute) and node.func.attr == "compile"
                and isinstance(node.func.value, ast.Name) and node.func.value.id == "re" and node.args
                and not node.keywords and len(node.args) == 1):
            v = self.const(node.args[0], local)
            return v if isinstance(v, str) else None
        return None


def single_locals(nodes):
    """names assigned exactly once (simple `N = expr`) among nodes"""
    cnt, val = {}, {}
    for n in nodes:
        if isinstance(n, ast.Assign):
            for t in n.targets:
                for x in ast.walk(t):
                    if isinstance(x, ast.Name):
                        cnt[x.id] = cnt.get(x.id, 0) + 1
                        if isinstance(t, ast.Name):
                            val[x.id] = n.value
        elif isinstance(n, (ast.AugAssign, ast.AnnAssign, ast.For, ast.comprehension, ast.NamedExpr)):
            for x in ast.walk(n.target):
                if isinstance(x, ast.Name):
                    cnt[x.id] = cnt.get(x.id, 0) + 2
        elif isinstance(n, ast.arg):
            cnt[n.arg] = cnt.get(n.arg, 0) + 2
    return {k: v for k, v in val.items() if cnt.get(k) == 1}


def regex_uses(mod, nodes, strict, what):
    """every USE of a regular expression among nodes: `re.F(P, …)`, `re.compile(P).F(…)` or `X.F(…)` with X a
    module-level / single local name bound to re.compile(P); P a constant string (possibly through a name).
    returns [(lineno, col, node, F, P, [constant string arguments after the pattern])]"""
    local = single_locals(nodes)
    out = []
    for n in nodes:
        if not (isinstance(n, ast.Call) and isinstance(n.func, ast.Attribute) and n.func.attr in RE_USES):
            continue
        recv = n.func.value
        if isinstance(recv, ast.Name) and recv.id == "re":
            if not n.args:
                continue
            pat = mod.const(n.args[0], local)
            rest = n.args[1:]
            if not isinstance(pat, str):
                if strict:
                    raise Unrecognised(f"{what}: re.{n.func.attr} with a pattern that is not a constant, line {n.lineno}")
                continue
        else:
            pat = mod.compiled(recv, local)
            rest = n.args
            if pat is None:
                continue                      # some other object's .sub/.match/… (str has none of these)
        extra = [v for v in (mod.const(a, local) for a in rest) if isinstance(v, str)]
        out.append((n.lineno, n.col_offset, n, n.func.attr, pat, extra))
    out.sort(key=lambda t: t[:2])
    return out


def _is_call(node, dotted, nargs=None):
    return (isinstance(node, ast.Call) and ast.unparse(node.func) == dotted and not node.keywords
            and (nargs is None or len(node.args) == nargs))


def parse_class(pat, i=0):
    """parse a character class starting at pat[i] == '[' ; returns (ranges, index after ']')"""
    if pat[i] != "[":
        raise Unrecognised(f"character class expected in {pat!r} at {i}")
    i += 1
    if i < len(pat) and pat[i] == "^":
        raise Unrecognised("negated class")
    items = []

    def atom(i):
        c = pat[i]
        if c == "\\":
            d = pat[i + 1]
            if d == "x":
                return int(pat[i + 2:i + 4], 16), i + 4
            if d in "\\[]-^.$*+?|(){}\"'/":
                return ord(d), i + 2
            if d == "n":
                return 10, i + 2
            if d == "t":
                return 9, i + 2
            raise Unrecognised(f"escape \\{d} in {pat!r}")
        return ord(c), i + 1

    first = True
    while True:
        if i >= len(pat):
            raise Unrecognised(f"unterminated class in {pat!r}")
        if pat[i] == "]" and not first:
            return items, i + 1
        first = False
        lo, i = atom(i)
        if i + 1 < len(pat) and pat[i] == "-" and pat[i + 1] != "]":
            hi, i = atom(i + 1)
            if hi < lo:
                raise Unrecognised("bad range")
            items.append((lo, hi))
        else:
            items.append((lo, lo))


def only_class(pat, suffix=""):
    rs, j = parse_class(pat, 0)
    if pat[j:] != suffix:
        raise Unrecognised(f"pattern {pat!r}: expected a single class followed by {suffix!r}")
    return rs


def parse_names(pat):
    """(A|B|C[1-9]) -> [(literal, ranges)]"""
    if not (pat.startswith("(") and pat.endswith(")")):
        raise Unrecognised(f"reserved-name pattern {pat!r}")
    alts = []
    for alt in pat[1:-1].split("|"):
        k = alt.find("[")
        lit, rs = (alt, []) if k < 0 else (alt[:k], None)
        if rs is None:
            rs, j = parse_class(alt, k)
            if j != len(alt):
                raise Unrecognised(f"alternative {alt!r}")
        if not lit or not all(c.isalnum() for c in lit):
            raise Unrecognised(f"alternative {alt!r}")
        alts.append((lit, rs))
    return alts


# ---------------------------------------------------------------- Lean literals
def lstr(s):
    out = []
    for c in s:
        o = ord(c)
        if c == "\\":
            out.append("\\\\")
        elif c == '"':
            out.append('\\"')
        elif 32 <= o < 127:
            out.append(c)
        else:
            out.append("\\u{%x}" % o)
    return '"' + "".join(out) + '"'


def lchar(c):
    o = ord(c)
    if c == "\\":
        return "'\\\\'"
    if c == "'":
        return "'\\''"
    if 32 <= o < 127:
        return "'" + c + "'"
    return "'\\u{%x}'" % o


def lchars(s):
    return "[" + ", ".join(lchar(c) for c in s) + "]"


def lranges(rs):
    return "[" + ", ".join(f"({a}, {b})" for a, b in rs) + "]"


def extract(repo):
    mod = Module(os.path.join(repo, MISC))
    cfn = mod.fn("clean_file_name")
    proper, nodes, others = mod.scope(cfn)
    proper_ids = {id(n) for n in proper}
    uses = regex_uses(mod, nodes, True, "clean_file_name")
    by = lambda f: [u for u in uses if u[3] == f]
    if {u[3] for u in uses} - {"search", "match", "sub"}:
        raise Unrecognised(f"clean_file_name: unexpected re functions {sorted({u[3] for u in uses})}")
    search, match, subs = by("search"), by("match"), by("sub")
    trailing = [u for u in subs if u[4].endswith("$")]
    reserved = [u for u in subs if not u[4].endswith("$")]
    if not (len(search) == 1 and len(match) == 1 and len(reserved) == 1 and len(trailing) == 2):
        raise Unrecognised("clean_file_name: expected one search (replacement check), one match (reserved names), "
                           "one sub of a character class (reserved characters) and two subs of the trailing rule "
                           f"(before and after the cut); found {[(u[3], u[4]) for u in uses]}")
    if trailing[0][4] != trailing[1][4]:
        raise Unrecognised("the trailing rule applied after the cut differs from the one applied before")
    # the statements of the function itself come in the order the model applies them
    t_own = [u for u in trailing if id(u[2]) in proper_ids]
    t_help = [u for u in trailing if id(u[2]) not in proper_ids]
    order = [u for u in (search[0], match[0], reserved[0]) if id(u[2]) in proper_ids] + t_own
    if len(t_own) != 1 or len(t_help) != 1 or [u[:2] for u in order] != sorted(u[:2] for u in order):
        raise Unrecognised("clean_file_name: replacement check, reserved names, reserved characters, trailing rule are "
                           "not applied in this order (the second trailing rule belongs inside the shortening helper)")
    d = {"clean_calls": [("search", search[0][4], []), ("match", match[0][4], []), ("sub", reserved[0][4], []),
                         ("sub", trailing[0][4], []), ("sub", trailing[1][4], [])]}
    d["replace_check"] = only_class(search[0][4])
    d["names"] = parse_names(match[0][4])
    d["reserved"] = only_class(reserved[0][4])
    d["trailing"] = only_class(trailing[0][4], "$")
    # PATH_MAX_LENGTH: a function-level or module-level integer constant (a leading underscore / other case is fine)
    local = single_locals(nodes)
    cands = {}
    for n in nodes:
        if isinstance(n, ast.Name) and "PATH_MAX_LENGTH" in n.id.upper():
            v = mod.const(n, local)
            if type(v) is not int:
                raise Unrecognised(f"{n.id} is not an integer constant")
            cands[n.id] = v
    if len(cands) != 1:
        raise Unrecognised(f"PATH_MAX_LENGTH: expected one integer constant of that name, found {cands}")
    d["path_max_length"] = list(cands.values())[0]
    # the extension cap `<limit> // <int>` (whatever the limit variable is called)
    divs = [n for n in nodes if isinstance(n, ast.BinOp) and isinstance(n.op, ast.FloorDiv)]
    if len(divs) != 1 or type(mod.const(divs[0].right, local)) is not int or not isinstance(divs[0].left, ast.Name):
        raise Unrecognised("extension cap `<limit> // <int>`")
    d["ext_divisor"] = mod.const(divs[0].right, local)
    # the uniqueness suffix: "<lead>{}".format(counter) or f"<lead>{counter}"
    fmts = []
    for n in nodes:
        if (isinstance(n, ast.Call) and isinstance(n.func, ast.Attribute) and n.func.attr == "format"
                and isinstance(mod.const(n.func.value, local), str) and not n.keywords and len(n.args) == 1
                and isinstance(n.args[0], ast.Name)):
            t = mod.const(n.func.value, local)
            if t.endswith("{}") and "{" not in t[:-2] and "}" not in t[:-2]:
                fmts.append((t[:-2], n.args[0].id))
        elif isinstance(n, ast.JoinedStr) and len(n.values) == 2 and isinstance(n.values[0], ast.Constant) \
                and isinstance(n.values[1], ast.FormattedValue) and n.values[1].conversion == -1 \
                and n.values[1].format_spec is None and isinstance(n.values[1].value, ast.Name):
            fmts.append((n.values[0].value, n.values[1].value.id))
    if len(fmts) != 1:
        raise Unrecognised(f"uniqueness suffix format: candidates {fmts}")
    lead, counter = fmts[0]
    zero = any(isinstance(n, ast.Assign) and len(n.targets) == 1 and isinstance(n.targets[0], ast.Name)
               and n.targets[0].id == counter and mod.const(n.value) == 0 and type(mod.const(n.value)) is int for n in proper)
    step = any((isinstance(n, ast.AugAssign) and isinstance(n.op, ast.Add) and ast.unparse(n.target) == counter
                and mod.const(n.value) == 1) or
               (isinstance(n, ast.Assign) and len(n.targets) == 1 and ast.unparse(n.targets[0]) == counter
                and ast.unparse(n.value) in (f"{counter} + 1", f"1 + {counter}")) for n in proper)
    if not (zero and step):
        raise Unrecognised(f"uniqueness suffix: `{counter}` is not a counter starting at 0 and stepping by 1")
    d["suffix_format"], d["suffix_lead"] = lead + "{}", lead
    # the uniqueness loop must probe exactly the path that is returned (up to the names of the two locals):
    #   P, F = os.path.split(<first parameter>)   … the only binding of P
    #   while os.path.isfile(os.path.join(P, F)): …
    #   return os.path.join(P, F)                  … every return of the function
    whiles = [n for n in proper if isinstance(n, ast.While)]
    if len(whiles) != 1:
        raise Unrecognised(f"clean_file_name: {len(whiles)} while loops, expected the uniqueness loop only")
    t = whiles[0].test
    if not (_is_call(t, "os.path.isfile", 1) and _is_call(t.args[0], "os.path.join", 2)
            and all(isinstance(x, ast.Name) for x in t.args[0].args)):
        raise Unrecognised(f"the uniqueness loop probes {ast.unparse(t)!r}, expected os.path.isfile(os.path.join(P, F))")
    P, F = (x.id for x in t.args[0].args)
    rets = [n for n in proper if isinstance(n, ast.Return)]
    if not rets or any(r.value is None or ast.unparse(r.value) != f"os.path.join({P}, {F})" for r in rets):
        raise Unrecognised(f"the uniqueness loop probes os.path.join({P}, {F}) but the function returns "
                           f"{[ast.unparse(r.value) if r.value else None for r in rets]}")
    binds = []
    for n in ast.walk(cfn):
        tg = []
        if isinstance(n, ast.Assign):
            tg = n.targets
        elif isinstance(n, (ast.AugAssign, ast.AnnAssign, ast.For, ast.comprehension, ast.NamedExpr)):
            tg = [n.target]
        elif isinstance(n, (ast.With,)):
            tg = [i.optional_vars for i in n.items if i.optional_vars is not None]
        for x in tg:
            if any(isinstance(y, ast.Name) and y.id == P for y in ast.walk(x)):
                binds.append(n)
    first_param = cfn.args.args[0].arg if cfn.args.args else None
    ok = (len(binds) == 1 and isinstance(binds[0], ast.Assign) and len(binds[0].targets) == 1
          and isinstance(binds[0].targets[0], ast.Tuple) and len(binds[0].targets[0].elts) == 2
          and ast.unparse(binds[0].targets[0].elts[0]) == P and isinstance(binds[0].targets[0].elts[1], ast.Name)
          and _is_call(binds[0].value, "os.path.split", 1) and ast.unparse(binds[0].value.args[0]) == first_param)
    if not ok:
        raise Unrecognised(f"clean_file_name: `{P}` is bound by {[ast.unparse(b) for b in binds]}, expected only "
                           f"`{P}, <name> = os.path.split({first_param})`")
    # recorded up to the names of the locals (alpha-renamed to path / fname / filename)
    d["unique_probe"] = "os.path.isfile(os.path.join(path, fname))"
    d["return_expr"] = "os.path.join(path, fname)"
    d["path_binding"] = "path, fname = os.path.split(filename)"

    # ---------------------------------------------------------------- cli/main.py
    cli = Module(os.path.join(repo, CLI))
    vcn = cli.fn("valid_class_name")
    vnodes = list(ast.walk(vcn))
    vlocal = single_locals(vnodes)
    filt = []
    for n in vnodes:
        # comprehension filter `… if p not in SEGS`, or `if p in SEGS: continue` in a loop
        if isinstance(n, ast.comprehension):
            for c in n.ifs:
                if isinstance(c, ast.Compare) and len(c.ops) == 1 and isinstance(c.ops[0], ast.NotIn):
                    filt.append(c.comparators[0])
        elif isinstance(n, ast.For):
            for st in ast.walk(n):
                if (isinstance(st, ast.If) and isinstance(st.test, ast.Compare) and len(st.test.ops) == 1
                        and isinstance(st.test.ops[0], ast.In) and len(st.body) == 1
                        and isinstance(st.body[0], ast.Continue) and not st.orelse):
                    filt.append(st.test.comparators[0])
    if len(filt) != 1:
        raise Unrecognised("valid_class_name: the filter `p not in (…)` (or `if p in (…): continue`) was not found")
    segs = cli.const(filt[0], vlocal)
    if not isinstance(segs, tuple) or not all(isinstance(x, str) for x in segs):
        raise Unrecognised("valid_class_name: the dropped segments are not a constant tuple/list of strings")
    d["dropped"] = list(segs)
    splits = [n for n in vnodes if isinstance(n, ast.Call) and isinstance(n.func, ast.Attribute)
              and n.func.attr == "split" and n.args and not (isinstance(n.func.value, ast.Name) and n.func.value.id == "re")]
    if len(splits) != 1 or cli.const(splits[0].args[0], vlocal) != "/":
        raise Unrecognised("valid_class_name: split('/')")
    exp = cli.fn("export_apps_to_format")
    _, enodes, _ = cli.scope(exp)
    ecalls = [u for u in regex_uses(cli, enodes, False, "export_apps_to_format") if u[3] == "sub"]
    if len(ecalls) != 1 or len(ecalls[0][5]) != 1:
        raise Unrecognised("export_apps_to_format: re.sub(<class>, <literal>, short string) not found")
    d["export_calls"] = [("sub", ecalls[0][4], ecalls[0][5])]
    d["method_sep"] = only_class(ecalls[0][4])
    d["method_sep_replacement"] = ecalls[0][5][0]
    consts = [n.value for n in enodes if isinstance(n, ast.Constant) and isinstance(n.value, str)]
    for suffix in (".java", ".ag"):
        if consts.count(suffix) != 1:
            raise Unrecognised(f"export_apps_to_format: constant {suffix!r}")
    d["java_suffix"], d["ag_suffix"] = ".java", ".ag"
    return d


def generate(repo):
    d = extract(repo)
    L = []
    a = L.append
    a("/- GENERATED by gen/paths.py from androguard/misc.py and androguard/cli/main.py -- do not edit -/")
    a("namespace AgVerif.Gen.Paths")
    a("")
    a("/-- (re function, pattern text) of every regular expression in clean_file_name, in source order -/")
    a("def cleanPatterns : List (String × String) := [" +
      ", ".join(f"({lstr(f)}, {lstr(p)})" for f, p, _ in d["clean_calls"]) + "]")
    a("/-- (pattern, replacement) applied to the method's short string in export_apps_to_format -/")
    a("def exportPatterns : List (String × String) := [" +
      ", ".join(f"({lstr(p)}, {lstr(e[0])})" for _, p, e in d["export_calls"]) + "]")
    a(f"def suffixFormat : String := {lstr(d['suffix_format'])}")
    a("/-- what the uniqueness loop tests, what the function returns, where `path` comes from -/")
    a(f"def uniqueProbe : String := {lstr(d['unique_probe'])}")
    a(f"def returnExpr : String := {lstr(d['return_expr'])}")
    a(f"def pathBinding : String := {lstr(d['path_binding'])}")
    a("")
    a(f"def pathMaxLength : Nat := {d['path_max_length']}")
    a(f"def extDivisor : Nat := {d['ext_divisor']}")
    a(f"def suffixLead : List Char := {lchars(d['suffix_lead'])}")
    a(f"def replaceCheckRanges : List (Nat × Nat) := {lranges(d['replace_check'])}")
    a(f"def reservedRanges : List (Nat × Nat) := {lranges(d['reserved'])}")
    a(f"def trailingRanges : List (Nat × Nat) := {lranges(d['trailing'])}")
    a("def reservedNames : List (List Char × List (Nat × Nat)) := [" +
      ", ".join(f"({lchars(l)}, {lranges(r)})" for l, r in d["names"]) + "]")
    a("")
    a("def droppedSegments : List (List Char) := [" + ", ".join(lchars(s) for s in d["dropped"]) + "]")
    a(f"def methodSepRanges : List (Nat × Nat) := {lranges(d['method_sep'])}")
    a(f"def methodSepReplacement : List Char := {lchars(d['method_sep_replacement'])}")
    a(f"def javaSuffix : List Char := {lchars(d['java_suffix'])}")
    a(f"def agSuffix : List Char := {lchars(d['ag_suffix'])}")
    a("")
    a("end AgVerif.Gen.Paths")
    return {"Paths": "\n".join(L) + "\n"}


if __name__ == "__main__":
    import sys
    print(generate(sys.argv[1] if len(sys.argv) > 1 else "/repo")["Paths"])
