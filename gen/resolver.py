"""Translator for C29: WHERE the state of `ARSCParser.ResourceResolver` lives and how it is maintained,
read from the working tree by AST extraction (no import) -> lean/AgVerif/Gen/Resolver.lean.

The Lean model (`Resolve.resolveVF`) threads the reference path as an ARGUMENT of each resolution.  That is
faithful only when, in the code,
  * the path container is created per resolver instance, in `ResourceResolver.__init__` (`self._resolving = []`),
    and a fresh resolver is built for every `get_resolved_res_configs` call            (stateScope, freshResolver)
  * it is pushed/popped around the body of `_resolve_into_result` with try/finally        (pushPop)
  * the guard is `if res_id in self._resolving: … return`, before the push               (guard)
  * what is pushed is the id being resolved, and the recursion re-enters the same instance (pushesCurrentId,
    recursionOnSelf)
  * nothing else in the class touches the container                                       (the translator raises)
The record is emitted as data; `C29.resolver_state_is_per_call` pins it to what the model assumes.
Every shape this translator does not recognise raises (a broken obligation, not a silent default).
"""
import ast
import os

NAME = "_resolving"


class Unrecognised(Exception):
    pass


def _is_self_attr(node, attr=NAME):
    return isinstance(node, ast.Attribute) and node.attr == attr and isinstance(node.value, ast.Name) and node.value.id == "self"


def _fresh_empty(node):
    """`[]` or `list()`: a new empty container"""
    if isinstance(node, ast.List) and not node.elts:
        return True
    return isinstance(node, ast.Call) and isinstance(node.func, ast.Name) and node.func.id == "list" and not node.args and not node.keywords


def _funcs(cls):
    return {f.name: f for f in cls.body if isinstance(f, ast.FunctionDef)}


def extract(repo):
    path = os.path.join(repo, "androguard", "core", "axml", "__init__.py")
    tree = ast.parse(open(path).read())
    parser = next(c for c in tree.body if isinstance(c, ast.ClassDef) and c.name == "ARSCParser")
    rr = next(c for c in parser.body if isinstance(c, ast.ClassDef) and c.name == "ResourceResolver")
    fns = _funcs(rr)
    for need in ("__init__", "resolve", "_resolve_into_result", "put_ate_value", "put_item_value"):
        if need not in fns:
            raise Unrecognised("ResourceResolver.%s is missing" % need)

    # ---- where is the container created?
    inst = [st for st in fns["__init__"].body
            if isinstance(st, (ast.Assign, ast.AnnAssign)) and st.value is not None
            and any(_is_self_attr(t) for t in (st.targets if isinstance(st, ast.Assign) else [st.target]))]
    cls_level = [st for st in rr.body
                 if (isinstance(st, ast.Assign) and any(isinstance(t, ast.Name) and t.id == NAME for t in st.targets))
                 or (isinstance(st, ast.AnnAssign) and isinstance(st.target, ast.Name) and st.target.id == NAME and st.value is not None)]
    outer = [st for st in list(tree.body) + list(parser.body)
             if isinstance(st, (ast.Assign, ast.AnnAssign)) and st.value is not None
             and any(isinstance(t, ast.Name) and t.id == NAME for t in (st.targets if isinstance(st, ast.Assign) else [st.target]))]
    if inst:
        if len(inst) != 1 or not _fresh_empty(inst[0].value):
            raise Unrecognised("__init__ does not create the path as a fresh empty list: " + ast.unparse(inst[0]))
        if cls_level or outer:
            raise Unrecognised("the path is created in __init__ AND at class/module level")
        scope = "instance"
    elif cls_level:
        scope = "cls"
    elif outer:
        scope = "module"
    else:
        raise Unrecognised("no creation site of %s found" % NAME)

    # ---- every other use of the container inside the class
    uses = {}
    for fname, f in fns.items():
        for node in ast.walk(f):
            if isinstance(node, ast.Attribute) and node.attr == NAME:
                uses.setdefault(fname, []).append(node)
            if isinstance(node, ast.Name) and node.id == NAME:
                uses.setdefault(fname, []).append(node)
    allowed = {"_resolve_into_result"} | ({"__init__"} if scope == "instance" else set())
    extra = sorted(set(uses) - allowed)
    if extra:
        raise Unrecognised("the path is also used in " + ", ".join(extra))

    # ---- _resolve_into_result: guard, push, try/finally pop
    f = fns["_resolve_into_result"]
    args = [a.arg for a in f.args.args]
    if len(args) < 3 or args[0] != "self":
        raise Unrecognised("_resolve_into_result signature: " + ", ".join(args))
    rid = args[2]
    body = [st for st in f.body if not (isinstance(st, ast.Expr) and isinstance(st.value, ast.Constant))]
    if len(uses.get("_resolve_into_result", [])) != 3:
        raise Unrecognised("_resolve_into_result uses the path %d times (expected guard, push, pop)" % len(uses.get("_resolve_into_result", [])))

    def is_guard(st):
        return (isinstance(st, ast.If) and isinstance(st.test, ast.Compare) and len(st.test.ops) == 1
                and isinstance(st.test.ops[0], ast.In) and isinstance(st.test.left, ast.Name) and st.test.left.id == rid
                and _is_self_attr(st.test.comparators[0]) and not st.orelse
                and isinstance(st.body[-1], ast.Return) and st.body[-1].value is None)

    def is_call(st, meth, nargs):
        return (isinstance(st, ast.Expr) and isinstance(st.value, ast.Call) and isinstance(st.value.func, ast.Attribute)
                and st.value.func.attr == meth and _is_self_attr(st.value.func.value) and len(st.value.args) == nargs)

    if not body or not is_guard(body[0]):
        raise Unrecognised("_resolve_into_result does not start with `if %s in self.%s: … return`" % (rid, NAME))
    guard = "memberBeforePush"
    if len(body) < 3 or not is_call(body[1], "append", 1):
        raise Unrecognised("no `self.%s.append(…)` right after the guard" % NAME)
    pushed = body[1].value.args[0]
    pushes_current = isinstance(pushed, ast.Name) and pushed.id == rid
    rest = body[2:]
    if len(rest) == 1 and isinstance(rest[0], ast.Try) and not rest[0].handlers and len(rest[0].finalbody) == 1 \
            and is_call(rest[0].finalbody[0], "pop", 0):
        pushpop = "tryFinally"
    elif is_call(rest[-1], "pop", 0):
        pushpop = "plain"
    else:
        raise Unrecognised("the push is not matched by a pop at the end of _resolve_into_result")

    # ---- the recursion re-enters the same instance; the public entry builds a fresh resolver
    rec_calls = [n for fn in ("resolve", "put_ate_value", "put_item_value") for n in ast.walk(fns[fn])
                 if isinstance(n, ast.Call) and isinstance(n.func, ast.Attribute) and n.func.attr == "_resolve_into_result"]
    if not rec_calls:
        raise Unrecognised("no call of _resolve_into_result found")
    rec_self = all(isinstance(c.func.value, ast.Name) and c.func.value.id == "self" for c in rec_calls)
    pfns = _funcs(parser)
    g = pfns.get("get_resolved_res_configs")
    if g is None:
        raise Unrecognised("ARSCParser.get_resolved_res_configs is missing")
    gb = [st for st in g.body if not (isinstance(st, ast.Expr) and isinstance(st.value, ast.Constant))]
    fresh = (len(gb) == 2 and isinstance(gb[0], ast.Assign) and isinstance(gb[0].value, ast.Call)
             and ast.unparse(gb[0].value.func) in ("ARSCParser.ResourceResolver", "self.ResourceResolver")
             and isinstance(gb[1], ast.Return) and isinstance(gb[1].value, ast.Call)
             and isinstance(gb[1].value.func, ast.Attribute) and gb[1].value.func.attr == "resolve"
             and isinstance(gb[1].value.func.value, ast.Name)
             and gb[1].value.func.value.id == gb[0].targets[0].id)
    return {"stateScope": scope, "pushPop": pushpop, "guard": guard, "pushesCurrentId": pushes_current,
            "recursionOnSelf": rec_self, "freshResolverPerCall": bool(fresh)}


def generate(repo):
    r = extract(repo)
    b = lambda x: "true" if x else "false"
    text = f"""/- GENERATED by gen/resolver.py from androguard/core/axml/__init__.py (ARSCParser.ResourceResolver) — do not edit -/
namespace AgVerif.Gen.Resolver

/-- where the reference-path container `_resolving` is created -/
inductive Scope where
  | instance | cls | module
deriving DecidableEq, Repr

/-- how `_resolve_into_result` keeps it balanced -/
inductive PushPop where
  | tryFinally | plain
deriving DecidableEq, Repr

/-- the shape of the cycle guard -/
inductive Guard where
  | memberBeforePush
deriving DecidableEq, Repr

structure Shape where
  stateScope : Scope
  pushPop : PushPop
  guard : Guard
  pushesCurrentId : Bool
  recursionOnSelf : Bool
  freshResolverPerCall : Bool
deriving DecidableEq, Repr

def shape : Shape :=
  ⟨.{r['stateScope']}, .{r['pushPop']}, .{r['guard']}, {b(r['pushesCurrentId'])}, {b(r['recursionOnSelf'])}, {b(r['freshResolverPerCall'])}⟩

end AgVerif.Gen.Resolver
"""
    return {"Resolver": text}
