"""Source-to-Lean translator for a SMALL, explicitly delimited subset of Python.

Part of the trusted base: what is written here is the translator's reading of Python semantics.
Everything outside the subset raises `Unsupported` (the framework records a translator that
raises as a broken proof obligation) -- the translator never guesses.
Self-test: gen/py2lean_selftest.py translates one small function per construct of the subset
(gen/py2lean_selftest_src.py) and attaches what CPython computes on a grid of arguments as Lean
`example`s (787 cases); they are rebuilt whenever this file changes and gate every `gen_*_eq` theorem.

Use (from a per-property module gen/py2lean_cXX.py):

    translate(repo, relpath, lean_module, [Func(...), ...]) -> {lean_module: "<lean text>"}

The functions are read with `ast` from the tree under test (never imported) and emitted, in the
given order, as Lean `def`s in `namespace AgVerif.Gen.<lean_module>` on top of
lean/AgVerif/Model/PyInt.lean (the meaning of `& | ^ << >>`, of a one-byte read and of a one-byte
pack).  The emitted definition follows the Python control flow statement by statement; every
statement is preceded by a comment with its source line.

CONVENTIONS
  * Python `int` is Lean `Int`, always.  A `bool` local is `Bool`, a `bytearray` local is
    `List Int`, a `str` is the `List Int` of its code points, a `list` (of ints only) is
    `List Int`.  A local never changes its type; parameter types are declared by the caller of
    `translate` (and are assumptions of the generated definition: `_eq` theorems state them).
  * Every translated function returns `Option`: `none` = "an exception is raised, or a `while`
    loop needs more iterations than its fuel".  Exceptions are not distinguished.
  * A function that reads from the stream takes the remaining bytes `bs : List Nat` as its last
    argument and returns `Option (value × remaining bytes)`.
  * Locals keep their Python names (Lean keywords get a trailing `_`); re-assignment is Lean
    shadowing (`let x : Int := ...`), so the text reads like the source.  `if` duplicates the
    statements that follow it into both branches (continuation-passing), hence a variable is
    readable exactly when it is definitely assigned on the path taken; reading any other name
    raises `Unsupported`.

SUBSET (module-level `def`s or methods of one class; decorators, defaults other than literals,
*args/**kwargs, nested defs, lambdas, comprehensions, try/with/global/nonlocal, attribute or
subscript assignment: all refused)
  statements
    x = e ; x: T = e ; x op= e          single `Name` target, op in the binary operators below
    if / elif / else
    for x in range(a, b) / range(b)       literal bounds, b - a <= 16, no `else`: unrolled
    while c:                               no `else`, not nested in another `while`; becomes a
                                           structurally recursive auxiliary `def` over a fuel
                                           given (and justified) by the caller of `translate`;
                                           out of fuel = `none`
    break ; continue ; pass ; return e ; raise ...   (`raise` = `none`)
    logger.<anything>(...)                 dropped; arguments must be names, literals and
                                           %-/f-string formatting of those (cannot raise... a
                                           wrong format would, that is accepted as trusted)
    a docstring
  expressions (no evaluation-order subtleties: the only effects are stream reads and raising)
    int literals, True/False, names, sys.maxsize (= 2**63-1, checked against the interpreter)
    + - * (Int) ; unary - + ~ ; // and % : by a positive literal -> Lean `/` `%` (Euclidean =
      floor for a positive divisor), otherwise `Int.fdiv`/`Int.fmod` behind a test for zero
    & | ^  -> Py.band/bor/bxor ; << >> -> Py.shl/shr, by a non-negative literal, or by an
      expression behind a test `count < 0 -> none`
    < <= > >= == != on ints, chains allowed (operands are pure) -> `decide (...)`
    not / and / or: operands are comparisons, Bool locals, or ints (truthiness `e != 0`); the
      result is used as a Bool only (condition or Bool local)
    max(a, b, ...) / min(a, b, ...) on ints
    get_byte(cm, buff)                     the project's reader helper; its definition in the
                                           source is compared with the expected one-liner
    f(cm, buff, args) / f(cm, args) / self.f(args)   a function translated earlier in the same module
    bytearray()                            empty `List Int`
    cm.packer["B"].pack(e)                 `[e]`, behind the test 0 <= e < 256
    bytes + bytes ; bytes += bytes         `++` (no aliasing is possible: a bytes value is
                                           never copied from name to name)
    str / list of int (both `List Int`: code points / elements; `Py.Str`, `Py.IntList`):
      "literal" ; chr(e) -> `[e]` behind the test 0 <= e < 0x110000 ; s + s ; s += s
      ord('c') -> the code point ; ord(s[i]) and x[i] (x a list/bytearray local, i a non-negative
      literal) -> the element, `none` (IndexError) beyond the end ; len(x) ; truthiness `x != []`
      x = [e1, ..., en] / return [e1, ..., en] (a fresh list, only as a whole right-hand side / return
      value) ; x[i] = e for such a
      local (`List.set` behind the IndexError test).  A list/bytearray is never copied from name
      to name and never passed to a call, so there is no aliasing; strings are immutable.
    float(e) * TABLE[i]                    TABLE a module-level name bound exactly once, to a list literal:
                                           floating point is NOT interpreted; the product (together with the
                                           IndexError of the lookup) is the symbolic value
                                           `Py.FloatTimesTable.mk "TABLE" e i`, usable only as a return value
  init mode (`Func(init=True, unpacked="buff")`, for `__init__(self, cm, buff)` of a class whose single base
  class is a module-level class without bases and without `__init__`):
    super().__init__()                     dropped
    self.cm = cm                           the attribute then denotes the context object
    self.X = e ; reads of self.X           int attributes (Lean locals `self_X`)
    self.length                            the class attribute `length = <int literal>`
    t1, ..., tn = <cm>.packer["FMT"].unpack(buff[: self.length])   (ti a name or self.X; at most once;
                                           `buff` has no other use): struct is NOT interpreted: the
                                           translated function takes the unpacked values `vs : List Int`
                                           and matches `[t1, ..., tn]` (`none` = ValueError for another
                                           number of values); FMT and the length are emitted as
                                           `<name>_unpack` for the theorems to tie to the struct model
    reaching the end                       `some [("X", self_X), ...]`: the int attributes set on that
                                           path, in order of first assignment
  attribute-reading methods (`Func(attrs_in=True, ctx_attrs=("cm",))`): the translated function takes the object's
    int attributes as `self_ : List (String × Int)` (the value an init-mode constructor returns); every `self.X`
    read (X not a context attribute) is `List.lookup "X" self_`, hoisted like a call (`none` = AttributeError;
    assumption: the attribute holds an int).  Reading by NAME matters: a positional parameter per attribute
    would make `return self.B` for `return self.CCCC` invisible to a theorem that passes values by position.
    `return <cm>.packer["FMT"].pack(e1, ..., en)` returns the argument tuple `[e1, ..., en]`,
    struct is not interpreted, FMT is emitted as `<name>_pack`.  No attribute is stored.
  robustness against behaviour-preserving rewrites (all by local reasoning; the generated text changes, the
  `gen_*_eq` proofs are written to survive it where they can):
    `_` as a local name (Lean `us_`) ; `a if c else b` (arms must not hoist anything) ;
    a NAME that is not a local and is bound exactly once in the module, by a top-level assignment to a
      constant expression (ints, ord('c'), arithmetic on constants, tuples of those): its value ;
    for x in (c1, ..., cn) / for x in NAME : a constant tuple of ints, unrolled like range ;
    f(args) for a module-level function f not translated yet: translated on demand and emitted before the
      caller (no `while`; parameters named like the caller's context/stream parameters keep that role, the
      rest are ints; result type inferred) -- `helper`.
  Stream reads, calls and the raise-tests are hoisted in evaluation order in front of the
  statement; they are refused inside `and`/`or` operands after the first and inside conditional
  expressions, where Python would evaluate them conditionally.
"""
import ast
import os
import re
import sys

T_INT, T_BOOL, T_BYTES = "Int", "Bool", "List Int"
T_STR, T_LIST = "Py.Str", "Py.IntList"      # abbreviations of `List Int` (code points / elements), Model/PyInt.lean
SEQ = (T_BYTES, T_STR, T_LIST)
T_FIELDS = "List (String × Int)"          # result of an object initialiser: the int attributes it set
T_FTAB = "Py.FloatTimesTable"              # the uninterpreted product float(e) * TABLE[i]
LEAN_KEYWORDS = {"end", "at", "by", "do", "from", "fun", "have", "in", "let", "match", "then", "else", "if", "show",
                 "with", "where", "open", "def", "theorem", "example", "instance", "structure", "class", "namespace",
                 "section", "variable", "universe", "import", "mutual", "return", "for", "unless", "try", "catch",
                 "finally", "mut", "using", "calc", "suffices", "obtain", "nomatch", "nofun", "deriving", "private",
                 "protected", "noncomputable", "partial", "unsafe", "macro", "syntax", "notation", "infix", "prefix",
                 "postfix", "attribute", "export", "extends", "Type", "Prop", "Sort", "fuel", "bs", "some", "none",
                 "true", "false", "max", "min", "decide"}
GET_BYTE_SRC = "return cm.packer['B'].unpack(buff.read(1))[0]"
MAX_LINES = 4000


class Unsupported(Exception):
    def __init__(self, node, why):
        line = getattr(node, "lineno", "?")
        super().__init__(f"py2lean: line {line}: {why}")


class Func:
    """what to translate: `name` (module level, or a method of `cls`), which parameters are context
    (dropped: cm, self), which is the stream, the Lean types of the others (default Int), the
    result type, and one Lean fuel expression per `while` (source order; may mention the
    variables in scope at loop entry)."""

    def __init__(self, name, cls=None, ctx=("cm", "self"), stream=None, types=None, ret=T_INT, fuels=(),
                 lean_name=None, init=False, unpacked=None, attrs_in=False, ctx_attrs=()):
        # attrs_in=True: a method that only READS int attributes `self.X`: the translated function takes the
        # object's int attributes `self_ : List (String × Int)` (what an init-mode constructor returns) and looks
        # each one up BY NAME (`none` = AttributeError).  ctx_attrs: attributes that hold a
        # context object (self.cm).  `return <cm>.packer["FMT"].pack(e1, ..., en)` is then allowed as the
        # uninterpreted result `[e1, ..., en]` (FMT recorded as `<name>_pack`).
        self.attrs_in, self.ctx_attrs0 = attrs_in, tuple(ctx_attrs)
        self.attr_params = []
        self.pack_fmt = None
        # init=True: an `__init__`-style method (returns None); the result is the list of the int attributes
        # `self.X` it assigned.  unpacked="buff": the parameter whose only use is ONE statement
        # `t1, ..., tn = <cm>.packer["FMT"].unpack(buff[: self.length])`; the translated function takes the
        # unpacked values `vs : List Int` instead and records FMT and the length (see `init_mode` in the docstring)
        self.init, self.unpacked = init, unpacked
        self.unpack_info = None  # filled in: (FMT, length)
        self.name, self.cls, self.ctx, self.stream = name, cls, tuple(ctx), stream
        self.types, self.ret, self.fuels = dict(types or {}), ret, list(fuels)
        if init:
            ret = T_FIELDS
            self.ret = ret
        self.lean_name = lean_name or name
        self.reads = False       # filled in: does it consume the stream
        self.params = []         # filled in: [(lean name, type)]


def lname(n):
    # names the translator itself uses (temporaries t<k>_, attribute locals self_X, the unpacked values vs) and
    # the hole `_` cannot be Python locals
    if n == "_":
        return "us_"                      # Python's conventional unused name; `_` is a hole in Lean
    if n == "us_" or n == "vs" or n.startswith("self_") or re.fullmatch(r"t\d+_", n) or not re.fullmatch(r"[A-Za-z_][A-Za-z0-9_]*", n):
        raise Unsupported(None, f"local name {n!r} is reserved by the translator or not a plain identifier")
    return n + "_" if n in LEAN_KEYWORDS else n


def ilit(v):
    return f"({v} : Int)" if v >= 0 else f"(-{-v} : Int)"


def is_nonneg_lit(node):
    return isinstance(node, ast.Constant) and type(node.value) is int and node.value >= 0


class Env:
    """definitely assigned locals on the current path: name -> type (insertion ordered)"""

    def __init__(self, d=None):
        self.d = dict(d or {})

    def copy(self):
        return Env(self.d)

    def set(self, node, name, ty):
        if name in self.d and self.d[name] != ty:
            raise Unsupported(node, f"local {name} changes type {self.d[name]} -> {ty}")
        self.d[name] = ty


class FuncTranslator:
    def __init__(self, mod, spec, fn):
        self.mod, self.spec, self.fn = mod, spec, fn
        self.aux = []            # auxiliary loop defs (lists of lines)
        self.nloops = 0
        self.unpack_stmt_node = None
        self.ctx_attrs = set(spec.ctx_attrs0)    # init mode: attributes holding a context object (self.cm = cm)
        self.fresh_lists = set()  # locals bound to a list literal (item assignment allowed)
        self.loops = {}          # (while index, locals) -> auxiliary def name
        self.in_while = False
        self.in_for = False
        self.tmp = 0
        self.nlines = 0
        self.uses_stream = spec.stream is not None

    # ---------- expressions ----------
    def fresh(self):
        self.tmp += 1
        return f"t{self.tmp}_"

    def ret_type(self):
        r = self.spec.ret
        return f"Option ({r} × List Nat)" if self.uses_stream else f"Option ({r})"

    def expr(self, node, env, pre, hoist=True):
        """-> (lean text, type). `pre`: hoisted steps ('guard', cond) / ('bind', pattern, call)."""
        if isinstance(node, ast.Constant):
            if node.value is True:
                return "true", T_BOOL
            if node.value is False:
                return "false", T_BOOL
            if type(node.value) is int:
                return ilit(node.value), T_INT
            if type(node.value) is str:
                return "([" + ", ".join(str(ord(c)) for c in node.value) + "] : Py.Str)", T_STR
            raise Unsupported(node, f"literal {node.value!r}")
        if isinstance(node, ast.Name):
            if node.id not in env.d:
                v = self.mod.const_value(node, node.id)      # a module-level integer constant (raises otherwise)
                if type(v) is not int:
                    raise Unsupported(node, f"module constant {node.id} is not an int")
                return ilit(v), T_INT
            return lname(node.id), env.d[node.id]
        if isinstance(node, ast.Attribute):
            if isinstance(node.value, ast.Name) and node.value.id == "sys" and node.attr == "maxsize" \
                    and "sys" not in env.d:
                if sys.maxsize != 2 ** 63 - 1:
                    raise Unsupported(node, "sys.maxsize is not 2**63-1 on this interpreter")
                return ilit(2 ** 63 - 1), T_INT
            if self.spec.attrs_in and isinstance(node.value, ast.Name) and node.value.id == "self" \
                    and node.attr not in self.ctx_attrs and "self" in self.spec.ctx:
                # an int attribute of the object: looked up BY NAME in the attribute list (AttributeError = none)
                if node.attr not in self.spec.attr_params:
                    self.spec.attr_params.append(node.attr)
                return self.bind(node, pre, hoist, f'List.lookup "{node.attr}" self_', T_INT, False)
            if self.spec.init and isinstance(node.value, ast.Name) and node.value.id == "self":
                key = "self." + node.attr
                if key in env.d:
                    return "self_" + node.attr, env.d[key]
                if node.attr == "length":
                    return ilit(self.class_length(node)), T_INT
            raise Unsupported(node, "attribute " + ast.unparse(node))
        if isinstance(node, ast.Subscript):
            return self.index(node, env, pre, hoist, (T_LIST, T_BYTES))
        if isinstance(node, ast.UnaryOp):
            if isinstance(node.op, ast.Not):
                return f"(!{self.cond(node.operand, env, pre, hoist)})", T_BOOL
            a = self.int_expr(node.operand, env, pre, hoist)
            if isinstance(node.op, ast.USub):
                return f"(-{a})", T_INT
            if isinstance(node.op, ast.UAdd):
                return a, T_INT
            if isinstance(node.op, ast.Invert):
                return f"(-{a} - 1)", T_INT
        if isinstance(node, ast.BinOp):
            return self.binop(node, node.left, node.op, node.right, env, pre, hoist)
        if isinstance(node, ast.Compare):
            parts = []
            left = self.int_expr(node.left, env, pre, hoist)
            for op, right in zip(node.ops, node.comparators):
                r = self.int_expr(right, env, pre, hoist)
                sym = {ast.Lt: "<", ast.LtE: "≤", ast.Gt: ">", ast.GtE: "≥", ast.Eq: "=", ast.NotEq: "≠"}.get(type(op))
                if sym is None:
                    raise Unsupported(node, "comparison " + type(op).__name__)
                parts.append(f"decide ({left} {sym} {r})")
                left = r
            return (parts[0] if len(parts) == 1 else "(" + " && ".join(parts) + ")"), T_BOOL
        if isinstance(node, ast.BoolOp):
            sym = "&&" if isinstance(node.op, ast.And) else "||"
            out = []
            for i, v in enumerate(node.values):
                out.append(self.cond(v, env, pre, hoist and i == 0))
            return "(" + f" {sym} ".join(out) + ")", T_BOOL
        if isinstance(node, ast.Call):
            return self.call(node, env, pre, hoist)
        if isinstance(node, ast.IfExp):
            # `a if c else b`: the test may hoist, the two arms are evaluated conditionally: nothing in them may hoist
            c = self.cond(node.test, env, pre, hoist)
            a, ta = self.expr(node.body, env, pre, False)
            b, tb = self.expr(node.orelse, env, pre, False)
            if ta != tb:
                raise Unsupported(node, f"conditional expression of {ta} and {tb}")
            return f"(if {c} then {a} else {b})", ta
        raise Unsupported(node, "expression " + type(node).__name__)

    def index(self, node, env, pre, hoist, allowed):
        """x[i], x a local sequence, i a non-negative literal: the element, IndexError (none) beyond the end"""
        if not (isinstance(node.value, ast.Name) and is_nonneg_lit(node.slice)):
            raise Unsupported(node, "subscript other than <local>[<non-negative literal>]")
        x, t = self.expr(node.value, env, pre, hoist)
        if t not in allowed:
            raise Unsupported(node, f"subscript of {t}")
        return self.bind(node, pre, hoist, f"{x}[{node.slice.value}]?", T_INT, False)

    def int_expr(self, node, env, pre, hoist=True):
        s, t = self.expr(node, env, pre, hoist)
        if t != T_INT:
            raise Unsupported(node, f"an int is required, {ast.unparse(node)} is {t}")
        return s

    def cond(self, node, env, pre, hoist=True):
        s, t = self.expr(node, env, pre, hoist)
        if t == T_BOOL:
            return s
        if t == T_INT:
            return f"decide ({s} ≠ 0)"
        if t in SEQ:
            return f"decide ({s} ≠ [])"
        raise Unsupported(node, f"truthiness of {t}")

    def guard(self, node, pre, hoist, c):
        if not hoist:
            raise Unsupported(node, "an operation that may raise is evaluated conditionally")
        pre.append(("guard", c))

    def binop(self, node, left, op, right, env, pre, hoist):
        if (isinstance(op, ast.Mult) and isinstance(left, ast.Call) and isinstance(left.func, ast.Name)
                and left.func.id == "float" and "float" not in env.d and len(left.args) == 1 and not left.keywords
                and isinstance(right, ast.Subscript) and isinstance(right.value, ast.Name)
                and right.value.id not in env.d):
            # float(e) * TABLE[i], TABLE a module-level list literal: floats are not interpreted, the product
            # (with the IndexError of the lookup) is returned as the symbolic value Py.FloatTimesTable
            self.mod.require_table(node, right.value.id)
            e = self.int_expr(left.args[0], env, pre, hoist)
            i = self.int_expr(right.slice, env, pre, hoist)
            return f'(Py.FloatTimesTable.mk "{right.value.id}" {e} {i})', T_FTAB
        a, ta = self.expr(left, env, pre, hoist)
        if ta in SEQ:
            b, tb = self.expr(right, env, pre, hoist)
            if isinstance(op, ast.Add) and tb == ta:
                return f"({a} ++ {b})", ta
            raise Unsupported(node, "sequence operator")
        if ta != T_INT:
            raise Unsupported(node, f"operator on {ta}")
        if isinstance(op, (ast.LShift, ast.RShift)):
            f = "Py.shl" if isinstance(op, ast.LShift) else "Py.shr"
            if is_nonneg_lit(right):
                return f"({f} {a} {right.value})", T_INT
            b = self.int_expr(right, env, pre, hoist)
            self.guard(node, pre, hoist, f"decide ({b} < 0)")
            return f"({f} {a} (Int.toNat {b}))", T_INT
        if isinstance(op, (ast.FloorDiv, ast.Mod)):
            if is_nonneg_lit(right) and right.value > 0:
                return f"({a} {'/' if isinstance(op, ast.FloorDiv) else '%'} {ilit(right.value)})", T_INT
            b = self.int_expr(right, env, pre, hoist)
            self.guard(node, pre, hoist, f"decide ({b} = 0)")
            return f"({'Int.fdiv' if isinstance(op, ast.FloorDiv) else 'Int.fmod'} {a} {b})", T_INT
        b = self.int_expr(right, env, pre, hoist)
        if isinstance(op, (ast.Add, ast.Sub, ast.Mult)):
            return f"({a} {'+' if isinstance(op, ast.Add) else '-' if isinstance(op, ast.Sub) else '*'} {b})", T_INT
        f = {ast.BitAnd: "band", ast.BitOr: "bor", ast.BitXor: "bxor"}.get(type(op))
        if f is None:
            raise Unsupported(node, "operator " + type(op).__name__)
        return f"(Py.{f} {a} {b})", T_INT

    def bind(self, node, pre, hoist, call, ty, reads, target=None):
        if not hoist:
            raise Unsupported(node, "a call is evaluated conditionally")
        t = target or self.fresh()
        pre.append(("bind", f"({t}, bs)" if reads else t, call))
        return t, ty

    def is_ctx(self, a):
        if (self.spec.init or self.spec.attrs_in) and isinstance(a, ast.Attribute) and isinstance(a.value, ast.Name) and a.value.id == "self" \
                and a.attr in self.ctx_attrs:
            return True
        return isinstance(a, ast.Name) and a.id in self.spec.ctx

    def class_def(self, node):
        cs = [n for n in self.mod.tree.body if isinstance(n, ast.ClassDef) and n.name == self.spec.cls]
        if len(cs) != 1:
            raise Unsupported(node, "class " + str(self.spec.cls))
        return cs[0]

    def class_length(self, node):
        """`self.length`: the class attribute `length = <int literal>` of the class being translated, assigned
        exactly once in the class body and never stored through `self`"""
        c = self.class_def(node)
        ls = [n for n in c.body if isinstance(n, ast.Assign) and len(n.targets) == 1 and isinstance(n.targets[0], ast.Name)
              and n.targets[0].id == "length"]
        stores = [n for n in ast.walk(c) if isinstance(n, ast.Attribute) and n.attr == "length" and not isinstance(n.ctx, ast.Load)]
        if len(ls) != 1 or not is_nonneg_lit(ls[0].value) or stores:
            raise Unsupported(node, "self.length is not a class attribute bound once to an int literal")
        return ls[0].value.value

    def length_expr(self, node):
        """self.length, or self.get_length() when the (single, module-level) base class defines
        `def get_length(self): return self.length` and the class does not override it"""
        if isinstance(node, ast.Attribute) and isinstance(node.value, ast.Name) and node.value.id == "self" and node.attr == "length":
            return self.class_length(node)
        if (isinstance(node, ast.Call) and not node.args and not node.keywords and isinstance(node.func, ast.Attribute)
                and isinstance(node.func.value, ast.Name) and node.func.value.id == "self" and node.func.attr == "get_length"):
            c = self.class_def(node)
            if any(isinstance(n, ast.FunctionDef) and n.name == "get_length" for n in c.body):
                raise Unsupported(node, "get_length overridden")
            b = self.base_class(node)
            gs = [n for n in b.body if isinstance(n, ast.FunctionDef) and n.name == "get_length"]
            body = [x for x in gs[0].body if not (isinstance(x, ast.Expr) and isinstance(x.value, ast.Constant))] if len(gs) == 1 else []
            if len(body) != 1 or ast.unparse(body[0]) != "return self.length":
                raise Unsupported(node, "base get_length is not `return self.length`")
            return self.class_length(node)
        raise Unsupported(node, "slice bound is neither self.length nor self.get_length()")

    def base_class(self, node):
        c = self.class_def(node)
        if len(c.bases) != 1 or not isinstance(c.bases[0], ast.Name):
            raise Unsupported(node, "not exactly one named base class")
        bs = [n for n in self.mod.tree.body if isinstance(n, ast.ClassDef) and n.name == c.bases[0].id]
        if len(bs) != 1:
            raise Unsupported(node, "base class is not a module-level class")
        return bs[0]

    def is_stream(self, a):
        return isinstance(a, ast.Name) and self.spec.stream is not None and a.id == self.spec.stream

    def call(self, node, env, pre, hoist, target=None):
        f = node.func
        if node.keywords:
            raise Unsupported(node, "keyword arguments")
        if isinstance(f, ast.Name) and f.id in ("max", "min", "len", "chr", "ord", "bytearray", "float", "range"):
            self.mod.require_builtin(node, f.id)
        if isinstance(f, ast.Name) and f.id in ("max", "min") and f.id not in env.d:
            if len(node.args) < 2:
                raise Unsupported(node, f.id + " of an iterable")
            xs = [self.int_expr(a, env, pre, hoist) for a in node.args]
            out = xs[0]
            for x in xs[1:]:
                out = f"({f.id} {out} {x})"       # Lean max/min on Int: left-nested, same value as Python's
            return out, T_INT
        if isinstance(f, ast.Name) and f.id in ("chr", "ord", "len") and f.id not in env.d and len(node.args) == 1:
            a0 = node.args[0]
            if f.id == "chr":
                e = self.int_expr(a0, env, pre, hoist)
                self.guard(node, pre, hoist, f"(!Py.chrOk {e})")
                return f"([{e}] : Py.Str)", T_STR
            if f.id == "ord":
                if isinstance(a0, ast.Constant) and type(a0.value) is str and len(a0.value) == 1:
                    return ilit(ord(a0.value)), T_INT
                if isinstance(a0, ast.Subscript):          # ord(s[i]): the code point at i (s[i] has length 1)
                    return self.index(a0, env, pre, hoist, (T_STR,))
                raise Unsupported(node, "ord of anything but a one-character literal or <str local>[<literal>]")
            x, t = self.expr(a0, env, pre, hoist)
            if t not in SEQ:
                raise Unsupported(node, f"len of {t}")
            return f"(Int.ofNat (List.length {x}))", T_INT
        if isinstance(f, ast.Name) and f.id == "bytearray" and not node.args:
            return "([] : List Int)", T_BYTES
        if isinstance(f, ast.Name) and f.id == "get_byte" and f.id not in env.d:
            self.mod.require_get_byte(node)
            if not (len(node.args) == 2 and self.is_ctx(node.args[0]) and self.is_stream(node.args[1])):
                raise Unsupported(node, "get_byte must be called as get_byte(cm, <stream parameter>)")
            return self.bind(node, pre, hoist, "Py.getByte bs", T_INT, True, target)
        # cm.packer["B"].pack(e)
        if (isinstance(f, ast.Attribute) and f.attr == "pack" and isinstance(f.value, ast.Subscript)
                and isinstance(f.value.slice, ast.Constant) and f.value.slice.value == "B"
                and isinstance(f.value.value, ast.Attribute) and f.value.value.attr == "packer"
                and self.is_ctx(f.value.value.value) and len(node.args) == 1):
            e = self.int_expr(node.args[0], env, pre, hoist)
            self.guard(node, pre, hoist, f"(!Py.packBOk {e})")
            return f"[{e}]", T_BYTES
        # a function translated earlier: f(cm, buff, ...) or self.f(...)
        callee = None
        args = list(node.args)
        if isinstance(f, ast.Name) and f.id in self.mod.done and f.id not in env.d:
            callee = self.mod.done[f.id]
            if callee.cls is not None:
                raise Unsupported(node, "method called as a function")
        elif isinstance(f, ast.Attribute) and self.is_ctx(f.value) and f.attr in self.mod.done \
                and self.mod.done[f.attr].cls is not None and self.mod.done[f.attr].cls == self.spec.cls:
            callee = self.mod.done[f.attr]
            args = [f.value] + args
        if callee is None and isinstance(f, ast.Name) and f.id not in env.d:
            callee = self.mod.helper(node, f.id, self.spec)          # a module-level helper, translated on demand
        if callee is None:
            raise Unsupported(node, "call of " + ast.unparse(f))
        formal = callee.formals
        if len(args) != len(formal):
            raise Unsupported(node, "argument count (defaults are not supported)")
        out = []
        for a, (pname, kind) in zip(args, formal):
            if kind == "ctx":
                if not self.is_ctx(a):
                    raise Unsupported(node, f"context argument {pname}")
            elif kind == "stream":
                if not self.is_stream(a):
                    raise Unsupported(node, "the stream argument must be this function's stream parameter")
            else:
                s, t = self.expr(a, env, pre, hoist)
                if t != kind:
                    raise Unsupported(node, f"argument {pname}: {t} for {kind}")
                if t in (T_BYTES, T_LIST):
                    raise Unsupported(node, "a bytearray/list is passed to a call (aliasing)")
                out.append(s)
        if callee.reads:
            out.append("bs")
        return self.bind(node, pre, hoist, " ".join([callee.lean_name] + out), callee.ret, callee.reads, target)

    # ---------- statements ----------
    def emit_pre(self, pre):
        lines = []
        for p in pre:
            if p[0] == "guard":
                lines.append(f"if {p[1]} then none else")
            else:
                lines += [f"match {p[2]} with", "| none => none", f"| some {p[1]} =>"]
        return lines

    def count(self, lines):
        self.nlines += len(lines)
        if self.nlines > MAX_LINES:
            raise Unsupported(self.fn, "translation too large (duplicated continuations)")
        return lines

    def src(self, st):
        first = ast.unparse(st).splitlines()[0]
        return f"-- L{st.lineno}: {first}"

    def block(self, stmts, env, k, loop):
        """statements `stmts`, then continuation k(env) -> lines; loop = (k_break, k_continue) or None"""
        if not stmts:
            return k(env)
        st, rest = stmts[0], stmts[1:]

        def after(env2):
            return self.block(rest, env2, k, loop)

        if isinstance(st, ast.Pass):
            return after(env)
        if isinstance(st, ast.Expr):
            v = st.value
            if isinstance(v, ast.Constant) and isinstance(v.value, str):
                return after(env)
            if isinstance(v, ast.Call) and isinstance(v.func, ast.Attribute) and isinstance(v.func.value, ast.Name) \
                    and v.func.value.id == "logger" and "logger" not in env.d:
                for a in list(v.args) + [kw.value for kw in v.keywords]:
                    for sub in ast.walk(a):
                        if not isinstance(sub, (ast.Constant, ast.Name, ast.JoinedStr, ast.FormattedValue, ast.Tuple,
                                                ast.BinOp, ast.Mod, ast.Load)):
                            raise Unsupported(st, "logger argument is not plain formatting")
                        if isinstance(sub, ast.Name) and sub.id not in env.d:
                            raise Unsupported(st, f"logger argument {sub.id} is not a definitely assigned local")
                return self.count([self.src(st) + "   (dropped)"]) + after(env)
            if self.spec.init and ast.unparse(v) == "super().__init__()":
                b = self.base_class(st)
                if b.bases or any(isinstance(n, ast.FunctionDef) and n.name == "__init__" for n in b.body):
                    raise Unsupported(st, "the base class has bases or its own __init__")
                return self.count([self.src(st) + "   (dropped: the base class defines no __init__)"]) + after(env)
            raise Unsupported(st, "expression statement")
        if isinstance(st, (ast.Assign, ast.AnnAssign, ast.AugAssign)):
            if isinstance(st, ast.Assign):
                if len(st.targets) != 1:
                    raise Unsupported(st, "multiple assignment targets")
                tgt, val = st.targets[0], st.value
            elif isinstance(st, ast.AnnAssign):
                if st.value is None:
                    raise Unsupported(st, "annotation without value")
                tgt, val = st.target, st.value
            else:
                tgt, val = st.target, None
            if isinstance(st, ast.Assign) and isinstance(tgt, ast.Subscript):
                return self.set_item(st, tgt, val, env, after)
            if self.spec.init and isinstance(st, ast.Assign) and isinstance(tgt, ast.Tuple):
                return self.unpack_stmt(st, tgt, val, env, after)
            if self.spec.init and isinstance(st, ast.Assign) and isinstance(tgt, ast.Attribute) \
                    and isinstance(tgt.value, ast.Name) and tgt.value.id == "self":
                if self.is_ctx(val):                      # self.cm = cm
                    self.ctx_attrs.add(tgt.attr)
                    return self.count([self.src(st) + "   (context object)"]) + after(env)
                if tgt.attr in self.ctx_attrs or tgt.attr == "length":
                    raise Unsupported(st, "store to a context attribute / self.length")
                pre = []
                e = self.int_expr(val, env, pre, True)
                env = env.copy()
                env.set(st, "self." + tgt.attr, T_INT)
                return self.count([self.src(st)] + self.emit_pre(pre) + [f"let self_{tgt.attr} : Int := {e}"]) + after(env)
            if not isinstance(tgt, ast.Name):
                raise Unsupported(st, "assignment target is not a plain name")
            if tgt.id in self.spec.ctx or tgt.id == self.spec.stream:
                raise Unsupported(st, "assignment to a context/stream parameter")
            pre = []
            n = lname(tgt.id)
            if val is None:
                s, t = self.binop(st, ast.Name(id=tgt.id, ctx=ast.Load(), lineno=st.lineno), st.op, st.value, env, pre, True)
            elif isinstance(val, ast.Call):
                s, t = self.call(val, env, pre, True, target=n)
            elif isinstance(val, ast.List):                 # a fresh list of ints
                s = "([" + ", ".join(self.int_expr(e, env, pre, True) for e in val.elts) + "] : Py.IntList)"
                t = T_LIST
                self.fresh_lists.add(tgt.id)
            else:
                s, t = self.expr(val, env, pre, True)
                if t in (T_BYTES, T_LIST) and isinstance(val, ast.Name):
                    raise Unsupported(st, "copying a bytearray/list from name to name (aliasing)")
            env = env.copy()
            env.set(st, tgt.id, t)
            lines = [self.src(st)] + self.emit_pre(pre)
            if s != n:
                lines.append(f"let {n} : {t} := {s}")
            return self.count(lines) + after(env)
        if isinstance(st, ast.Return):
            if st.value is None or self.spec.init:
                raise Unsupported(st, "return without a value / return in an initialiser")
            pre = []
            v = st.value
            if (self.spec.attrs_in and isinstance(v, ast.Call) and isinstance(v.func, ast.Attribute) and v.func.attr == "pack"
                    and isinstance(v.func.value, ast.Subscript) and isinstance(v.func.value.slice, ast.Constant)
                    and isinstance(v.func.value.slice.value, str) and isinstance(v.func.value.value, ast.Attribute)
                    and v.func.value.value.attr == "packer" and self.is_ctx(v.func.value.value.value) and not v.keywords):
                fmt = v.func.value.slice.value
                if self.spec.pack_fmt not in (None, fmt):
                    raise Unsupported(st, "two different pack formats")
                self.spec.pack_fmt = fmt
                args = [self.int_expr(a, env, pre, True) for a in v.args]
                if self.spec.ret != T_LIST:
                    raise Unsupported(st, "declare ret=T_LIST for a method returning packer[...].pack(...)")
                return self.count([self.src(st)] + self.emit_pre(pre) + ["some ([" + ", ".join(args) + "] : Py.IntList)"])
            if isinstance(v, ast.List):                     # return [e1, ..., en]: a fresh list of ints
                s = "([" + ", ".join(self.int_expr(e, env, pre, True) for e in v.elts) + "] : Py.IntList)"
                t = T_LIST
            else:
                s, t = self.expr(st.value, env, pre, True)
            if t != self.spec.ret:
                raise Unsupported(st, f"returns {t}, declared {self.spec.ret}")
            return self.count([self.src(st)] + self.emit_pre(pre) + [f"some ({s}, bs)" if self.uses_stream else f"some {s}"])
        if isinstance(st, ast.Raise):
            return self.count([self.src(st), "none"])
        if isinstance(st, ast.Break):
            if loop is None:
                raise Unsupported(st, "break outside a loop")
            return self.count([self.src(st)]) + loop[0](env)
        if isinstance(st, ast.Continue):
            if loop is None:
                raise Unsupported(st, "continue outside a loop")
            return self.count([self.src(st)]) + loop[1](env)
        if isinstance(st, ast.If):
            pre = []
            c = self.cond(st.test, env, pre, True)
            a = self.block(st.body, env.copy(), after, loop)
            b = self.block(st.orelse, env.copy(), after, loop)
            return self.count([f"-- L{st.lineno}: if {ast.unparse(st.test)}:"] + self.emit_pre(pre) + [f"if {c} then ("]
                              + ["  " + x for x in a] + [") else ("] + ["  " + x for x in b] + [")"])
        if isinstance(st, ast.For):
            return self.for_range(st, env, after, loop)
        if isinstance(st, ast.While):
            return self.while_loop(st, env, after)
        raise Unsupported(st, "statement " + type(st).__name__)

    def unpack_stmt(self, st, tgt, val, env, after):
        """t1, ..., tn = <cm>.packer["FMT"].unpack(<unpacked param>[: self.length]) -- the values come in as `vs`"""
        f = val.func if isinstance(val, ast.Call) else None
        if not (f is not None and isinstance(f, ast.Attribute) and f.attr == "unpack" and isinstance(f.value, ast.Subscript)
                and isinstance(f.value.slice, ast.Constant) and isinstance(f.value.slice.value, str)
                and isinstance(f.value.value, ast.Attribute) and f.value.value.attr == "packer"
                and self.is_ctx(f.value.value.value) and len(val.args) == 1 and not val.keywords):
            raise Unsupported(st, "tuple assignment from anything but <cm>.packer[FMT].unpack(...)")
        a = val.args[0]
        if not (isinstance(a, ast.Subscript) and isinstance(a.value, ast.Name) and a.value.id == self.spec.unpacked
                and isinstance(a.slice, ast.Slice) and a.slice.lower is None and a.slice.step is None and a.slice.upper is not None):
            raise Unsupported(st, "unpack argument is not <unpacked parameter>[: self.length]")
        if self.spec.unpack_info is not None and self.unpack_stmt_node is not st:
            raise Unsupported(st, "more than one unpack statement")
        self.unpack_stmt_node = st
        self.spec.unpack_info = (f.value.slice.value, self.length_expr(a.slice.upper))
        env = env.copy()
        names = []
        for t in tgt.elts:
            if isinstance(t, ast.Name) and t.id not in self.spec.ctx and t.id != self.spec.unpacked:
                env.set(st, t.id, T_INT)
                names.append(lname(t.id))
            elif isinstance(t, ast.Attribute) and isinstance(t.value, ast.Name) and t.value.id == "self" \
                    and t.attr not in self.ctx_attrs and t.attr != "length":
                env.set(st, "self." + t.attr, T_INT)
                names.append("self_" + t.attr)
            else:
                raise Unsupported(st, "tuple target")
        if len(set(names)) != len(names):
            raise Unsupported(st, "repeated tuple target")
        body = after(env)
        return self.count([self.src(st), "match vs with", f"| [{', '.join(names)}] => ("] + ["  " + x for x in body]
                          + ["  )", "| _ => none"])

    def set_item(self, st, tgt, val, env, after):
        """x[i] = e for a list created in this function by a list literal, i a non-negative literal"""
        if not (isinstance(tgt.value, ast.Name) and is_nonneg_lit(tgt.slice)):
            raise Unsupported(st, "item assignment other than <local>[<non-negative literal>] = e")
        x = tgt.value.id
        if env.d.get(x) != T_LIST or x not in self.fresh_lists:
            raise Unsupported(st, "item assignment to something that is not a list created here by a list literal")
        pre = []
        e = self.int_expr(val, env, pre, True)
        i = tgt.slice.value
        pre.append(("guard", f"decide (List.length {lname(x)} ≤ {i})"))
        return self.count([self.src(st)] + self.emit_pre(pre)
                          + [f"let {lname(x)} : Py.IntList := List.set {lname(x)} {i} {e}"]) + after(env)

    def for_range(self, st, env, after, loop):
        it = st.iter
        if st.orelse or not isinstance(st.target, ast.Name):
            raise Unsupported(st, "for/else or a non-name loop variable")
        if isinstance(it, ast.Call) and isinstance(it.func, ast.Name) and it.func.id == "range" and "range" not in env.d \
                and not it.keywords and len(it.args) in (1, 2) and all(is_nonneg_lit(a) for a in it.args):
            self.mod.require_builtin(st, "range")
            lo_, hi_ = (0, it.args[0].value) if len(it.args) == 1 else (it.args[0].value, it.args[1].value)
            values = list(range(lo_, hi_))
        elif isinstance(it, (ast.Tuple, ast.List)) or (isinstance(it, ast.Name) and it.id not in env.d):
            # a literal tuple/list of ints, or a module-level constant bound to one (never mutated: see const_value)
            v = self.mod.const_eval(it, it) if not isinstance(it, ast.Name) else self.mod.const_value(it, it.id)
            if not (isinstance(v, tuple) and all(type(e) is int for e in v)):
                raise Unsupported(st, "for over something that is not a constant tuple of ints")
            values = list(v)
        else:
            raise Unsupported(st, "for over anything but range(<literal>[, <literal>]) or a constant tuple of ints")
        if len(values) > 16:
            raise Unsupported(st, "more than 16 iterations")
        lo, hi = 0, len(values)
        x = st.target.id
        outer_in_for = self.in_for

        def iteration(i, env_i):
            if i >= hi:
                return after_out(env_i)
            e = env_i.copy()
            e.set(st, x, T_INT)

            def nxt(env2):
                return iteration(i + 1, env2)

            self.in_for = True
            try:
                body = self.block(st.body, e, nxt, (after_out, nxt))
            finally:
                self.in_for = outer_in_for
            return self.count([f"-- L{st.lineno}: for {x} in {ast.unparse(it)}:   iteration {x} = {values[i]}",
                               f"let {lname(x)} : Int := {ilit(values[i])}"]) + body

        def after_out(env2):
            # code after the loop is outside the unrolled body again
            saved, self.in_for = self.in_for, outer_in_for
            try:
                return after(env2)
            finally:
                self.in_for = saved

        return iteration(lo, env)

    def while_loop(self, st, env, after):
        if st.orelse:
            raise Unsupported(st, "while/else")
        if self.in_while:
            raise Unsupported(st, "nested while")
        if self.in_for:
            # the statements after the loop differ from one unrolled iteration to the next, the auxiliary
            # definition (which contains them) is shared: refused
            raise Unsupported(st, "while inside an unrolled for")
        whiles = sorted((n for n in ast.walk(self.fn) if isinstance(n, ast.While)), key=lambda n: (n.lineno, n.col_offset))
        if len(whiles) != len(self.spec.fuels):
            raise Unsupported(st, f"{len(whiles)} while loops, {len(self.spec.fuels)} fuels given")
        idx = whiles.index(st)
        fuel = self.spec.fuels[idx]
        # the statements after an `if` are translated once per branch: the same loop reached with the
        # same definitely-assigned locals is the same auxiliary definition
        # parameters of the auxiliary definition: the definitely assigned locals SORTED BY NAME, so that
        # reordering independent assignments in front of the loop does not change its signature
        ordered = sorted(env.d.items())
        key = (idx, tuple(ordered))
        if key in self.loops:
            name = self.loops[key]
            args = " ".join(lname(v) for v, _ in ordered) + (" bs" if self.uses_stream else "")
            return [f"-- L{st.lineno}: while {ast.unparse(st.test)}:   fuel {fuel}", f"{name} ({fuel}) {args}"]
        self.nloops += 1
        name = f"{self.spec.lean_name}_while{idx + 1}" + ("" if not any(k[0] == idx for k in self.loops) else f"_{self.nloops}")
        self.loops[key] = name
        params = [(lname(v), t) for v, t in ordered]
        args = " ".join(p for p, _ in params) + (" bs" if self.uses_stream else "")
        head = env.copy()

        def back(env2):
            for v, t in head.d.items():
                if env2.d.get(v) != t:
                    raise Unsupported(st, f"loop variable {v}")
            return [f"{name} fuel {args}"]

        self.in_while = True
        pre = []
        c = self.cond(st.test, head, pre, True)
        body = self.block(st.body, head.copy(), back, (after, back))
        self.in_while = False
        exit_ = after(head.copy())
        sig = " ".join(f"({p} : {t})" for p, t in params) + (" (bs : List Nat)" if self.uses_stream else "")
        aux = [f"/-- `while {ast.unparse(st.test)}:` of `{self.spec.name}` (source line {st.lineno}), `fuel` iterations at most;",
               "    the statements after the loop are part of this definition -/",
               self.mod.attr_prefix() + f"def {name} (fuel : Nat) {sig} : {self.ret_type()} :=",
               "  match fuel with", "  | 0 => none", "  | fuel + 1 =>"]
        inner = self.emit_pre(pre) + [f"if {c} then ("] + ["  " + x for x in body] + [") else ("] + ["  " + x for x in exit_] + [")"]
        aux += ["    " + x for x in self.count(inner)]
        self.aux.append(aux)
        return [f"-- L{st.lineno}: while {ast.unparse(st.test)}:   fuel {fuel}", f"{name} ({fuel}) {args}"]

    # ---------- a whole function ----------
    def translate(self):
        fn, spec = self.fn, self.spec
        a = fn.args
        if fn.decorator_list or a.vararg or a.kwarg or a.kwonlyargs or a.posonlyargs:
            raise Unsupported(fn, "decorators / *args / **kwargs / keyword-only parameters")
        for d in a.defaults:
            if not (isinstance(d, ast.Constant) or (isinstance(d, ast.Call) and ast.unparse(d).startswith("ord("))):
                raise Unsupported(fn, "non-literal default")
        for sub in ast.walk(fn):
            if sub is not fn and isinstance(sub, (ast.FunctionDef, ast.AsyncFunctionDef, ast.Lambda, ast.ClassDef,
                                                  ast.Global, ast.Nonlocal, ast.Try, ast.With, ast.Yield, ast.YieldFrom,
                                                  ast.Await, ast.ListComp, ast.SetComp, ast.DictComp, ast.GeneratorExp,
                                                  ast.NamedExpr, ast.Delete, ast.Starred)):
                raise Unsupported(sub, type(sub).__name__)
        env = Env()
        formals = []
        for p in a.args:
            if p.arg in spec.ctx:
                formals.append((p.arg, "ctx"))
            elif p.arg == spec.stream:
                formals.append((p.arg, "stream"))
            elif spec.unpacked is not None and p.arg == spec.unpacked:
                formals.append((p.arg, "unpacked"))
            else:
                t = spec.types.get(p.arg, T_INT)
                formals.append((p.arg, t))
                env.set(fn, p.arg, t)
        if spec.stream is not None and (spec.stream, "stream") not in formals:
            raise Unsupported(fn, f"no stream parameter {spec.stream}")
        spec.formals = formals
        spec.reads = self.uses_stream
        spec.params = [("vs", "List Int") if t == "unpacked" else (lname(n), t) for n, t in formals if t not in ("ctx", "stream")]
        if spec.unpacked is not None:
            uses = [n for n in ast.walk(fn) if isinstance(n, ast.Name) and n.id == spec.unpacked]
            if len(uses) != 1:
                raise Unsupported(fn, f"{spec.unpacked} must be used exactly once (in the unpack statement)")

        def fall_off(env_end):
            if not spec.init:
                raise Unsupported(fn, "control can reach the end of the function (returns None)")
            fields = [k[5:] for k in env_end.d if k.startswith("self.")]
            return ["-- end of the initialiser: the int attributes set on this path",
                    "some [" + ", ".join(f'("{k}", self_{k})' for k in fields) + "]"]

        body = self.block(fn.body, env, fall_off, None)
        if len([n for n in ast.walk(fn) if isinstance(n, ast.While)]) != len(spec.fuels):
            raise Unsupported(fn, "number of fuels differs from the number of while loops")
        if spec.attrs_in:
            spec.attr_params = sorted(spec.attr_params)
            spec.params = [("self_", T_FIELDS)] + spec.params
        sig = " ".join(f"({p} : {t})" for p, t in spec.params) + (" (bs : List Nat)" if self.uses_stream else "")
        where = f"{spec.cls}.{spec.name}" if spec.cls else spec.name
        if spec.pack_fmt is not None:
            out_pack = [f"/-- struct format of the `pack` call of `{where}` (the translated function returns the argument tuple) -/",
                        f'def {spec.lean_name}_pack : String := "{spec.pack_fmt}"', ""]
        else:
            out_pack = []
        out = []
        for aux in self.aux:
            out += aux + [""]
        if spec.unpacked is not None:
            if spec.unpack_info is None:
                raise Unsupported(fn, "no unpack statement")
            out += [f"/-- struct format and slice length of the unpack statement of `{where}` -/",
                    f'def {spec.lean_name}_unpack : String × Nat := ("{spec.unpack_info[0]}", {spec.unpack_info[1]})', ""]
        out += out_pack
        out += [f"/-- `{where}` (source lines {fn.lineno}-{fn.end_lineno})" + (
                    "; `self_` is the list of the object's int attributes, read by name: " + ", ".join(spec.attr_params)
                    if spec.attrs_in else "") + " -/",
                self.mod.attr_prefix() + f"def {spec.lean_name} {sig} : {self.ret_type()} :=".replace("  :", " :")]
        out += ["  " + x for x in body]
        return out


class Module:
    def __init__(self, tree):
        self.tree = tree
        self.done = {}
        self.pending = []         # helper definitions translated on demand, to be emitted before their caller
        self.in_progress = []
        self.get_byte_checked = False

    def find(self, spec):
        body = self.tree.body
        if spec.cls is not None:
            cs = [n for n in body if isinstance(n, ast.ClassDef) and n.name == spec.cls]
            if len(cs) != 1:
                raise Unsupported(self.tree, f"class {spec.cls}: {len(cs)} definitions")
            body = cs[0].body
        fs = [n for n in body if isinstance(n, ast.FunctionDef) and n.name == spec.name]
        if len(fs) != 1:
            raise Unsupported(self.tree, f"function {spec.name}: {len(fs)} definitions")
        return fs[0]

    def const_eval(self, at, e, depth=0):
        """value of a constant expression: int literals, ord('c'), + - * // % & | ^ << >> and unary - + ~ on
        constants, tuples/lists of constants (as a tuple), names of other module constants"""
        if depth > 8:
            raise Unsupported(at, "constant expression too deep")
        if isinstance(e, ast.Constant) and type(e.value) is int:
            return e.value
        if isinstance(e, (ast.Tuple, ast.List)):
            return tuple(self.const_eval(at, x, depth + 1) for x in e.elts)
        if isinstance(e, ast.Name):
            return self.const_value(at, e.id, depth + 1)
        if isinstance(e, ast.Call) and isinstance(e.func, ast.Name) and e.func.id == "ord" and len(e.args) == 1 \
                and not e.keywords and isinstance(e.args[0], ast.Constant) and type(e.args[0].value) is str \
                and len(e.args[0].value) == 1:
            self.require_builtin(at, "ord")
            return ord(e.args[0].value)
        if isinstance(e, ast.UnaryOp) and isinstance(e.op, (ast.USub, ast.UAdd, ast.Invert)):
            v = self.const_eval(at, e.operand, depth + 1)
            if type(v) is int:
                return -v if isinstance(e.op, ast.USub) else v if isinstance(e.op, ast.UAdd) else ~v
        if isinstance(e, ast.BinOp):
            a, b = self.const_eval(at, e.left, depth + 1), self.const_eval(at, e.right, depth + 1)
            if type(a) is int and type(b) is int:
                op = type(e.op)
                if op in (ast.LShift, ast.RShift) and not 0 <= b <= 256:
                    raise Unsupported(at, "constant shift count")
                if op in (ast.FloorDiv, ast.Mod) and b == 0:
                    raise Unsupported(at, "constant division by zero")
                fn = {ast.Add: lambda: a + b, ast.Sub: lambda: a - b, ast.Mult: lambda: a * b, ast.FloorDiv: lambda: a // b,
                      ast.Mod: lambda: a % b, ast.BitAnd: lambda: a & b, ast.BitOr: lambda: a | b, ast.BitXor: lambda: a ^ b,
                      ast.LShift: lambda: a << b, ast.RShift: lambda: a >> b}.get(op)
                if fn is not None:
                    return fn()
        raise Unsupported(at, "not a constant expression: " + ast.unparse(e)[:60])

    def const_value(self, at, name, depth=0):
        """`name` is bound exactly once in the whole module, by a top-level `name = <constant expression>`
        (no other store, def, class, import, global, parameter or loop target of that name anywhere)"""
        binds = 0
        for n in ast.walk(self.tree):
            if isinstance(n, ast.Name) and n.id == name and not isinstance(n.ctx, ast.Load):
                binds += 1
            elif isinstance(n, (ast.FunctionDef, ast.AsyncFunctionDef, ast.ClassDef)) and n.name == name:
                binds += 1
            elif isinstance(n, ast.arg) and n.arg == name:
                binds += 1
            elif isinstance(n, (ast.Global, ast.Nonlocal)) and name in n.names:
                binds += 1
            elif isinstance(n, ast.alias) and n.name != "*" and (n.asname or n.name.split(".")[0]) == name:
                binds += 1
        top = [n for n in self.tree.body if isinstance(n, (ast.Assign, ast.AnnAssign))
               and (([t for t in n.targets] if isinstance(n, ast.Assign) else [n.target]) and
                    any(isinstance(t, ast.Name) and t.id == name
                        for t in (n.targets if isinstance(n, ast.Assign) else [n.target])))]
        if len(top) != 1 or binds != 1 or (isinstance(top[0], ast.Assign) and len(top[0].targets) != 1) or top[0].value is None:
            raise Unsupported(at, f"name {name} is neither a definitely assigned local nor a module-level constant bound exactly once")
        for n in self.tree.body:                       # a star import after the assignment could rebind it
            if isinstance(n, ast.ImportFrom) and any(a.name == "*" for a in n.names) and n.lineno > top[0].lineno:
                raise Unsupported(at, f"star import after the definition of {name}")
        return self.const_eval(at, top[0].value, depth)

    def helper(self, node, name, caller):
        """a module-level function called by a translated function and not translated yet: translated on demand
        (parameters named like the caller's context/stream parameters play that role, the others are ints; the
        result type is the first of Int, bytes, str, list for which the translation succeeds) and emitted in front
        of the caller.  Returns None when there is no such function."""
        fs = [n for n in self.tree.body if isinstance(n, ast.FunctionDef) and n.name == name]
        if len(fs) != 1 or name in self.in_progress or len(self.in_progress) >= 3:
            return None
        for n in ast.walk(self.tree):                  # the name denotes that def and nothing else
            if isinstance(n, ast.Name) and n.id == name and not isinstance(n.ctx, ast.Load):
                return None
        params = [a.arg for a in fs[0].args.args]
        stream = caller.stream if caller.stream in params else None
        self.in_progress.append(name)
        try:
            last = None
            for ret in (T_INT, T_BYTES, T_STR, T_LIST):
                nwh = len([n for n in ast.walk(fs[0]) if isinstance(n, ast.While)])
                if nwh:
                    raise Unsupported(node, f"helper {name} has a while loop (no fuel)")
                spec = Func(name, ctx=caller.ctx, stream=stream, ret=ret)
                try:
                    ft = FuncTranslator(self, spec, fs[0])
                    lines = ft.translate()
                except Unsupported as e:
                    last = e
                    continue
                self.pending += lines + [""]
                self.done[name] = spec
                return spec
            raise Unsupported(node, f"helper {name}: {last}")
        finally:
            self.in_progress.pop()

    def attr_prefix(self):
        return f"@[{self.attr}] " if getattr(self, "attr", None) else ""

    def require_builtin(self, node, name):
        """the module does not rebind a builtin the translator interprets (assignment, def, class, import)"""
        for n in ast.walk(self.tree):
            if (isinstance(n, ast.Name) and n.id == name and not isinstance(n.ctx, ast.Load)) \
                    or (isinstance(n, (ast.FunctionDef, ast.AsyncFunctionDef, ast.ClassDef)) and n.name == name) \
                    or (isinstance(n, ast.arg) and n.arg == name) \
                    or (isinstance(n, ast.alias) and n.name != "*" and (n.asname or n.name.split(".")[0]) == name):
                raise Unsupported(node, f"the module rebinds the builtin {name}")

    def require_table(self, node, name):
        """`name` is bound exactly once in the module, at top level, to a list literal"""
        binds = 0
        for n in ast.walk(self.tree):
            if isinstance(n, ast.Name) and n.id == name and not isinstance(n.ctx, ast.Load):
                binds += 1
            elif isinstance(n, (ast.FunctionDef, ast.AsyncFunctionDef, ast.ClassDef)) and n.name == name:
                binds += 1
            elif isinstance(n, (ast.Global, ast.Nonlocal)) and name in n.names:
                binds += 1
            elif isinstance(n, ast.alias) and n.name != "*" and (n.asname or n.name.split(".")[0]) == name:
                binds += 1
            elif isinstance(n, ast.ImportFrom) and any(a.name == "*" for a in n.names) \
                    and any(isinstance(t, ast.Assign) and any(isinstance(x, ast.Name) and x.id == name for x in t.targets)
                            and t.lineno < n.lineno for t in self.tree.body):
                binds += 1                      # a star import AFTER the assignment could rebind the name
        top = [n for n in self.tree.body if isinstance(n, ast.Assign) and len(n.targets) == 1
               and isinstance(n.targets[0], ast.Name) and n.targets[0].id == name and isinstance(n.value, ast.List)]
        if len(top) != 1 or binds != 1:
            raise Unsupported(node, f"{name} is not a module-level list literal bound exactly once")

    def require_get_byte(self, node):
        if self.get_byte_checked:
            return
        fs = [n for n in self.tree.body if isinstance(n, ast.FunctionDef) and n.name == "get_byte"]
        if len(fs) != 1 or [x.arg for x in fs[0].args.args] != ["cm", "buff"] or len(fs[0].body) != 1 \
                or ast.unparse(fs[0].body[0]) != GET_BYTE_SRC:
            raise Unsupported(node, "get_byte is no longer `return cm.packer['B'].unpack(buff.read(1))[0]`")
        self.get_byte_checked = True


def translate(repo, relpath, lean_module, specs, attr=None):
    """attr: name of a registered simp attribute (lean/AgVerif/Model/PyAttr.lean) put on every generated def"""
    path = os.path.join(repo, relpath)
    tree = ast.parse(open(path, encoding="utf-8").read())
    mod = Module(tree)
    mod.attr = attr
    out = ["/- GENERATED by gen/py2lean.py from " + relpath + " -- do not edit.",
           "   Statement-by-statement translation of: " + ", ".join((s.cls + "." if s.cls else "") + s.name for s in specs) + ".",
           "   Conventions and the translated subset: module docstring of gen/py2lean.py;",
           "   meaning of the operators: AgVerif/Model/PyInt.lean. -/",
           "import AgVerif.Model.PyInt"] + (["import AgVerif.Model.PyAttr"] if attr else []) + [
           "set_option linter.unusedVariables false",
           f"namespace AgVerif.Gen.{lean_module}", ""]
    for spec in specs:
        ft = FuncTranslator(mod, spec, mod.find(spec))
        lines = ft.translate()
        out += mod.pending + lines + [""]
        mod.pending = []
        mod.done[spec.name] = spec
    out += [f"end AgVerif.Gen.{lean_module}", ""]
    return {lean_module: "\n".join(out)}
