"""Test functions for the translator gen/py2lean.py: one small function per construct of the
translated subset.  gen/py2lean_selftest.py translates them to Lean AND runs them under CPython on a
grid of arguments; the generated module AgVerif.Gen.PySelfTest carries one `example … := by decide`
per (function, argument) pair, so a translator (or prelude) whose reading of Python differs from
CPython's on any of these breaks the build.  Never imported by androguard."""
import sys


def get_byte(cm, buff):
    return cm.packer["B"].unpack(buff.read(1))[0]


_K = 0x10 | 3
_STEPS = (1, 4, -9)


def _helper_h(a, b):
    if b == 0:
        raise ValueError("b")
    return (a << 1) - a // b


def t_robust(a):
    s = 0
    for _ in range(2):
        s += 1
    for step in _STEPS:
        s = (s | a * step) if a >= 0 else s - step
    k = _K if a % 2 else -_K
    k = k + (0 if a != 6 else -k)
    return _helper_h(s, k) + (1 if s > 100 else 2)


def t_arith(a, b):
    return (a + b) * (a - b) + a // b - a % b


def t_divlit(a):
    return a // 7 * 100 + a % 7


def t_bits(a, b):
    return ((a & b) << 3) ^ (a | b) ^ (~a >> 2)


def t_shift(a, n):
    return (a << n) - (a >> n)


def t_cmp(a, b, c):
    r = 0
    if a < b <= c:
        r += 1
    if a == b or not b != c:
        r += 2
    if a > b and b >= c:
        r += 4
    if not a:
        r += 8
    return r


def t_elif(a):
    if a < 0:
        r = -1
    elif a == 0:
        r = 0
    elif a < 10:
        r = 1
    else:
        r = 2
    return r * 3


def t_for(a):
    s = 0
    for i in range(1, 6):
        if i == a:
            continue
        if i * i > a + 10:
            break
        s += i * 10 + a
    return s


def t_while(a):
    n = 0
    while a != 1:
        if a % 2 == 0:
            a //= 2
        else:
            a = 3 * a + 1
        n += 1
        if n > 20:
            break
    return n * 1000 + a % 1000


def t_while_continue(a):
    s = 0
    i = 0
    while i < a:
        i += 1
        if i % 3 == 0:
            continue
        s += i
    return s


def t_for_while(a):
    s = 0
    for i in range(3):
        if i == a:
            break
        s += i + 1
    while a > 0:
        a -= 2
        s += 10
    return s * 100 + a


def t_minmax(a, b, c):
    return max(a, b, c) * 100 + min(a, b) - max(0, c)


def t_bool(a, b):
    f = a > 0
    g = b > 0 and (not f)
    h = True
    if f or g:
        h = False
    if h:
        return 1
    if g:
        return 2
    return 3


def t_shadow(a):
    x = a
    if a > 0:
        x = x + 1
        if a > 5:
            x = x * 2
        x = x + 100
    else:
        x = -x
    return x


def t_unary(a):
    return -a + +a * 2 - ~a


def t_maxsize(a):
    if a & (-sys.maxsize - 1) == 0:
        return 0
    return -1


def t_mod_var(a, b):
    return a % b * 10 + a // b


def t_read(cm, buff):
    a = get_byte(cm, buff)
    if a & 1:
        b = get_byte(cm, buff)
        return a * 256 + b
    return a


def t_call(cm, buff):
    x = t_read(cm, buff) + t_read(cm, buff)
    if x > 300:
        raise ValueError("big")
    return x


def t_bytes(cm, a):
    out = bytearray()
    for i in range(3):
        out += cm.packer["B"].pack(a + 100 * i)
    out = out + cm.packer["B"].pack(a & 0xFF)
    return out


def t_str(a):
    s = "ab"
    if a:
        s += chr(a)
    s = s + "c"
    return s


def t_list(a, b):
    xs = [a, b, 0]
    xs[2] = xs[0] + xs[1]
    if len(xs) == 3:
        xs[0] = 7
    return xs


def t_index(s, a):
    if s:
        return ord(s[1]) + a
    return len(s) - 1
