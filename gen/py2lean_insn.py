"""Dalvik instruction constructors: `Instruction<fmt>.__init__` of androguard/core/dex/__init__.py
(every format class except Instruction00x, which unpacks nothing) translated statement by statement
to Lean (AgVerif.Gen.PyInsn) by gen/py2lean.py in init mode: the struct unpack is not interpreted,
each `init_<fmt>` takes the unpacked values and returns the int attributes the constructor sets
(`none` = the constructor raises).  `init_<fmt>_unpack` is the struct string and the slice length.
Proof/PyInsn.lean proves each of them equal to the hand model AgVerif.Insn.post.
`Instruction<fmt>.get_raw` of the same classes goes to AgVerif.Gen.PyInsnRaw (attribute-reading mode:
the int attributes read are parameters, the struct pack is not interpreted: `get_raw_<fmt>` returns the
argument tuple, `get_raw_<fmt>_pack` is the struct string); Proof/PyInsnRaw.lean proves them equal to
AgVerif.Insn.packArgs on every object the constructor builds.
The one-line observers `get_ref_off`, `get_ref_kind`, `get_literals`, where a format class defines them,
go to AgVerif.Gen.PyInsnObs (same mode); Proof/PyInsnObs.lean proves them equal to AgVerif.Insn.refOff /
refKind / literals.  No loops."""
import ast
import os

from gen.py2lean import Func, translate, T_LIST

PATH = "androguard/core/dex/__init__.py"
OBSERVERS = [("get_ref_off", "Int"), ("get_ref_kind", "Int"), ("get_literals", T_LIST)]


def classes(repo):
    tree = ast.parse(open(os.path.join(repo, PATH), encoding="utf-8").read())
    return [c.name for c in tree.body if isinstance(c, ast.ClassDef) and c.name.startswith("Instruction")
            and c.name not in ("Instruction", "Instruction00x")]


def generate(repo):
    specs = [Func("__init__", cls=c, init=True, unpacked="buff", lean_name="init_" + c[len("Instruction"):])
             for c in classes(repo)]
    out = translate(repo, PATH, "PyInsn", specs)
    raws = [Func("get_raw", cls=c, attrs_in=True, ctx_attrs=("cm",), ret=T_LIST, lean_name="get_raw_" + c[len("Instruction"):])
            for c in classes(repo)]
    out.update(translate(repo, PATH, "PyInsnRaw", raws))
    tree = ast.parse(open(os.path.join(repo, PATH), encoding="utf-8").read())
    obs = []
    for c in tree.body:
        if isinstance(c, ast.ClassDef) and c.name in classes(repo):
            for m, ret in OBSERVERS:
                if any(isinstance(f, ast.FunctionDef) and f.name == m for f in c.body):
                    obs.append(Func(m, cls=c.name, attrs_in=True, ctx_attrs=("cm",), ret=ret,
                                    lean_name=m + "_" + c.name[len("Instruction"):]))
    out.update(translate(repo, PATH, "PyInsnObs", obs))
    return out
