"""C03: the five LEB128 functions of androguard/core/dex/__init__.py, translated statement by
statement to Lean (AgVerif.Gen.PyLeb) by gen/py2lean.py.  Props/C03.lean proves that each generated
definition equals the hand-written model AgVerif.Leb the property theorems are about.

Fuel of the two `while` loops:
  writeuleb128  `while remaining > 0`: `remaining` is `value >> 7` and is shifted right by 7 in every
                iteration, so it is 0 after at most `value` iterations (value >= 0 here: negatives
                raised before).  Fuel `value + 1`; theorem gen_writeuleb128_eq proves it is never
                exhausted (the hand model is defined by well-founded recursion, without fuel).
  writesleb128  fuel 13 = the 12 bytes of the hand model AgVerif.Leb.writeSlebLoop (enough for
                -2^63 <= value < 2^63; for value >= 2^63 the real loop does not terminate) plus the
                last, failing test of `while hasMore`.  Out of fuel is `none` on both sides."""
from gen.py2lean import Func, translate, T_BYTES

PATH = "androguard/core/dex/__init__.py"


def generate(repo):
    return translate(repo, PATH, "PyLeb", [
        Func("readuleb128", stream="buff"),
        Func("readuleb128p1", stream="buff"),
        Func("readsleb128", stream="buff"),
        Func("writeuleb128", ret=T_BYTES, fuels=["Int.toNat value + 1"]),
        Func("writesleb128", ret=T_BYTES, fuels=["13"]),
    ], attr="pygen")
