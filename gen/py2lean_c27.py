"""C27: `complexToFloat` of androguard/core/axml/__init__.py translated statement by statement to
Lean (AgVerif.Gen.PyResValue) by gen/py2lean.py.  The integer part (mantissa mask, sign test and
correction, radix index) is translated; the float product `float(mantissa) * RADIX_MULTS[i]` is
returned symbolically (Py.FloatTimesTable) and interpreted in Props/C27.lean through the table
generated from the source by gen/resvalues.py.  No loops."""
from gen.py2lean import Func, translate, T_FTAB

PATH = "androguard/core/axml/__init__.py"


def generate(repo):
    return translate(repo, PATH, "PyResValue", [Func("complexToFloat", ret=T_FTAB)])
