"""Translator for C28/C29: the constants of androguard/core/axml the resource-table model depends on,
read from the working tree by AST extraction (no import) -> lean/AgVerif/Gen/ArscConsts.lean.

  module level            RES_STRING_POOL_TYPE, RES_TABLE_TYPE, RES_TABLE_PACKAGE_TYPE, RES_TABLE_TYPE_TYPE,
                          RES_TABLE_TYPE_SPEC_TYPE, RES_XML_FIRST_CHUNK_TYPE, RES_XML_LAST_CHUNK_TYPE, UTF8_FLAG
  ARSCHeader.SIZE         (an expression of integer literals)
  ARSCResTableEntry       FLAG_COMPLEX, FLAG_PUBLIC, FLAG_WEAK, FLAG_COMPACT
  ARSCParser.__init__     the local constants FLAG_SPARSE, FLAG_OFFSET16, NO_ENTRY_16, NO_ENTRY_32
  ARSCParser.__init__     the entry-offset conversions of the three ResTable_type array layouts, as *expressions*
                          (translated, not evaluated): the helper `offset_from16` (0xFFFF sentinel, x4), the FLAG_SPARSE
                          branch (`idx, off = unpack('<HH')`, `offset = off * 4`, no sentinel), the FLAG_OFFSET16 branch
                          (`offset = offset_from16(offset_16)`, skipped when `== NO_ENTRY_16`), the plain branch (raw
                          32-bit offset, skipped when `== NO_ENTRY_32`), and the two `mResId & 0xFFFF0000 | index`
                          assignments.  The model's entry-array decoders are built from these definitions and
                          Props/C28.lean pins them (`sparse_offset_spec`, `offset16_spec`, ...): a changed expression
                          breaks a theorem; a shape this translator no longer recognises raises (= broken obligation).
  types.py                TYPE_REFERENCE, TYPE_ATTRIBUTE, TYPE_STRING, TYPE_FLOAT, TYPE_DIMENSION, TYPE_FRACTION,
                          TYPE_INT_DEC, TYPE_INT_HEX, TYPE_INT_BOOLEAN, TYPE_FIRST_COLOR_INT, TYPE_LAST_COLOR_INT,
                          TYPE_FIRST_INT, TYPE_LAST_INT
"""
import ast
import os


def _ev(node, env):
    if isinstance(node, ast.Constant) and isinstance(node.value, int):
        return node.value
    if isinstance(node, ast.Name):
        return env[node.id]
    if isinstance(node, ast.BinOp):
        a, b = _ev(node.left, env), _ev(node.right, env)
        ops = {ast.Add: lambda: a + b, ast.Sub: lambda: a - b, ast.LShift: lambda: a << b, ast.BitOr: lambda: a | b,
               ast.Mult: lambda: a * b}
        return ops[type(node.op)]()
    raise ValueError("not a constant integer expression: " + ast.dump(node))


def _assigns(body, env, out, prefix=""):
    for st in body:
        if isinstance(st, ast.Assign) and len(st.targets) == 1 and isinstance(st.targets[0], ast.Name):
            try:
                v = _ev(st.value, env)
            except (ValueError, KeyError):
                continue
            env[st.targets[0].id] = v
            out[prefix + st.targets[0].id] = v


# ---------------------------------------------------------------- expressions of the entry-offset loop
_CONST_NAMES = {"FLAG_SPARSE": "flagSparse", "FLAG_OFFSET16": "flagOffset16", "NO_ENTRY_16": "noEntry16",
                "NO_ENTRY_32": "noEntry32"}


class Shape(ValueError):
    """the anchored code no longer has the shape this translator understands"""


def _lean(node, params):
    """a Python integer expression over `params` (and the local constants) as a Lean `Nat` term"""
    if isinstance(node, ast.Constant) and isinstance(node.value, int) and not isinstance(node.value, bool) and node.value >= 0:
        return str(node.value)
    if isinstance(node, ast.Name):
        if node.id in params:
            return params[node.id]
        if node.id in _CONST_NAMES:
            return _CONST_NAMES[node.id]
        raise Shape("unexpected name in offset expression: " + node.id)
    if isinstance(node, ast.Attribute) and ast.unparse(node) in params:
        return params[ast.unparse(node)]
    if isinstance(node, ast.BinOp):
        ops = {ast.Mult: "*", ast.Add: "+", ast.LShift: "<<<", ast.BitOr: "|||", ast.BitAnd: "&&&"}
        if type(node.op) not in ops:
            raise Shape("unexpected operator in offset expression: " + ast.dump(node.op))
        return "(%s %s %s)" % (_lean(node.left, params), ops[type(node.op)], _lean(node.right, params))
    if isinstance(node, ast.IfExp):
        return "(if %s then %s else %s)" % (_lean_test(node.test, params), _lean(node.body, params), _lean(node.orelse, params))
    if isinstance(node, ast.Call) and isinstance(node.func, ast.Name) and node.func.id == "offset_from16" \
            and len(node.args) == 1 and not node.keywords:
        return "(offsetFrom16 %s)" % _lean(node.args[0], params)
    raise Shape("unexpected offset expression: " + ast.unparse(node))


def _lean_test(node, params):
    if isinstance(node, ast.Compare) and len(node.ops) == 1 and isinstance(node.ops[0], (ast.Eq, ast.NotEq)):
        op = "=" if isinstance(node.ops[0], ast.Eq) else "≠"
        return "(%s %s %s)" % (_lean(node.left, params), op, _lean(node.comparators[0], params))
    raise Shape("unexpected test in offset expression: " + ast.unparse(node))


def _need(cond, what):
    if not cond:
        raise Shape("entry-offset loop of ARSCParser.__init__: " + what)


def _assign_to(stmts, name):
    hits = [s for s in stmts if isinstance(s, ast.Assign) and len(s.targets) == 1 and ast.unparse(s.targets[0]) == name]
    _need(len(hits) == 1, "exactly one assignment to `%s` expected, found %d" % (name, len(hits)))
    return hits[0].value


def _skip_test(stmts, var):
    """`if <var> == CONST: continue` -> the test"""
    hits = [s for s in stmts if isinstance(s, ast.If) and len(s.body) == 1 and isinstance(s.body[0], ast.Continue)
            and not s.orelse]
    _need(len(hits) == 1, "exactly one `if ...: continue` expected after the read of `%s`" % var)
    return hits[0].test


def offset_exprs(init):
    """the Lean definitions for the conversions in the `for i in range(0, a_res_type.entryCount)` loop"""
    helpers = [n for n in ast.walk(init) if isinstance(n, ast.FunctionDef) and n.name == "offset_from16"]
    _need(len(helpers) == 1, "helper offset_from16 not found")
    h = helpers[0]
    _need(len(h.args.args) == 1 and len(h.body) == 1 and isinstance(h.body[0], ast.Return), "offset_from16 is not a single return")
    hp = h.args.args[0].arg
    loops = [n for n in ast.walk(init) if isinstance(n, ast.For) and ast.unparse(n.target) == "i"
             and ast.unparse(n.iter) == "range(0, a_res_type.entryCount)"]
    _need(len(loops) == 1, "the loop over range(0, a_res_type.entryCount) not found")
    body = loops[0].body
    _need(len(body) == 2 and isinstance(body[0], ast.If) and ast.unparse(body[0].test) == "a_res_type.flags & FLAG_SPARSE",
          "first statement is not `if a_res_type.flags & FLAG_SPARSE`")
    _need(ast.unparse(body[1]) == "entries.append((offset, current_package.mResId))", "entries.append((offset, mResId)) expected")
    sparse, dense = body[0].body, body[0].orelse
    _need(ast.unparse(_assign_to(sparse, "entry")) == "self.buff.read(4)", "sparse: 4 bytes per entry expected")
    _need(ast.unparse(_assign_to(sparse, "(idx, off)")) == "unpack('<HH', entry)", "sparse: idx, off = unpack('<HH', entry) expected")
    _need(not any(isinstance(s, (ast.If, ast.Continue)) for s in sparse), "sparse: no skipped entries expected")
    idmask = {"current_package.mResId": "mResId"}
    out = [("offsetFrom16", [hp], "Nat", _lean(h.body[0].value, {hp: hp})),
           ("sparseOffset", ["off"], "Nat", _lean(_assign_to(sparse, "offset"), {"off": "off"})),
           ("sparseEntryId", ["mResId", "idx"], "Nat", _lean(_assign_to(sparse, "current_package.mResId"), dict(idmask, idx="idx")))]
    _need(len(dense) == 2 and isinstance(dense[1], ast.If) and ast.unparse(dense[1].test) == "a_res_type.flags & FLAG_OFFSET16",
          "dense: `if a_res_type.flags & FLAG_OFFSET16` expected")
    out.append(("denseEntryId", ["mResId", "i"], "Nat", _lean(_assign_to(dense[:1], "current_package.mResId"), dict(idmask, i="i"))))
    d16, d32 = dense[1].body, dense[1].orelse
    _need(ast.unparse(_assign_to(d16, "offset_16")) == "unpack('<H', self.buff.read(2))[0]", "offset16: 16-bit read expected")
    out.append(("dense16Offset", ["offset_16"], "Nat", _lean(_assign_to(d16, "offset"), {"offset_16": "offset_16"})))
    out.append(("dense16Skip", ["offset"], "Bool", "decide " + _lean_test(_skip_test(d16, "offset_16"), {"offset": "offset"})))
    _need(ast.unparse(_assign_to(d32, "offset")) == "unpack('<I', self.buff.read(4))[0]", "plain: raw 32-bit read expected")
    out.append(("plainSkip", ["offset"], "Bool", "decide " + _lean_test(_skip_test(d32, "offset"), {"offset": "offset"})))
    return out


def generate(repo):
    base = os.path.join(repo, "androguard", "core", "axml")
    env, types, mod = {}, {}, {}
    _assigns(ast.parse(open(os.path.join(base, "types.py")).read()).body, env, types)
    tree = ast.parse(open(os.path.join(base, "__init__.py")).read())
    _assigns(tree.body, env, mod)
    cls = {c.name: c for c in tree.body if isinstance(c, ast.ClassDef)}
    hdr, ent, loc = {}, {}, {}
    _assigns(cls["ARSCHeader"].body, dict(env), hdr)
    _assigns(cls["ARSCResTableEntry"].body, dict(env), ent)
    init = [f for f in cls["ARSCParser"].body if isinstance(f, ast.FunctionDef) and f.name == "__init__"][0]
    for node in ast.walk(init):
        if isinstance(node, ast.Assign) and len(node.targets) == 1 and isinstance(node.targets[0], ast.Name) \
                and node.targets[0].id in ("FLAG_SPARSE", "FLAG_OFFSET16", "NO_ENTRY_16", "NO_ENTRY_32"):
            loc[node.targets[0].id] = _ev(node.value, env)
    want = [
        ("resStringPoolType", mod["RES_STRING_POOL_TYPE"]), ("resTableType", mod["RES_TABLE_TYPE"]),
        ("resTablePackageType", mod["RES_TABLE_PACKAGE_TYPE"]), ("resTableTypeType", mod["RES_TABLE_TYPE_TYPE"]),
        ("resTableTypeSpecType", mod["RES_TABLE_TYPE_SPEC_TYPE"]),
        ("resXmlFirstChunk", mod["RES_XML_FIRST_CHUNK_TYPE"]), ("resXmlLastChunk", mod["RES_XML_LAST_CHUNK_TYPE"]),
        ("utf8Flag", mod["UTF8_FLAG"]), ("headerSize", hdr["SIZE"]),
        ("flagComplex", ent["FLAG_COMPLEX"]), ("flagPublic", ent["FLAG_PUBLIC"]), ("flagWeak", ent["FLAG_WEAK"]),
        ("flagCompact", ent["FLAG_COMPACT"]),
        ("flagSparse", loc["FLAG_SPARSE"]), ("flagOffset16", loc["FLAG_OFFSET16"]),
        ("noEntry16", loc["NO_ENTRY_16"]), ("noEntry32", loc["NO_ENTRY_32"]),
        ("typeReference", types["TYPE_REFERENCE"]), ("typeAttribute", types["TYPE_ATTRIBUTE"]),
        ("typeString", types["TYPE_STRING"]), ("typeFloat", types["TYPE_FLOAT"]),
        ("typeDimension", types["TYPE_DIMENSION"]), ("typeFraction", types["TYPE_FRACTION"]),
        ("typeIntDec", types["TYPE_INT_DEC"]), ("typeIntHex", types["TYPE_INT_HEX"]),
        ("typeIntBoolean", types["TYPE_INT_BOOLEAN"]), ("typeFirstColorInt", types["TYPE_FIRST_COLOR_INT"]),
        ("typeLastColorInt", types["TYPE_LAST_COLOR_INT"]), ("typeFirstInt", types["TYPE_FIRST_INT"]),
        ("typeLastInt", types["TYPE_LAST_INT"]),
    ]
    lines = ["/- GENERATED by gen/arscconsts.py from androguard/core/axml/{__init__,types}.py — do not edit -/",
             "namespace AgVerif.Gen.ArscConsts", ""]
    for n, v in want:
        lines.append(f"def {n} : Nat := {v}")
    lines += ["", "/-! the entry-offset conversions of ARSCParser.__init__ (translated expressions) -/"]
    for name, params, ty, body in offset_exprs(init):
        lines.append("def %s %s : %s := %s" % (name, " ".join("(%s : Nat)" % p for p in params), ty, body))
    lines += ["", "end AgVerif.Gen.ArscConsts", ""]
    return {"ArscConsts": "\n".join(lines)}
