"""Translator for C28/C29: the constants of androguard/core/axml the resource-table model depends on,
read from the working tree by AST extraction (no import) -> lean/AgVerif/Gen/ArscConsts.lean.

  module level            RES_STRING_POOL_TYPE, RES_TABLE_TYPE, RES_TABLE_PACKAGE_TYPE, RES_TABLE_TYPE_TYPE,
                          RES_TABLE_TYPE_SPEC_TYPE, RES_XML_FIRST_CHUNK_TYPE, RES_XML_LAST_CHUNK_TYPE, UTF8_FLAG
  ARSCHeader.SIZE         (an expression of integer literals)
  ARSCResTableEntry       FLAG_COMPLEX, FLAG_PUBLIC, FLAG_WEAK, FLAG_COMPACT
  ARSCParser              FLAG_SPARSE, FLAG_OFFSET16, NO_ENTRY_16, NO_ENTRY_32: local to a method of ARSCParser or module level
                          (exactly one value each, else this raises)
  ARSCParser              the loop over the entries of a ResTable_type (`for <i> in range([0,] <type>.entryCount)` whose first
                          statement tests FLAG_SPARSE), in __init__ or in a method __init__ calls (one level); names of locals
                          are discovered (the tuple bound to `unpack('<HH', 4 bytes)`, the raw 16-bit value, the variable appended
                          with `<package>.mResId`), not assumed.  Read from it:
                          * sparse branch and 16-bit branch: VERIFIED, not pattern-matched: their integer statements (assignments,
                            `if …: continue`, conditional expressions, calls of a nested or module-level helper) are evaluated for
                            every value the 16-bit `unpack` can deliver (0..65535).  When the sparse branch yields `4*off` for all of
                            them and the 16-bit branch skips exactly 0xFFFF and yields `4*raw` otherwise, the canonical definitions
                            (`sparseOffset`, `offsetFrom16`, `dense16Offset`, `dense16Skip`) are emitted — whatever the arithmetic
                            looks like (helper or none, sentinel tested before or after the conversion, `<< 2` for `* 4`).
                            Otherwise the branch's own expression is translated, so that the pin in Props/C28.lean
                            (`sparse_offset_spec`, `offset16_spec`) fails on it; when it cannot be translated this raises,
                            naming the first deviating value.  Statements the evaluator does not understand raise.
                          * plain branch (2^32 values, not enumerable): structurally, the raw 32-bit read and one
                            `== NO_ENTRY_32` skip test (either operand order)  (`plainSkip`, pinned by `plain_skip_spec`)
                          * the two `<package>.mResId = <mask-and-or of mResId and the index>` assignments, translated as
                            expressions (`sparseEntryId`, `denseEntryId`, pinned by `entry_id_spec`)
  types.py                TYPE_REFERENCE, TYPE_ATTRIBUTE, TYPE_STRING, TYPE_FLOAT, TYPE_DIMENSION, TYPE_FRACTION,
                          TYPE_INT_DEC, TYPE_INT_HEX, TYPE_INT_BOOLEAN, TYPE_FIRST_COLOR_INT, TYPE_LAST_COLOR_INT,
                          TYPE_FIRST_INT, TYPE_LAST_INT
"""
import ast
import os


def _ev(node, env):
    if isinstance(node, ast.Constant) and isinstance(node.value, int):
        return node.value
    if isinstance(node, ast.Name):
        return env[node.id]
    if isinstance(node, ast.BinOp):
        a, b = _ev(node.left, env), _ev(node.right, env)
        ops = {ast.Add: lambda: a + b, ast.Sub: lambda: a - b, ast.LShift: lambda: a << b, ast.BitOr: lambda: a | b,
               ast.Mult: lambda: a * b}
        return ops[type(node.op)]()
    raise ValueError("not a constant integer expression: " + ast.dump(node))


def _assigns(body, env, out, prefix=""):
    for st in body:
        if isinstance(st, ast.Assign) and len(st.targets) == 1 and isinstance(st.targets[0], ast.Name):
            try:
                v = _ev(st.value, env)
            except (ValueError, KeyError):
                continue
            env[st.targets[0].id] = v
            out[prefix + st.targets[0].id] = v


# ---------------------------------------------------------------- expressions of the entry-offset loop
_CONST_NAMES = {"FLAG_SPARSE": "flagSparse", "FLAG_OFFSET16": "flagOffset16", "NO_ENTRY_16": "noEntry16",
                "NO_ENTRY_32": "noEntry32"}


class Shape(ValueError):
    """the anchored code no longer has the shape this translator understands"""


def _lean(node, params, funcs=None):
    """a Python integer expression over `params` (and the local constants) as a Lean `Nat` term"""
    if isinstance(node, ast.Constant) and isinstance(node.value, int) and not isinstance(node.value, bool) and node.value >= 0:
        return str(node.value)
    if isinstance(node, ast.Name):
        if node.id in params:
            return params[node.id]
        if node.id in _CONST_NAMES:
            return _CONST_NAMES[node.id]
        raise Shape("unexpected name in offset expression: " + node.id)
    if isinstance(node, ast.Attribute) and ast.unparse(node) in params:
        return params[ast.unparse(node)]
    if isinstance(node, ast.BinOp):
        ops = {ast.Mult: "*", ast.Add: "+", ast.LShift: "<<<", ast.BitOr: "|||", ast.BitAnd: "&&&"}
        if type(node.op) not in ops:
            raise Shape("unexpected operator in offset expression: " + ast.dump(node.op))
        return "(%s %s %s)" % (_lean(node.left, params, funcs), ops[type(node.op)], _lean(node.right, params, funcs))
    if isinstance(node, ast.IfExp):
        return "(if %s then %s else %s)" % (_lean_test(node.test, params, funcs), _lean(node.body, params, funcs), _lean(node.orelse, params, funcs))
    if isinstance(node, ast.Call) and isinstance(node.func, ast.Name) and len(node.args) == 1 and not node.keywords \
            and (node.func.id == "offset_from16" or (funcs and node.func.id in funcs)):
        return "(offsetFrom16 %s)" % _lean(node.args[0], params, funcs)
    raise Shape("unexpected offset expression: " + ast.unparse(node))


def _lean_test(node, params, funcs=None):
    if isinstance(node, ast.Compare) and len(node.ops) == 1 and isinstance(node.ops[0], (ast.Eq, ast.NotEq)):
        op = "=" if isinstance(node.ops[0], ast.Eq) else "≠"
        return "(%s %s %s)" % (_lean(node.left, params, funcs), op, _lean(node.comparators[0], params, funcs))
    raise Shape("unexpected test in offset expression: " + ast.unparse(node))


def _need(cond, what):
    if not cond:
        raise Shape("entry-offset loop of ARSCParser: " + what)


def _assign_to(stmts, name):
    hits = [s for s in stmts if isinstance(s, ast.Assign) and len(s.targets) == 1 and ast.unparse(s.targets[0]) == name]
    _need(len(hits) == 1, "exactly one assignment to `%s` expected, found %d" % (name, len(hits)))
    return hits[0].value


def _skip_test(stmts, var):
    """`if <test>: continue` -> the test"""
    hits = [s for s in stmts if isinstance(s, ast.If) and len(s.body) == 1 and isinstance(s.body[0], ast.Continue)
            and not s.orelse]
    _need(len(hits) == 1, "exactly one `if ...: continue` expected after the read of `%s`" % var)
    return hits[0].test


# ---- a small evaluator for the integer statements of one branch of the loop (used to VERIFY a branch on its
# ---- complete finite domain: every 16-bit value the `unpack` can deliver)
class _Skip(Exception):
    pass


class _Ret(Exception):
    def __init__(self, v):
        self.v = v


_BIN = {ast.Add: lambda a, b: a + b, ast.Sub: lambda a, b: a - b, ast.Mult: lambda a, b: a * b,
        ast.LShift: lambda a, b: a << b, ast.RShift: lambda a, b: a >> b, ast.BitOr: lambda a, b: a | b,
        ast.BitAnd: lambda a, b: a & b, ast.BitXor: lambda a, b: a ^ b, ast.Mod: lambda a, b: a % b,
        ast.FloorDiv: lambda a, b: a // b}
_CMP = {ast.Eq: lambda a, b: a == b, ast.NotEq: lambda a, b: a != b, ast.Lt: lambda a, b: a < b,
        ast.LtE: lambda a, b: a <= b, ast.Gt: lambda a, b: a > b, ast.GtE: lambda a, b: a >= b}


def _eval(node, env, funcs):
    if isinstance(node, ast.Constant) and isinstance(node.value, (int, bool)):
        return node.value
    if isinstance(node, ast.Name):
        if node.id in env:
            return env[node.id]
        raise Shape("name without a value in an offset expression: " + node.id)
    if isinstance(node, ast.BinOp) and type(node.op) in _BIN:
        return _BIN[type(node.op)](_eval(node.left, env, funcs), _eval(node.right, env, funcs))
    if isinstance(node, ast.UnaryOp) and isinstance(node.op, (ast.Invert, ast.USub, ast.Not)):
        v = _eval(node.operand, env, funcs)
        return ~v if isinstance(node.op, ast.Invert) else -v if isinstance(node.op, ast.USub) else (not v)
    if isinstance(node, ast.IfExp):
        return _eval(node.body if _eval(node.test, env, funcs) else node.orelse, env, funcs)
    if isinstance(node, ast.Compare) and all(type(o) in _CMP for o in node.ops):
        left = _eval(node.left, env, funcs)
        for o, c in zip(node.ops, node.comparators):
            right = _eval(c, env, funcs)
            if not _CMP[type(o)](left, right):
                return False
            left = right
        return True
    if isinstance(node, ast.BoolOp):
        vals = [_eval(v, env, funcs) for v in node.values]
        return all(vals) if isinstance(node.op, ast.And) else any(vals)
    if isinstance(node, ast.Call) and isinstance(node.func, ast.Name) and node.func.id in funcs and not node.keywords:
        f = funcs[node.func.id]
        ps = [a.arg for a in f.args.args]
        _need(len(ps) == len(node.args) and not f.args.defaults and not f.args.vararg and not f.args.kwonlyargs,
              "helper %s: plain positional parameters expected" % f.name)
        inner = dict({k: v for k, v in env.items() if k.isupper()}, **{p: _eval(a, env, funcs) for p, a in zip(ps, node.args)})
        try:
            _run(f.body, inner, funcs)
        except _Ret as r:
            return r.v
        raise Shape("helper %s does not return" % f.name)
    raise Shape("cannot evaluate offset expression: " + ast.unparse(node))


def _run(stmts, env, funcs, ignore_attr_targets=True):
    for st in stmts:
        if isinstance(st, ast.Expr) and isinstance(st.value, ast.Constant):
            continue                                               # docstring / comment string
        if isinstance(st, ast.Return) and st.value is not None:
            raise _Ret(_eval(st.value, env, funcs))
        if isinstance(st, ast.Continue):
            raise _Skip()
        if isinstance(st, ast.Assign) and len(st.targets) == 1:
            t = st.targets[0]
            if isinstance(t, ast.Name):
                env[t.id] = _eval(st.value, env, funcs)
                continue
            if isinstance(t, ast.Attribute) and ignore_attr_targets:
                continue                                           # `current_package.mResId = …` is read structurally
        if isinstance(st, ast.If):
            _run(st.body if _eval(st.test, env, funcs) else st.orelse, env, funcs, ignore_attr_targets)
            continue
        raise Shape("cannot interpret statement of the entry-offset loop: " + ast.unparse(st)[:80])


def _is_read(node, fmt, nbytes, via=None):
    """`unpack(fmt, self.buff.read(n))` or `unpack(fmt, <name bound to self.buff.read(n)>)`"""
    if not (isinstance(node, ast.Call) and ast.unparse(node.func) in ("unpack", "struct.unpack") and len(node.args) == 2
            and isinstance(node.args[0], ast.Constant) and node.args[0].value == fmt):
        return False
    src = node.args[1]
    if isinstance(src, ast.Name) and via is not None and src.id in via:
        src = via[src.id]
    return ast.unparse(src) == "self.buff.read(%d)" % nbytes


def _find_loop(cls):
    """the loop over the entries of a ResTable_type: in ARSCParser.__init__, or in a method __init__ calls"""
    methods = {f.name: f for f in cls.body if isinstance(f, ast.FunctionDef)}
    _need("__init__" in methods, "ARSCParser.__init__ not found")
    called = {n.func.attr for n in ast.walk(methods["__init__"]) if isinstance(n, ast.Call)
              and isinstance(n.func, ast.Attribute) and isinstance(n.func.value, ast.Name) and n.func.value.id == "self"}
    hits = []
    for name, f in methods.items():
        if name != "__init__" and name not in called:
            continue
        for n in ast.walk(f):
            if isinstance(n, ast.For) and isinstance(n.target, ast.Name) and isinstance(n.iter, ast.Call) \
                    and ast.unparse(n.iter.func) == "range" and n.iter.args \
                    and ast.unparse(n.iter.args[-1]).endswith(".entryCount") \
                    and (len(n.iter.args) == 1 or (len(n.iter.args) == 2 and ast.unparse(n.iter.args[0]) == "0")) \
                    and n.body and isinstance(n.body[0], ast.If) and "FLAG_SPARSE" in ast.unparse(n.body[0].test):
                hits.append((f, n))
    _need(len(hits) == 1, "exactly one loop `for i in range(0, <type>.entryCount)` testing FLAG_SPARSE expected, found %d" % len(hits))
    return hits[0]


def _first_mismatch(domain, f, want):
    for v in domain:
        got = f(v)
        if got != want(v):
            return v, got, want(v)
    return None


CANON = {
    "offsetFrom16": ("offsetFrom16", ["off16"], "Nat", "(if (off16 = noEntry16) then noEntry16 else (off16 * 4))"),
    "sparseOffset": ("sparseOffset", ["off"], "Nat", "(off * 4)"),
    "dense16Offset": ("dense16Offset", ["offset_16"], "Nat", "(offsetFrom16 offset_16)"),
    "dense16Skip": ("dense16Skip", ["offset"], "Bool", "decide (offset = noEntry16)"),
    "plainSkip": ("plainSkip", ["offset"], "Bool", "decide (offset = noEntry32)"),
}


def offset_exprs(tree, cls, consts):
    """the Lean definitions for the conversions in the loop over the entries of a ResTable_type.

    Names of locals are discovered, not assumed; constants may be local or module level; the 16-bit helper may be
    nested, module level, or absent.  The sparse and the 16-bit branch are VERIFIED by evaluating their statements
    for every 16-bit value: when a branch computes `offset = 4 * raw` (16-bit: with raw = 0xFFFF skipped) on the whole
    domain, the canonical definitions are emitted; otherwise the branch's own expression is translated (so that the
    pin in Props/C28.lean fails on it) or, when it cannot be translated, this raises with the first deviating value."""
    fn, loop = _find_loop(cls)
    ivar = loop.target.id
    tyname = ast.unparse(loop.iter.args[-1])[: -len(".entryCount")]
    funcs = {f.name: f for f in tree.body if isinstance(f, ast.FunctionDef)}
    funcs.update({f.name: f for f in ast.walk(fn) if isinstance(f, ast.FunctionDef) and f is not fn})
    cenv = dict(consts)
    body = loop.body
    _need(len(body) == 2 and ast.unparse(body[0].test) == tyname + ".flags & FLAG_SPARSE",
          "first statement is not `if %s.flags & FLAG_SPARSE`" % tyname)
    app = body[1]
    _need(isinstance(app, ast.Expr) and isinstance(app.value, ast.Call) and isinstance(app.value.func, ast.Attribute)
          and app.value.func.attr == "append" and len(app.value.args) == 1 and isinstance(app.value.args[0], ast.Tuple)
          and len(app.value.args[0].elts) == 2 and isinstance(app.value.args[0].elts[0], ast.Name)
          and isinstance(app.value.args[0].elts[1], ast.Attribute) and app.value.args[0].elts[1].attr == "mResId",
          "`<entries>.append((<offset>, <package>.mResId))` expected as the last statement of the loop")
    offvar = app.value.args[0].elts[0].id
    idattr = ast.unparse(app.value.args[0].elts[1])
    sparse, dense = body[0].body, body[0].orelse
    # ---- sparse: (idx, off) = unpack('<HH', 4 bytes)
    via = {s.targets[0].id: s.value for s in sparse if isinstance(s, ast.Assign) and len(s.targets) == 1
           and isinstance(s.targets[0], ast.Name)}
    reads = [s for s in sparse if isinstance(s, ast.Assign) and len(s.targets) == 1 and isinstance(s.targets[0], ast.Tuple)
             and len(s.targets[0].elts) == 2 and all(isinstance(e, ast.Name) for e in s.targets[0].elts)
             and _is_read(s.value, "<HH", 4, via)]
    _need(len(reads) == 1, "sparse: `idx, off = unpack('<HH', <4 bytes>)` expected")
    idxn, offn = (e.id for e in reads[0].targets[0].elts)
    rest = [s for s in sparse if s is not reads[0] and not (isinstance(s, ast.Assign) and ast.unparse(s.value) == "self.buff.read(4)")]

    def sparse_at(v):
        env = dict(cenv, **{idxn: 0, offn: v})
        try:
            _run(rest, env, funcs)
        except _Skip:
            return "skip"
        return env.get(offvar)
    out = []
    bad = _first_mismatch(range(65536), sparse_at, lambda v: 4 * v)
    if bad is None:
        sparse_def = CANON["sparseOffset"]
    else:
        try:
            _need(not any(isinstance(s, (ast.If, ast.Continue)) for s in sparse), "sparse: no skipped entries expected")
            sparse_def = ("sparseOffset", ["off"], "Nat", _lean(_assign_to(sparse, offvar), {offn: "off"}, funcs))
        except Shape as e:
            raise Shape("sparse branch: offset(0x%X) = %r, expected %r; and not translatable: %s" % (bad + (e,)))
    idmask = {idattr: "mResId"}
    sparse_id = ("sparseEntryId", ["mResId", "idx"], "Nat", _lean(_assign_to(sparse, idattr), dict(idmask, **{idxn: "idx"}), funcs))
    # ---- dense: id, then 16-bit or 32-bit offsets
    _need(len(dense) == 2 and isinstance(dense[1], ast.If) and ast.unparse(dense[1].test) == tyname + ".flags & FLAG_OFFSET16",
          "dense: `if %s.flags & FLAG_OFFSET16` expected" % tyname)
    dense_id = ("denseEntryId", ["mResId", "i"], "Nat", _lean(_assign_to(dense[:1], idattr), dict(idmask, **{ivar: "i"}), funcs))
    d16, d32 = dense[1].body, dense[1].orelse
    r16 = [s for s in d16 if isinstance(s, ast.Assign) and len(s.targets) == 1 and isinstance(s.targets[0], ast.Name)
           and isinstance(s.value, ast.Subscript) and ast.unparse(s.value.slice) == "0" and _is_read(s.value.value, "<H", 2)]
    _need(len(r16) == 1 and d16[0] is r16[0], "offset16: `<raw> = unpack('<H', self.buff.read(2))[0]` expected first")
    rawn = r16[0].targets[0].id

    def d16_at(v):
        env = dict(cenv, **{rawn: v})
        try:
            _run(d16[1:], env, funcs)
        except _Skip:
            return "skip"
        return env.get(offvar)
    bad = _first_mismatch(range(65536), d16_at, lambda v: "skip" if v == 0xFFFF else 4 * v)
    if bad is None:
        d16_defs = [CANON["offsetFrom16"], CANON["dense16Offset"], CANON["dense16Skip"]]
    else:
        try:
            call = _assign_to(d16, offvar)
            _need(isinstance(call, ast.Call) and isinstance(call.func, ast.Name) and call.func.id in funcs, "helper call expected")
            h = funcs[call.func.id]
            _need(len(h.args.args) == 1 and len(h.body) == 1 and isinstance(h.body[0], ast.Return), "helper is not a single return")
            hp = h.args.args[0].arg
            d16_defs = [("offsetFrom16", [hp], "Nat", _lean(h.body[0].value, {hp: hp}, funcs)),
                        ("dense16Offset", ["offset_16"], "Nat", "(offsetFrom16 %s)" % _lean(call.args[0], {rawn: "offset_16"}, funcs)),
                        ("dense16Skip", ["offset"], "Bool", "decide " + _lean_test(_skip_test(d16, rawn), {offvar: "offset"}, funcs))]
        except Shape as e:
            raise Shape("offset16 branch: raw 0x%X gives %r, expected %r; and not translatable: %s" % (bad + (e,)))
    # ---- plain: raw 32-bit offset, one sentinel (2^32 values: read structurally)
    r32 = [s for s in d32 if isinstance(s, ast.Assign) and len(s.targets) == 1 and isinstance(s.targets[0], ast.Name)
           and isinstance(s.value, ast.Subscript) and ast.unparse(s.value.slice) == "0" and _is_read(s.value.value, "<I", 4)]
    _need(len(r32) == 1 and r32[0].targets[0].id == offvar and len(d32) == 2, "plain: `<offset> = unpack('<I', self.buff.read(4))[0]` and one test expected")
    t = _skip_test(d32, offvar)
    if isinstance(t, ast.Compare) and len(t.ops) == 1 and isinstance(t.ops[0], ast.Eq) and \
            {ast.unparse(t.left), ast.unparse(t.comparators[0])} == {offvar, "NO_ENTRY_32"}:
        plain = CANON["plainSkip"]
    else:
        plain = ("plainSkip", ["offset"], "Bool", "decide " + _lean_test(t, {offvar: "offset"}, funcs))
    return [d16_defs[0], sparse_def, sparse_id, dense_id, d16_defs[1], d16_defs[2], plain]


def generate(repo):
    base = os.path.join(repo, "androguard", "core", "axml")
    env, types, mod = {}, {}, {}
    _assigns(ast.parse(open(os.path.join(base, "types.py")).read()).body, env, types)
    tree = ast.parse(open(os.path.join(base, "__init__.py")).read())
    _assigns(tree.body, env, mod)
    cls = {c.name: c for c in tree.body if isinstance(c, ast.ClassDef)}
    hdr, ent, loc = {}, {}, {}
    _assigns(cls["ARSCHeader"].body, dict(env), hdr)
    _assigns(cls["ARSCResTableEntry"].body, dict(env), ent)
    for name in ("FLAG_SPARSE", "FLAG_OFFSET16", "NO_ENTRY_16", "NO_ENTRY_32"):
        vals = set()
        if name in mod:
            vals.add(mod[name])
        for node in ast.walk(cls["ARSCParser"]):
            if isinstance(node, ast.Assign) and len(node.targets) == 1 and isinstance(node.targets[0], ast.Name) \
                    and node.targets[0].id == name:
                vals.add(_ev(node.value, env))
        if len(vals) != 1:
            raise Shape("constant %s: exactly one value expected (module level or local to ARSCParser), found %s" % (name, sorted(vals)))
        loc[name] = vals.pop()
    want = [
        ("resStringPoolType", mod["RES_STRING_POOL_TYPE"]), ("resTableType", mod["RES_TABLE_TYPE"]),
        ("resTablePackageType", mod["RES_TABLE_PACKAGE_TYPE"]), ("resTableTypeType", mod["RES_TABLE_TYPE_TYPE"]),
        ("resTableTypeSpecType", mod["RES_TABLE_TYPE_SPEC_TYPE"]),
        ("resXmlFirstChunk", mod["RES_XML_FIRST_CHUNK_TYPE"]), ("resXmlLastChunk", mod["RES_XML_LAST_CHUNK_TYPE"]),
        ("utf8Flag", mod["UTF8_FLAG"]), ("headerSize", hdr["SIZE"]),
        ("flagComplex", ent["FLAG_COMPLEX"]), ("flagPublic", ent["FLAG_PUBLIC"]), ("flagWeak", ent["FLAG_WEAK"]),
        ("flagCompact", ent["FLAG_COMPACT"]),
        ("flagSparse", loc["FLAG_SPARSE"]), ("flagOffset16", loc["FLAG_OFFSET16"]),
        ("noEntry16", loc["NO_ENTRY_16"]), ("noEntry32", loc["NO_ENTRY_32"]),
        ("typeReference", types["TYPE_REFERENCE"]), ("typeAttribute", types["TYPE_ATTRIBUTE"]),
        ("typeString", types["TYPE_STRING"]), ("typeFloat", types["TYPE_FLOAT"]),
        ("typeDimension", types["TYPE_DIMENSION"]), ("typeFraction", types["TYPE_FRACTION"]),
        ("typeIntDec", types["TYPE_INT_DEC"]), ("typeIntHex", types["TYPE_INT_HEX"]),
        ("typeIntBoolean", types["TYPE_INT_BOOLEAN"]), ("typeFirstColorInt", types["TYPE_FIRST_COLOR_INT"]),
        ("typeLastColorInt", types["TYPE_LAST_COLOR_INT"]), ("typeFirstInt", types["TYPE_FIRST_INT"]),
        ("typeLastInt", types["TYPE_LAST_INT"]),
    ]
    lines = ["/- GENERATED by gen/arscconsts.py from androguard/core/axml/{__init__,types}.py — do not edit -/",
             "namespace AgVerif.Gen.ArscConsts", ""]
    for n, v in want:
        lines.append(f"def {n} : Nat := {v}")
    lines += ["", "/-! the entry-offset conversions of ARSCParser.__init__ (translated expressions) -/"]
    for name, params, ty, body in offset_exprs(tree, cls["ARSCParser"], loc):
        lines.append("def %s %s : %s := %s" % (name, " ".join("(%s : Nat)" % p for p in params), ty, body))
    lines += ["", "end AgVerif.Gen.ArscConsts", ""]
    return {"ArscConsts": "\n".join(lines)}
