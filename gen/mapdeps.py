"""Translator for C07 (and the load order used by C05's file-level model):
androguard/core/dex/dex_types.py  ->  lean/AgVerif/Gen/MapDeps.lean

Emits, regenerated from the working tree on every run,
  * `members`   : the members of `TypeMapItem` (name, value) in definition order        (AST)
  * `deps`      : `TypeMapItem._get_dependencies()` as an ordered association list
                  (key, dependencies sorted ascending), with OrderedDict semantics for a
                  repeated key (position of the first occurrence, value of the last)   (AST)
  * `loadOrder` : what the real `TypeMapItem.determine_load_order()` returns, as
                  (type, rank) pairs in insertion order                          (reflection:
                  dex_types.py is executed from the file, it imports only collections/enum)
  * `loadOrderError` : true when the real function raised ('recursive loading dependency')
The theorems of Props/C07.lean are stated over these definitions, so a change of the table in
the source is re-checked (kahn deps = loadOrder, topological, injective, total).
Anything this translator does not recognise makes it raise (recorded as a broken obligation).
"""
import ast
import importlib.util
import os

SRC = "androguard/core/dex/dex_types.py"


class Unrecognised(Exception):
    pass


def _members(cls):
    out = []
    for n in cls.body:
        if isinstance(n, ast.Assign):
            if len(n.targets) != 1 or not isinstance(n.targets[0], ast.Name):
                raise Unrecognised("TypeMapItem: unexpected assignment at line %d" % n.lineno)
            v = n.value
            if not (isinstance(v, ast.Constant) and isinstance(v.value, int) and not isinstance(v.value, bool)):
                raise Unrecognised("TypeMapItem.%s is not an integer literal" % n.targets[0].id)
            out.append((n.targets[0].id, v.value))
    if not out:
        raise Unrecognised("TypeMapItem has no members")
    return out


def _member_ref(node, values):
    if (isinstance(node, ast.Attribute) and isinstance(node.value, ast.Name)
            and node.value.id == "TypeMapItem" and node.attr in values):
        return values[node.attr]
    raise Unrecognised("expected TypeMapItem.<member> at line %d: %s" % (node.lineno, ast.unparse(node)))


def _deps(fn, values):
    rets = [s for s in fn.body if isinstance(s, ast.Return)]
    others = [s for s in fn.body if not isinstance(s, (ast.Return, ast.Expr))]
    if len(rets) != 1 or others:
        raise Unrecognised("_get_dependencies: expected a single return statement")
    call = rets[0].value
    if not (isinstance(call, ast.Call) and isinstance(call.func, ast.Name) and call.func.id == "OrderedDict"
            and len(call.args) == 1 and not call.keywords and isinstance(call.args[0], ast.List)):
        raise Unrecognised("_get_dependencies: expected `return OrderedDict([...])`")
    order, table = [], {}
    for el in call.args[0].elts:
        if not (isinstance(el, ast.Tuple) and len(el.elts) == 2):
            raise Unrecognised("_get_dependencies: entry is not a pair at line %d" % el.lineno)
        k = _member_ref(el.elts[0], values)
        v = el.elts[1]
        if isinstance(v, ast.Call) and isinstance(v.func, ast.Name) and v.func.id == "set" and not v.args:
            ds = set()
        elif isinstance(v, ast.Set):
            ds = {_member_ref(x, values) for x in v.elts}
        else:
            raise Unrecognised("_get_dependencies: value is neither set() nor a set display at line %d" % v.lineno)
        if k not in table:
            order.append(k)
        table[k] = sorted(ds)
    return [(k, table[k]) for k in order]


def _reflect(path):
    spec = importlib.util.spec_from_file_location("_agverif_dex_types", path)
    mod = importlib.util.module_from_spec(spec)
    spec.loader.exec_module(mod)
    try:
        o = mod.TypeMapItem.determine_load_order()
    except Exception as e:  # noqa
        if "recursive loading dependency" in str(e):
            return None
        raise
    return [(int(k), int(v)) for k, v in o.items()]


def extract(repo):
    path = os.path.join(repo, SRC)
    tree = ast.parse(open(path).read())
    cls = next((n for n in tree.body if isinstance(n, ast.ClassDef) and n.name == "TypeMapItem"), None)
    if cls is None:
        raise Unrecognised("class TypeMapItem not found")
    members = _members(cls)
    values = dict(members)
    fn = next((n for n in cls.body if isinstance(n, ast.FunctionDef) and n.name == "_get_dependencies"), None)
    if fn is None:
        raise Unrecognised("TypeMapItem._get_dependencies not found")
    return {"members": members, "deps": _deps(fn, values), "loadOrder": _reflect(path)}


def _nat(v):
    if v < 0:
        raise Unrecognised("negative map type code")
    return "0x%x" % v


def generate(repo):
    x = extract(repo)
    mem = ", ".join('("%s", %s)' % (n, _nat(v)) for n, v in x["members"])
    deps = ",\n  ".join("(%s, [%s])" % (_nat(k), ", ".join(_nat(d) for d in ds)) for k, ds in x["deps"])
    lo = x["loadOrder"]
    order = ", ".join("(%s, %d)" % (_nat(k), r) for k, r in (lo or []))
    text = f"""/- GENERATED by gen/mapdeps.py from {SRC} (TypeMapItem members and _get_dependencies by AST,
   determine_load_order() by running the real function). Do not edit. -/
namespace AgVerif.Gen.MapDeps

/-- members of TypeMapItem (name, value), definition order -/
def members : List (String × Nat) := [{mem}]

/-- TypeMapItem._get_dependencies(): (type, types that must be loaded before it) -/
def deps : List (Nat × List Nat) := [
  {deps}]

/-- the real TypeMapItem.determine_load_order(): (type, rank), insertion order -/
def loadOrder : List (Nat × Nat) := [{order}]

/-- the real function raised 'recursive loading dependency' -/
def loadOrderError : Bool := {"true" if lo is None else "false"}

end AgVerif.Gen.MapDeps
"""
    return {"MapDeps": text}


if __name__ == "__main__":
    import sys
    print(generate(sys.argv[1] if len(sys.argv) > 1 else "/repo")["MapDeps"])
