"""Translator for C34: androguard/core/apk/__init__.py  ->  lean/AgVerif/Gen/ApkRegex.lean

Reads (AST only, no import) `APK.get_dex_names` and `APK.is_multidex` and emits, for each of them,
  * the text of the ONE regular expression the method applies,
  * the name of the matching method applied (match / search / fullmatch / …).
The Lean side pins both (`AgVerif.C34.regex_pinned`): the predicates `dexMatch` / `multidexMatch` of
lean/AgVerif/Model/ApkFiles.lean are the hand compilation of exactly these two patterns under
`fullmatch`; any change of the pattern text or of the matching method in the code changes the
generated file, breaks that theorem and forces the predicates to be derived again.

What is read SEMANTICALLY (behaviour-preserving rewrites give the same generated file):
  * the compiled pattern may be a local `v = re.compile(P)`, a module-level constant
    `_NAME = re.compile(P)` (bound exactly once at module level, never declared `global`, not shadowed
    in the method) or the expression `re.compile(P)` itself; the module-function form `re.fullmatch(P, x)`
    is read as `re.compile(P).fullmatch(x)`;
  * `P` may be a string literal, a module-level constant bound once to such an expression, or a `+`
    concatenation of those (constant folding); flags are refused;
  * the application may be a call `v.fullmatch(x)` or the bound method `v.fullmatch` passed on (to `filter`);
  * locals may be renamed; the regex use may sit in a PRIVATE helper of the same module (a method
    `self._helper(…)` of the class or a module-level function `_helper(…)`) called from the method: the
    helper is inlined one level (a helper that calls further private helpers is refused);
  * `re` must be the module bound by the single top-level `import re`.
What keeps raising (`Unrecognised`, recorded by the check as a broken obligation, never a verdict):
  more or fewer than one regex use per method, flags, a pattern object that escapes (passed, returned,
  `.pattern`), non-constant pattern text, `re.<other>`, and a method that uses NO regular expression at all —
  e.g. a hand-written string predicate.  Such a predicate is an arbitrary Python function: agreeing with
  the model on a finite set of class representatives up to a length bound proves nothing unless the
  function is first shown to be a finite automaton over those character classes (it may branch on
  `len(name) > 100` or on one particular code point), so the translator does not accept it on tests;
  the correspondence and the oracle of harness/props/c34.py still run and judge the code.
"""
import ast
import os

SRC = "androguard/core/apk/__init__.py"
PATTERN_METHODS = ("match", "search", "fullmatch", "findall", "finditer", "split", "sub", "subn")


class Unrecognised(Exception):
    pass


class Module:
    """the facts about the module that the local reasoning needs"""

    def __init__(self, tree):
        self.tree = tree
        self.bind_count = {}       # module-level name -> number of bindings at module level
        self.const_value = {}      # module-level name -> value node of its (plain) assignment
        self.funcs = {}            # module-level function name -> FunctionDef
        self.globals_declared = {n for node in ast.walk(tree) if isinstance(node, ast.Global) for n in node.names}
        self.re_ok = False
        self._scan(tree.body)
        self.re_ok = self.bind_count.get("re") == 1 and self._re_import

    _re_import = False

    def _bind(self, name):
        self.bind_count[name] = self.bind_count.get(name, 0) + 1

    def _scan(self, body):
        """every binding at module level (also inside if/try/for/with at module level, not inside def/class)"""
        for st in body:
            if isinstance(st, (ast.FunctionDef, ast.AsyncFunctionDef)):
                self._bind(st.name)
                self.funcs.setdefault(st.name, st)
                continue
            if isinstance(st, ast.ClassDef):
                self._bind(st.name)
                continue
            if isinstance(st, (ast.Import, ast.ImportFrom)):
                for a in st.names:
                    nm = (a.asname or a.name).split(".")[0]
                    self._bind(nm)
                    if isinstance(st, ast.Import) and a.name == "re" and a.asname is None:
                        self._re_import = True
                continue
            if isinstance(st, ast.Assign) and len(st.targets) == 1 and isinstance(st.targets[0], ast.Name):
                self._bind(st.targets[0].id)
                self.const_value[st.targets[0].id] = st.value
                continue
            if isinstance(st, ast.AnnAssign) and isinstance(st.target, ast.Name) and st.value is not None:
                self._bind(st.target.id)
                self.const_value[st.target.id] = st.value
                continue
            # anything else: count every name it stores or deletes (walk, but not into def/class bodies)
            stack = [st]
            while stack:
                n = stack.pop()
                if isinstance(n, (ast.FunctionDef, ast.AsyncFunctionDef, ast.ClassDef)):
                    self._bind(n.name)
                    continue
                if isinstance(n, ast.Name) and isinstance(n.ctx, (ast.Store, ast.Del)):
                    self._bind(n.id)
                    self.const_value.pop(n.id, None)
                if isinstance(n, (ast.Import, ast.ImportFrom)):
                    for a in n.names:
                        self._bind((a.asname or a.name).split(".")[0])
                stack.extend(ast.iter_child_nodes(n))

    def constant(self, name):
        """value node of a module-level name that is bound exactly once, by a plain assignment, and never `global`"""
        if self.bind_count.get(name) == 1 and name in self.const_value and name not in self.globals_declared:
            return self.const_value[name]
        return None


def _class(tree, cls):
    for n in tree.body:
        if isinstance(n, ast.ClassDef) and n.name == cls:
            return n
    raise Unrecognised(f"class {cls} not found")


def _method(tree, cls, name):
    found = [m for m in _class(tree, cls).body
             if isinstance(m, (ast.FunctionDef, ast.AsyncFunctionDef)) and m.name == name]
    if len(found) != 1:
        raise Unrecognised(f"{cls}.{name}: {len(found)} definitions")
    return found[0]


def _local_stores(fn):
    """names bound inside the function (parameters, assignments, loop/with/comprehension targets, imports, defs)"""
    out = {}
    for a in fn.args.posonlyargs + fn.args.args + fn.args.kwonlyargs:
        out[a.arg] = out.get(a.arg, 0) + 1
    for a in (fn.args.vararg, fn.args.kwarg):
        if a is not None:
            out[a.arg] = out.get(a.arg, 0) + 1
    for n in ast.walk(fn):
        if isinstance(n, ast.Name) and isinstance(n.ctx, (ast.Store, ast.Del)):
            out[n.id] = out.get(n.id, 0) + 1
        elif isinstance(n, (ast.FunctionDef, ast.AsyncFunctionDef, ast.ClassDef)) and n is not fn:
            out[n.name] = out.get(n.name, 0) + 1
        elif isinstance(n, (ast.Import, ast.ImportFrom)):
            for a in n.names:
                nm = (a.asname or a.name).split(".")[0]
                out[nm] = out.get(nm, 0) + 1
    return out


def _is_re(node, locs, mod):
    return isinstance(node, ast.Name) and node.id == "re" and "re" not in locs and mod.re_ok


def eval_str(node, locs, mod, where, depth=0):
    """constant folding of the pattern text"""
    if depth > 8:
        raise Unrecognised(f"{where}: pattern text is defined through too many names")
    if isinstance(node, ast.Constant) and isinstance(node.value, str):
        return node.value
    if isinstance(node, ast.BinOp) and isinstance(node.op, ast.Add):
        return eval_str(node.left, locs, mod, where, depth + 1) + eval_str(node.right, locs, mod, where, depth + 1)
    if isinstance(node, ast.Name) and node.id not in locs:
        v = mod.constant(node.id)
        if v is not None:
            return eval_str(v, {}, mod, where, depth + 1)
    raise Unrecognised(f"{where}: pattern text is not a constant string expression")


def _compile_pattern(call, locs, mod, where):
    """P when `call` is re.compile(P) without flags, else None"""
    if not (isinstance(call, ast.Call) and isinstance(call.func, ast.Attribute) and call.func.attr == "compile"
            and _is_re(call.func.value, locs, mod)):
        return None
    if len(call.args) != 1 or call.keywords:
        raise Unrecognised(f"{where}: re.compile with flags or unusual arguments")
    return eval_str(call.args[0], locs, mod, where)


def _uses(fn, mod, cls, where, level):
    """every regular-expression use inside fn (private helpers inlined one level): [(pattern text, method)]"""
    locs = _local_stores(fn)
    uses = []
    parent = {}
    for n in ast.walk(fn):
        for c in ast.iter_child_nodes(n):
            parent[c] = n
    # local names bound to a compiled pattern: exactly one binding in the function, `v = re.compile(P)`
    local_pat = {}
    for n in ast.walk(fn):
        if isinstance(n, ast.Assign) and isinstance(n.value, ast.Call):
            p = _compile_pattern(n.value, locs, mod, where)
            if p is not None:
                if len(n.targets) != 1 or not isinstance(n.targets[0], ast.Name) or locs.get(n.targets[0].id) != 1:
                    raise Unrecognised(f"{where}: re.compile result is not bound once to a plain local name")
                local_pat[n.targets[0].id] = p

    def pattern_of(v):
        """the pattern text when expression v denotes a compiled pattern, else None"""
        if isinstance(v, ast.Name):
            if v.id in local_pat:
                return local_pat[v.id]
            if v.id not in locs:
                c = mod.constant(v.id)
                if c is not None:
                    return _compile_pattern(c, {}, mod, f"module constant {v.id}")
            return None
        return _compile_pattern(v, locs, mod, where)

    consumed = set()
    for n in ast.walk(fn):
        if isinstance(n, ast.Attribute):
            if _is_re(n.value, locs, mod):
                if n.attr == "compile":
                    continue
                if n.attr not in PATTERN_METHODS:
                    raise Unrecognised(f"{where}: use of re.{n.attr}")
                call = parent.get(n)
                if not (isinstance(call, ast.Call) and call.func is n):
                    raise Unrecognised(f"{where}: re.{n.attr} is not called directly")
                if len(call.args) != 2 or call.keywords:
                    raise Unrecognised(f"{where}: re.{n.attr} with flags or unusual arguments")
                uses.append((eval_str(call.args[0], locs, mod, where), n.attr))
                continue
            p = pattern_of(n.value)
            if p is not None:
                if n.attr not in PATTERN_METHODS:
                    raise Unrecognised(f"{where}: attribute .{n.attr} of a compiled pattern")
                uses.append((p, n.attr))
                consumed.add(n.value)
    # a compiled pattern must not escape: every mention of a pattern name / re.compile(...) is one of the uses above
    for n in ast.walk(fn):
        if n in consumed:
            continue
        if isinstance(n, ast.Name) and isinstance(n.ctx, ast.Load) and pattern_of(n) is not None:
            raise Unrecognised(f"{where}: the compiled pattern {n.id} is used other than by calling a matching method")
        if isinstance(n, ast.Call) and _compile_pattern(n, locs, mod, where) is not None:
            par = parent.get(n)
            if not (isinstance(par, ast.Assign) and par.value is n):
                raise Unrecognised(f"{where}: re.compile(...) result is used other than by calling a matching method")
    # private helpers of the same module, one level
    for n in ast.walk(fn):
        if not isinstance(n, ast.Call):
            continue
        helper = None
        f = n.func
        if (isinstance(f, ast.Attribute) and isinstance(f.value, ast.Name) and f.value.id in ("self", "cls")
                and f.attr.startswith("_") and not f.attr.startswith("__")):
            found = [m for m in cls.body if isinstance(m, ast.FunctionDef) and m.name == f.attr]
            if len(found) == 1:
                helper = found[0]
        elif (isinstance(f, ast.Name) and f.id.startswith("_") and f.id not in locs and mod.bind_count.get(f.id) == 1
              and f.id in mod.funcs and f.id not in mod.globals_declared):
            helper = mod.funcs[f.id]
        if helper is None or helper is fn:
            continue
        if level >= 1:
            raise Unrecognised(f"{where}: helper calls a further private helper {helper.name} (only one level is inlined)")
        uses += _uses(helper, mod, cls, f"{where} -> {helper.name} (line {helper.lineno})", level + 1)
    return uses


def extract(fn, mod=None, cls=None):
    """(pattern text, matching method) of the one regular expression a method applies"""
    where = f"{fn.name} (line {fn.lineno})"
    uses = _uses(fn, mod, cls, where, 0)
    if len(uses) != 1:
        raise Unrecognised(f"{where}: expected exactly one regular-expression use, found {len(uses)}"
                           + (" — a method without a regular expression (e.g. a hand-written string predicate) is not "
                              "accepted on tests: see the module docstring" if not uses else f": {uses}"))
    return uses[0]


def lean_str(s: str) -> str:
    out = ['"']
    for c in s:
        if c == "\\":
            out.append("\\\\")
        elif c == '"':
            out.append('\\"')
        elif c == "\n":
            out.append("\\n")
        elif c == "\t":
            out.append("\\t")
        elif c == "\r":
            out.append("\\r")
        elif ord(c) < 0x20 or ord(c) == 0x7F:
            out.append("\\x%02x" % ord(c))
        else:
            out.append(c)
    out.append('"')
    return "".join(out)


def generate(repo):
    path = os.path.join(repo, SRC)
    tree = ast.parse(open(path, encoding="utf-8").read())
    mod = Module(tree)
    if not mod.re_ok:
        raise Unrecognised("`re` is not bound exactly once, by a top-level `import re`")
    cls = _class(tree, "APK")
    dex_re, dex_m = extract(_method(tree, "APK", "get_dex_names"), mod, cls)
    multi_re, multi_m = extract(_method(tree, "APK", "is_multidex"), mod, cls)
    text = f"""/- GENERATED by gen/apkregex.py from {SRC} — do not edit.
   The regex literals of APK.get_dex_names / APK.is_multidex and the method called on the compiled pattern. -/
namespace AgVerif.Gen

def dexRegex : String := {lean_str(dex_re)}
def dexRegexMethod : String := {lean_str(dex_m)}
def multidexRegex : String := {lean_str(multi_re)}
def multidexRegexMethod : String := {lean_str(multi_m)}

end AgVerif.Gen
"""
    return {"ApkRegex": text}


if __name__ == "__main__":
    import sys
    print(generate(sys.argv[1] if len(sys.argv) > 1 else "/repo")["ApkRegex"])
