#!/bin/bash
# Build the framework offline from files on disk: regenerate Gen/*.lean from the repository, then
# lake-build every property module and every driver executable.
set -u
cd "$(dirname "$0")"
export VERIF_REPO="${VERIF_REPO:-/repo}"
export PYTHONPATH="$VERIF_REPO:$(pwd)"
export PYTHONDONTWRITEBYTECODE=1
/venv/bin/python -m harness.genall || echo "setup: some translators failed (their checks will report it)"
cd lean
targets=""
for f in AgVerif/Props/C*.lean; do [ -e "$f" ] && targets="$targets AgVerif.Props.$(basename "$f" .lean)"; done
for f in Driver/C*.lean; do [ -e "$f" ] && targets="$targets drv_$(basename "$f" .lean)"; done
echo "lake build$targets"
exec flock .build.lock lake build $targets
