#!/bin/bash
# Build the framework offline from files on disk: regenerate Gen/*.lean from the repository, then
# lake-build the property module and driver of every check registered in MANIFEST.json.
# A module that fails to build here is reported by its own check (as a broken obligation), not by setup.
set -u
cd "$(dirname "$0")"
export VERIF_REPO="${VERIF_REPO:-/repo}"
export PYTHONPATH="$VERIF_REPO:$(pwd)"
export PYTHONDONTWRITEBYTECODE=1
/venv/bin/python -m harness.genall || echo "setup: some translators failed (their checks will report it)"
ids=$(/venv/bin/python -c "import json;print(' '.join(c['property_id'] for c in json.load(open('MANIFEST.json'))['checks']))")
cd lean
targets=""
for id in $ids; do
  [ -e "AgVerif/Props/$id.lean" ] && targets="$targets AgVerif.Props.$id"
  [ -e "Driver/$id.lean" ] && targets="$targets drv_$id"
done
echo "lake build$targets"
flock .build.lock lake build $targets || echo "setup: some targets failed to build (their checks will report it)"
exit 0
